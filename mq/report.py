"""Rule results, known-findings protocol, evidence files."""
import json, os, time

VERIF = os.path.dirname(os.path.dirname(os.path.abspath(__file__)))


class Ctx:
    def __init__(self, prop, tier, seed, facts_loader):
        self.prop = prop
        self.tier = tier
        self.seed = seed
        self._loader = facts_loader
        self._facts = {}
        self.instances = []     # {rule, instance, loc, verdict, detail}
        self.violations = []    # {rule, key, loc, detail, path}
        self.notes = []
        self.t0 = time.time()
        self.profiles = []
        self.assumptions = []
        self.witness = None

    def facts(self, profile="dbg"):
        if profile not in self._facts:
            self._facts[profile] = self._loader(profile)
            self.profiles.append(profile)
        return self._facts[profile]

    # -- recording ------------------------------------------------------------------------
    def ok(self, rule, instance, loc="", detail=""):
        self.instances.append({"rule": rule, "instance": instance, "loc": loc, "verdict": "holds", "detail": detail})

    def bad(self, rule, key, loc, detail, path=None, **extra):
        """key: stable identifier without line numbers: '<fn role>#<instance>'"""
        full = "%s %s" % (rule, key)
        rec = {"rule": rule, "key": full, "loc": loc, "detail": detail}
        if path is not None:
            rec["path"] = path
        rec.update(extra)
        if any(v["key"] == full for v in self.violations):
            return
        self.violations.append(rec)
        self.instances.append({"rule": rule, "instance": key, "loc": loc, "verdict": "VIOLATED", "detail": detail})

    def check(self, cond, rule, key, loc, detail_bad, detail_ok="", path=None):
        if cond:
            self.ok(rule, key, loc, detail_ok)
        else:
            self.bad(rule, key, loc, detail_bad, path)
        return cond

    def floor(self, rule, what, count, minimum):
        """fail closed when an anchor / instance family disappears"""
        if count < minimum:
            if getattr(self, "relaxed", False):
                self.notes.append("%s: %s = %d below floor %d in this configuration" % (rule, what, count, minimum))
                return False
            self.bad(rule, "anchor-lost#%s" % what, "", "expected at least %d %s, found %d" % (minimum, what, count))
            return False
        self.notes.append("%s: %s = %d (floor %d)" % (rule, what, count, minimum))
        return True

    def note(self, s):
        self.notes.append(s)


class _Filtered:
    """rename table whose membership also depends on the instance key currently being recorded"""
    def __init__(self, table, only):
        self.table, self.only, self.key = table, only, ""

    def __contains__(self, rule):
        return rule in self.table and self.only(self.key)

    def __getitem__(self, rule):
        return self.table[rule]


class RuleView:
    """a view of a Ctx that keeps only some rules of a borrowed rule module and records them under another rule id
    (one analysis serving a clause that two properties share)"""

    def __init__(self, ctx, rename, only=None):
        self._c = ctx
        self._only = only          # optional predicate(instance key / floor text): borrow just one clause of a rule
        self._rename = {r: n for r, n in dict(rename).items()} if only is None else _Filtered(dict(rename), only)

    def __getattr__(self, name):
        return getattr(self._c, name)

    def facts(self, profile="dbg"):
        return self._c.facts(profile)

    def _k(self, key):
        if self._only is not None:
            self._rename.key = key or ""

    def ok(self, rule, instance, loc="", detail=""):
        self._k(instance)
        if rule in self._rename:
            self._c.ok(self._rename[rule], instance, loc, detail)

    def bad(self, rule, key, loc, detail, path=None, **extra):
        self._k(key)
        if rule in self._rename:
            self._c.bad(self._rename[rule], key, loc, detail, path, **extra)

    def check(self, cond, rule, key, loc, detail_bad, detail_ok="", path=None):
        self._k(key)
        if rule in self._rename:
            self._c.check(cond, self._rename[rule], key, loc, detail_bad, detail_ok, path)
        return cond

    def floor(self, rule, what, count, minimum):
        self._k(what)
        if rule in self._rename:
            return self._c.floor(self._rename[rule], what, count, minimum)
        return count >= minimum

    def note(self, s):
        pass


def load_known():
    p = os.path.join(VERIF, "known_findings.json")
    if not os.path.exists(p):
        return []
    with open(p) as f:
        return json.load(f)


def finish(ctx, explanation, trusted_base=None, extra_cov=None):
    known = [k for k in load_known() if k.get("status") == "known" and k.get("property") == ctx.prop]
    known_keys = {k["key"]: k for k in known}
    new = []
    printed = set()
    for v in ctx.violations:
        base_key = v["key"]
        for suf in ("@default", "@nodefault", "@alltargets"):
            if base_key.endswith(suf):
                base_key = base_key[:-len(suf)]
        k = known_keys.get(base_key)
        if k is not None:
            if base_key not in printed:
                print("KNOWN-FINDING: property=%s %s -- %s" % (ctx.prop, base_key, k.get("what", v["detail"])))
                printed.add(base_key)
        else:
            new.append(v)
    evdir = os.environ.get("MQ_EVIDENCE_DIR") or os.path.join(VERIF, "evidence")
    os.makedirs(os.path.join(evdir, "replay"), exist_ok=True)
    # stale replay files of this property
    rd = os.path.join(evdir, "replay")
    for f in os.listdir(rd):
        if f.startswith(ctx.prop + "-"):
            os.remove(os.path.join(rd, f))
    for n, v in enumerate(new):
        rp = os.path.join(rd, "%s-%d.json" % (ctx.prop, n))
        with open(rp, "w") as f:
            json.dump({"property": ctx.prop, **v}, f, indent=1)
        print("%s: %s\n    at %s\n    %s" % (v["rule"], v["key"], v["loc"], v["detail"]))
        if v.get("path"):
            print("    path: %s" % v["path"])
        print("VIOLATION property=%s replay=%s" % (ctx.prop, rp))
    holds = [i for i in ctx.instances if i["verdict"] == "holds"]
    rules = sorted({i["rule"] for i in ctx.instances})
    cov = {
        "explanation": explanation,
        "obligations": len(ctx.instances),
        "discharged": len(holds),
        "exhaustive": True,
        "rule": "every rule instance discovered in the fact base of /repo's current tree (all bodies of the workspace "
                "library crates, profiles %s); an instance is one (rule, anchor) pair" % ",".join(ctx.profiles),
        "rules": rules,
        "evaluations": len(ctx.instances),
        "distinct_nontrivial": len({(i["rule"], i["instance"]) for i in ctx.instances}),
        "samples": ctx.instances[:400],
        "notes": ctx.notes,
        "profiles": ctx.profiles,
        "known_findings_suppressed": sorted(printed),
        "trusted_base": trusted_base or ["rustc type checker, trait resolution and MIR construction",
                                         "API summaries in DESIGN.md appendix (std, crossbeam, tokio oneshot)"],
        "checker_cmd": "./check %s --tier %s" % (ctx.prop, ctx.tier),
    }
    fb = {}
    for prof, F in ctx._facts.items():
        try:
            lib = [b for b in F.bodies.values() if not b.crate.endswith("#test")]
            fb[prof] = {"crates": sorted({b.crate for b in lib}), "bodies": len(lib),
                        "call_sites": sum(len(b.calls()) for b in lib), "adts": len(F.adts), "impls": len(F.impls),
                        "fact_dir": F.dir}
        except Exception:
            pass
    cov["fact_base"] = fb
    cov["functions_with_instances"] = sorted({i["instance"].split("#")[0] for i in ctx.instances})[:80]
    if extra_cov:
        cov.update(extra_cov)
    ev = {
        "property_id": ctx.prop,
        "tier": ctx.tier,
        "seed": ctx.seed,
        "level": "other",
        "coverage": cov,
        "assumptions": ctx.assumptions,
        "wall_s": round(time.time() - ctx.t0, 2),
        "violations": len(new),
    }
    with open(os.path.join(evdir, "%s.json" % ctx.prop), "w") as f:
        json.dump(ev, f, indent=1)
    print("%s: %d rule instances, %d hold, %d new violation(s), %d known finding(s) [%s tier, %.1fs]" % (
        ctx.prop, len(ctx.instances), len(holds), len(new), len(printed), ctx.tier, time.time() - ctx.t0))
    return 1 if new else 0

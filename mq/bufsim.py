"""G5 instance: separator / member typestate of JSON text buffers (R02.2, R03.3, parts of R08.2).

Per tracked buffer the automaton state is one of
    open   - just cleared / just opened a list or object / empty relative to its prefix
    elem   - ends in a complete element
    sep    - ends in a dangling ','
    colon  - ends in a dangling ':'  (a member name without value)
Errors: closing, exiting or splicing while in sep/colon; ',' after open/sep/colon; an element right after an element.
Workspace callees that take tracked buffers are summarised by simulating them for the given entry states, per returned
enum variant (depth-bounded); unknown effects are reported, never assumed benign."""
from .sim import Sim, pkey, Budget
from .prov import op_place, op_const, op_local
from .util import local_callee_bodies, closure_for_operand
from .facts import CallSite

DIRTY = ("sep", "colon")
BUF_TYPES = ("metrique_writer_format_emf::buf::PrefixedStringBuf", "alloc::string::String")


def lit_events(s):
    """events of appending a string literal: (first_kind, last_state)"""
    if not s:
        return (None, None)
    first = "close" if s[0] in "]}" else None
    last = s[-1]
    if last in "[{":
        st = "open"
    elif last == ",":
        st = "sep"
    elif last == ":":
        st = "colon"
    else:
        st = "elem"
    return (first, st)


def char_event(cp):
    ch = chr(cp)
    if ch == ",":
        return (None, "sep")
    if ch == ":":
        return (None, "colon")
    if ch in "]}":
        return ("close", "elem")
    if ch in "[{":
        return (None, "open")
    return (None, "elem")


class BufSim(Sim):
    MAX_STATES = 200000

    def __init__(self, F, body, crate, depth=0, cache=None, axioms=None):
        super().__init__(body)
        self.F, self.crate, self.depth = F, crate, depth
        self.cache = cache if cache is not None else {}
        self.errors = []      # (kind, bb, bufid, path)
        self.unknown = []
        self.exits = []       # (variant, {bufid: state})
        self._root_memo = {}
        self.axioms = axioms or {}

    # ---------------------------------------------------------------- buffer identity
    def root(self, op):
        """resolve a (reference) operand to the buffer it designates: ('arg', i, fields) | ('local', l, fields) | None"""
        p = op_place(op)
        if p is None:
            return None
        return self._root_place(p["l"], tuple(e[2] for e in p.get("p", []) if e[0] == "f"), 0)

    def _root_place(self, l, fields, n):
        key = (l, fields)
        if key in self._root_memo:
            return self._root_memo[key]
        b = self.b
        res = None
        if n > 12:
            res = ("local", l, fields)
        elif 1 <= l <= b.arg_count:
            res = ("arg", l, fields)
        else:
            defs = [d for d in b.defs().get(l, []) if not b.is_cleanup(d[1]) and not (d[0] == "assign" and d[3]["k"] == "assign" and d[3]["lhs"].get("p"))]
            if len(defs) == 1:
                kind, bb, idx, node = defs[0]
                if kind == "assign" and node["k"] == "assign":
                    rv = node["rv"]
                    if rv["k"] in ("ref", "rawptr"):
                        pl = rv["place"]
                        f2 = tuple(e[2] for e in pl.get("p", []) if e[0] == "f")
                        res = self._root_place(pl["l"], f2 + fields, n + 1)
                    elif rv["k"] in ("use", "cast"):
                        q = op_place(rv["op"])
                        if q is not None:
                            f2 = tuple(e[2] for e in q.get("p", []) if e[0] == "f")
                            res = self._root_place(q["l"], f2 + fields, n + 1)
                elif kind == "call":
                    c = node.get("callee", {})
                    if self._is_chain(node) and node["args"]:
                        q = op_place(node["args"][0])
                        if q is not None:
                            f2 = tuple(e[2] for e in q.get("p", []) if e[0] == "f")
                            res = self._root_place(q["l"], f2 + fields, n + 1)
                    elif c.get("name") in ("deref", "deref_mut", "as_mut", "as_ref", "borrow_mut", "unwrap", "expect") and node["args"]:
                        q = op_place(node["args"][0])
                        if q is not None:
                            f2 = tuple(e[2] for e in q.get("p", []) if e[0] == "f")
                            res = self._root_place(q["l"], f2 + fields, n + 1)
            if res is None:
                res = ("local", l, fields)
        self._root_memo[key] = res
        return res

    def _is_chain(self, term):
        """builder-style method returning its receiver (&mut Self)"""
        c = term.get("callee", {})
        nm = c.get("name")
        return nm in ("push", "push_raw_str", "push_integer", "json_string", "push_json_safe_string", "push_json_safe_array",
                      "push_json_safe_log_group_and_timestamp", "extend_from_within_range") and (
            "PrefixedStringBuf" in (c.get("def", "") + c.get("self_ty", "") + c.get("resolved", "")) or "JsonString" in c.get("def", "") or "PushJsonSafeString" in c.get("def", ""))

    def is_buf_operand(self, op):
        l = None
        p = op_place(op)
        if p is None:
            return False
        if p.get("p"):
            # type of the projected place: look at last field type
            fe = [e for e in p["p"] if e[0] == "f"]
            if fe:
                return any(fe[-1][4].endswith(t) or fe[-1][4] == t for t in BUF_TYPES)
        h = self.b.locals[p["l"]].get("head", {})
        return h.get("adt") in BUF_TYPES

    # ---------------------------------------------------------------- automaton helpers
    @staticmethod
    def get(a, bufid):
        for k, v in a[0]:
            if k == bufid:
                return v
        return None

    @staticmethod
    def put(a, bufid, st):
        d = dict(a[0])
        d[bufid] = st
        return (frozenset(d.items()), a[1])

    def st(self, a, bufid):
        v = self.get(a, bufid)
        return v

    def err(self, kind, bb, bufid, detail=""):
        self.errors.append({"kind": kind, "bb": bb, "buf": bufid, "detail": detail, "path": self.path_to()})

    def element(self, a, bufid, bb, what="element"):
        s = self.get(a, bufid)
        if s == "elem":
            self.err("missing-separator", bb, bufid, "%s appended directly after a complete element" % what)
        return self.put(a, bufid, "elem")

    def separator(self, a, bufid, bb):
        s = self.get(a, bufid)
        # 'e0' = assumed possibly-empty on entry: a leading ',' is legitimate for buffers whose constant prefix ends an element
        if s in ("open", "empty", "sep", "colon"):
            self.err("separator-after-" + s, bb, bufid, "',' appended while the buffer is %s" % (
                {"open": "at the start of a list/object", "empty": "known to be empty", "sep": "already ending in ','", "colon": "ending in ':'"}[s]))
        return self.put(a, bufid, "sep")

    def colon(self, a, bufid, bb):
        s = self.get(a, bufid)
        if s in ("open", "empty", "sep", "colon"):
            self.err("colon-after-" + s, bb, bufid, "':' appended without a member name")
        return self.put(a, bufid, "colon")

    def close(self, a, bufid, bb, what):
        s = self.get(a, bufid)
        if s in DIRTY:
            self.err("close-after-" + s, bb, bufid, "%s closes a list/object while the buffer ends in a dangling %s" % (
                what, "','" if s == "sep" else "':'"))
        return self.put(a, bufid, "elem")

    # ---------------------------------------------------------------- hooks
    def on_stmt(self, bb, idx, s, a, env):
        if s["k"] == "assign" and not s["lhs"].get("p") and s["rv"]["k"] == "use":
            src = op_local(s["rv"]["op"])
            if src is not None:
                snaps = dict(a[1])
                if src in snaps:
                    snaps[s["lhs"]["l"]] = snaps[src]
                    a = (a[0], frozenset(snaps.items()))
        return a

    def on_call(self, t, bb, a, env):
        c = t.get("callee") or {}
        nm = c.get("name")
        d = c.get("def", "")
        args = t.get("args", [])
        if not args:
            return None
        recv_is_buf = self.is_buf_operand(args[0]) or self._recv_ty_is_buf(args[0])
        bid = self.root(args[0]) if recv_is_buf else None
        onbuf = "PrefixedStringBuf" in d or "PrefixedStringBuf" in (c.get("resolved") or "") or "PrefixedStringBuf" in (c.get("self_ty") or "") \
            or d.startswith("alloc::string::String::") or (c.get("self_ty") == "alloc::string::String")
        if bid is not None and onbuf and self.get(a, bid) is None:
            # first sight of a buffer: by invariant I it is clean on entry (just opened, or ending in a complete element);
            # a String created in this body starts empty
            starts = ["empty"] if self._fresh_local(bid) else ["e0", "elem"]
            forks = []
            for st0 in starts:
                r = self.on_call(t, bb, self.put(a, bid, st0), env)
                forks += r if r is not None else [(self.put(a, bid, st0), {})]
            return forks
        if bid is not None and onbuf:
            if nm == "push" and len(args) > 1:
                k = op_const(args[1])
                if k is not None and "int" in k:
                    first, st = char_event(k["int"])
                    if first == "close":
                        return [(self.close(a, bid, bb, "push(%r)" % chr(k["int"])), {})]
                    if st == "sep":
                        return [(self.separator(a, bid, bb), {})]
                    if st == "colon":
                        return [(self.colon(a, bid, bb), {})]
                    if st == "open":
                        return [(self.put(a, bid, "open"), {})]
                    return [(self.element(a, bid, bb, "character"), {})]
                return [(self.put(a, bid, "elem"), {})]
            if nm in ("push_raw_str", "push_str") and len(args) > 1:
                k = self._const_str(args[1])
                if k is not None:
                    first, st = lit_events(k)
                    if first == "close":
                        a = self.close(a, bid, bb, "literal %r" % k)
                    elif self.get(a, bid) == "elem" and k and k[0] not in ",:]}":
                        self.err("missing-separator", bb, bid, "literal %r appended directly after a complete element" % k)
                    return [(self.put(a, bid, st), {})]
                other = self._spliced_buffer(args[1])
                if other is not None:
                    so = self.get(a, other)
                    if so in DIRTY:
                        self.err("splice-of-dirty-buffer", bb, other, "a buffer is spliced into another while it ends in a dangling %s" % ("','" if so == "sep" else "':'"))
                    if other[0] != "local" or other[2] or self._is_prefixed(other):
                        # a PrefixedStringBuf is spliced whole, prefix first; the repo's prefixes for spliced buffers start by
                        # closing the current list (`],"Counts":[`): the receiving buffer must not end in a dangling separator
                        a = self.close(a, bid, bb, "splice of buffer %s" % (other,))
                    return [(self.put(a, bid, "elem"), {})]
                return [(self.put(a, bid, "elem"), {})]
            if nm in ("push_integer", "json_string"):
                return [(self.element(a, bid, bb, nm), {})]
            if nm in ("push_json_safe_string", "push_json_safe_array"):
                return [(self.element(a, bid, bb, nm), {})]
            if nm == "push_json_safe_log_group_and_timestamp":
                return [(self.close(a, bid, bb, nm), {})]
            if nm == "extend_from_within_range":
                return [(self.put(a, bid, "elem"), {})]
            if nm == "clear":
                return [(self.put(a, bid, "empty"), {})]
            if nm == "is_empty":
                s = self.get(a, bid)
                if s in ("e0", "empty"):
                    return [(self.put(a, bid, "empty"), {"dest": ("b", True)})]
                if s in ("elem", "sep", "colon", "open"):
                    return [(a, {"dest": ("b", False)})]
                return None
            if nm == "len" and d.startswith("alloc::string::String::"):
                # axiom (the only one of this rule): an encoded JSON array has length 2 iff it is `[]`
                return [(self.put(a, bid, "arr-empty"), {"dest": ("i", 2)}), (self.put(a, bid, "arr-nonempty"), {"dest": ("i", 3)})]
            if nm in ("as_str", "as_ref", "len", "capacity", "with_capacity", "as_bytes"):
                return None
            if nm == "truncate" and len(args) > 1:
                l = op_local(args[1])
                snaps = dict(a[1])
                if l in snaps and snaps[l][0] == bid:
                    return [(self.put(a, bid, snaps[l][1]), {})]
                self.unknown.append(("truncate to a length that is not a recorded snapshot", bb, bid))
                return [(self.put(a, bid, "elem"), {})]
            if nm == "pop":
                # String::pop removes the trailing character: the only use is removing the closing ']' of an encoded array
                s0 = self.get(a, bid)
                return [(self.put(a, bid, "open" if s0 == "arr-empty" else "elem"), {})]
            return None
        # len() of as_str(buf): snapshot
        if d in ("core::str::<impl str>::len",) and args:
            src = self._as_str_source(args[0])
            if src is not None:
                snaps = dict(a[1])
                snaps[t["dest"]["l"]] = (src, self.get(a, src))
                return [((a[0], frozenset(snaps.items())), {})]
            return None
        lc = self._loop_closure(t, bb, a)
        if lc is not None:
            return lc
        # element writers implemented in the crate (write_float etc.) and other workspace callees taking tracked buffers
        subs = [sb for sb in local_callee_bodies(self.F, CallSite(self.b, bb, t)) if sb.crate == self.crate]
        bufargs = [(i, self.root(x)) for i, x in enumerate(args) if self._recv_ty_is_buf(x) or self.is_buf_operand(x)]
        bufargs = [(i, r) for i, r in bufargs if r is not None]
        if subs and bufargs:
            if self.depth >= 6:
                self.unknown.append(("callee not summarised (depth)", bb, subs[0].path))
                return None
            forks = []
            entry = tuple((i, self.get(a, r) or "elem") for i, r in bufargs)
            for sb in subs:
                summ = summarise(self.F, sb, self.crate, entry, self.depth + 1, self.cache)
                if summ is None:
                    self.unknown.append(("callee effect unknown", bb, sb.path))
                    continue
                for variant, finals, nerr in summ:
                    a2 = a
                    for (i, r), (j, stt) in zip(bufargs, finals):
                        a2 = self.put(a2, r, stt)
                    forks.append((a2, {"dest": ("v", variant)} if variant else {}))
                for e in self.cache.get(("errors", sb.def_, entry), []):
                    e2 = dict(e)
                    e2["via"] = [(self.b.path, bb)] + e.get("via", [])
                    e2["caller_path"] = self.path_to()
                    self.errors.append(e2)
            return forks or None
        return None

    # ---------------------------------------------------------------- loops written as `iter.for_each(|x| ...)`
    def _loop_closure(self, t, bb, a):
        """`iter.for_each(closure)` where the closure appends to tracked buffers: the closure is the body of a loop, not a unit of its own
        (it need not leave the buffers clean after every call), so it is simulated here, zero or more times, starting from the caller's
        buffer states; when the iterator is `enumerate()` the first call sees position 0 and every later call a non-zero position."""
        lc = loop_closure_call(self.F, self.b, t, self.crate)
        if lc is None:
            return None
        cl, caps, enumerated = lc
        # captured references, by name -> the caller's root they designate
        names = [n for n, _ in caps]
        cmap = {}
        for n, op in caps:
            r = self.root(op)
            if r is not None and names.count(n) == 1:
                cmap[n] = r
            elif r is not None and (self._recv_ty_is_buf(op) or self.is_buf_operand(op)):
                if [1 for n2, o2 in caps if n2 == n and (self._recv_ty_is_buf(o2) or self.is_buf_operand(o2))] == [1]:
                    cmap[n] = r
                else:
                    self.unknown.append(("two captured buffers share one name", bb, cl.path))
                    return None

        def to_closure(state):
            out = {}
            for bid, st in state:
                for n, r in cmap.items():
                    if bid[0] == r[0] and bid[1] == r[1] and bid[2][:len(r[2])] == r[2]:
                        out[("arg", 1, (n,) + bid[2][len(r[2]):])] = st
            return frozenset(out.items())

        def to_caller(a0, finals):
            a2 = a0
            for cb, st in finals.items():
                if cb[0] == "arg" and cb[1] == 1 and cb[2] and cb[2][0] in cmap:
                    r = cmap[cb[2][0]]
                    a2 = self.put(a2, (r[0], r[1], r[2] + cb[2][1:]), st)
            return a2

        if self.depth >= 6:
            self.unknown.append(("loop closure not simulated (depth)", bb, cl.path))
            return None
        pos_key = None
        if enumerated and cl.arg_count >= 2:
            pos_key = "2.0"
        results = {a}
        seen_entries = set()
        work = [(a, True)]
        while work:
            ac, first = work.pop()
            ek = (to_closure(ac[0]), first if pos_key else None)
            if ek in seen_entries:
                continue
            seen_entries.add(ek)
            sub = BufSim(self.F, cl, self.crate, self.depth + 1, self.cache)
            env0 = {pos_key: ("i", 0) if first else ("nz",)} if pos_key else {}
            sub.run(0, (ek[0], frozenset()), env0)      # Budget propagates
            for u in sub.unknown:
                self.unknown.append(u)
            for e in sub.errors:
                e2 = dict(e)
                if "fn" not in e2:
                    e2["fn"], e2["file"], e2["line"] = cl.path, cl.file, cl.term(e["bb"]).get("line")
                e2["via"] = [(self.b.path, bb)] + e.get("via", [])
                e2["caller_path"] = self.path_to()
                if not any(x.get("fn") == e2["fn"] and x["kind"] == e2["kind"] and x["buf"] == e2["buf"] and x["bb"] == e2["bb"] for x in self.errors):
                    self.errors.append(e2)
            for variant, finals, path in sub.exits:
                an = to_caller(ac, finals)
                if an not in results:
                    results.add(an)
                work.append((an, False))
        return [(r, {}) for r in sorted(results, key=str)]

    def _is_prefixed(self, bid):
        if bid[0] == "local" and not bid[2]:
            return "PrefixedStringBuf" in self.b.locals[bid[1]]["ty"]
        return True

    def _fresh_local(self, bid):
        if bid[0] != "local" or bid[2]:
            return False
        for kind, bb, idx, node in self.b.defs().get(bid[1], []):
            if kind == "call" and (node.get("callee") or {}).get("name") in ("with_capacity", "new") and "String" in (node.get("callee") or {}).get("def", ""):
                return True
        return False

    def _recv_ty_is_buf(self, op):
        p = op_place(op)
        if p is None:
            return False
        ty = self.b.locals[p["l"]]["ty"] if not p.get("p") else None
        if ty is None:
            return False
        t = ty.replace("&mut ", "").replace("&", "").strip()
        t = t.split(" ")[-1] if t.startswith("'") else t
        return any(t.endswith(x) for x in BUF_TYPES)

    def _const_str(self, op):
        c = op_const(op)
        if c is not None and "str" in c:
            return c["str"]
        l = op_local(op)
        for _ in range(4):
            if l is None:
                return None
            defs = [d for d in self.b.defs().get(l, []) if not self.b.is_cleanup(d[1])]
            if len(defs) != 1 or defs[0][0] != "assign":
                return None
            rv = defs[0][3]["rv"]
            if rv["k"] == "use":
                c = op_const(rv["op"])
                if c is not None:
                    return c.get("str")
                l = op_local(rv["op"])
            elif rv["k"] == "ref":
                pl = rv["place"]
                if [e[0] for e in pl.get("p", [])] in ([], ["deref"]):
                    l = pl["l"]
                else:
                    return None
            else:
                return None
        return None

    def _as_str_source(self, op):
        """buffer whose as_str()/as_ref() result the operand is"""
        l = op_local(op)
        for _ in range(5):
            if l is None:
                return None
            defs = [d for d in self.b.defs().get(l, []) if not self.b.is_cleanup(d[1])]
            if len(defs) != 1:
                return None
            kind, bb, idx, node = defs[0]
            if kind == "call":
                c = node.get("callee", {})
                if c.get("name") in ("as_str", "as_ref", "deref") and node["args"] and (self.is_buf_operand(node["args"][0]) or self._recv_ty_is_buf(node["args"][0])):
                    return self.root(node["args"][0])
                return None
            rv = node["rv"]
            if rv["k"] == "ref" and [e[0] for e in rv["place"].get("p", [])] in ([], ["deref"]):
                l = rv["place"]["l"]
            elif rv["k"] == "use":
                l = op_local(rv["op"])
            else:
                return None
        return None

    def _spliced_buffer(self, op):
        return self._as_str_source(op)

    def on_return(self, bb, a, env):
        v = env.get("0")
        variant = v[1] if isinstance(v, tuple) and v[0] == "v" else None
        self.exits.append((variant, dict(a[0]), self.path_to()))


def loop_closure_call(F, body, t, crate):
    """(closure body, [(capture name, operand)], iterator is `enumerate()`) when call terminator `t` is `Iterator::for_each(iter, closure)`
    with a closure of this crate that captures something by reference"""
    c = t.get("callee") or {}
    if c.get("name") != "for_each" or "Iterator" not in (c.get("def") or "") or len(t.get("args", [])) < 2:
        return None
    args = t["args"]
    cl = closure_for_operand(F, body, args[1])
    if cl is None or cl.crate != crate:
        return None
    l = op_local(args[1])
    caps = None
    for kind, dbb, idx, node in body.defs().get(l, []):
        if kind == "assign" and node["k"] == "assign" and node["rv"]["k"] == "agg" and node["rv"].get("closure"):
            caps = list(zip(node["rv"].get("fields", []), node["rv"]["ops"]))
    if caps is None:
        return None
    il = op_local(args[0])
    enumerated = False
    for kind, dbb, idx, node in body.defs().get(il, []) if il is not None else []:
        if kind == "call" and (node.get("callee") or {}).get("name") == "enumerate" and "Iterator" in ((node.get("callee") or {}).get("def") or ""):
            enumerated = True
    return cl, caps, enumerated


def loop_closures(F, body, crate):
    """closure bodies that `body` runs as loop bodies through `for_each`"""
    out = []
    for i in body.live_blocks():
        t = body.term(i)
        if t["k"] == "call":
            lc = loop_closure_call(F, body, t, crate)
            if lc is not None:
                out.append(lc[0])
    return out


def tracked_params(body):
    out = []
    for i in range(1, body.arg_count + 1):
        ty = body.locals[i]["ty"].replace("&mut ", "").replace("&", "").strip()
        if any(ty.endswith(x) for x in BUF_TYPES) and body.locals[i]["ty"].startswith("&"):
            out.append(i)
    return out


def summarise(F, body, crate, entry, depth, cache):
    """entry: tuple of (arg index (0-based), state).  returns sorted list of (variant, finals tuple[(argidx, state)], n_errors) or None"""
    key = (body.def_, entry)
    if key in cache:
        return cache[key]
    cache[key] = None
    sim = BufSim(F, body, crate, depth, cache)
    a0 = (frozenset((("arg", i + 1, ()), st) for i, st in entry), frozenset())
    try:
        sim.run(0, a0, {})
    except Budget:
        return None
    if sim.unknown:
        cache[key] = None
        return None
    out = set()
    for variant, finals, path in sim.exits:
        fin = tuple((i, finals.get(("arg", i + 1, ()), st)) for i, st in entry)
        out.add((variant, fin, len(sim.errors)))
    res = sorted(out, key=str)
    cache[key] = res
    errs = []
    for e in sim.errors:
        e2 = dict(e)
        if "fn" not in e2:
            e2["fn"] = body.path
            e2["file"] = body.file
            e2["line"] = body.term(e["bb"]).get("line")
        errs.append(e2)
    cache[("errors", body.def_, entry)] = errs
    return res

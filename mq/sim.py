"""G5: path-sensitive typestate simulation over the normal-path CFG.

State = (block, automaton state, valuation).  The valuation tracks, per place key, a constant
bool/int, an enum variant name, or a reference target, which is enough to prune the infeasible paths
produced by drop flags, `Option`/`Result` matching, `?`, and `first`/`wrote`-style boolean flags.
Nothing is executed: this is a worklist fixpoint over a finite abstract domain."""
from .prov import op_place, op_const, op_local, has_deref


class Budget(Exception):
    pass


def pkey(place):
    s = str(place["l"])
    for e in place.get("p", []):
        if e[0] == "deref":
            s += "*"
        elif e[0] == "f":
            s += "." + e[2]
        elif e[0] == "dc":
            s += "@" + e[2]
        else:
            s += "[?]"
    return s


def _is_prefix_key(k, base):
    return k == base or (k.startswith(base) and k[len(base)] in ".@*[")


OK_LIKE = {"Ok": "Continue", "Some": "Continue", "Err": "Break", "None": "Break"}


class Sim:
    MAX_STATES = 400000

    def __init__(self, body):
        self.b = body
        self.violations = []
        self.parent = {}
        self.nstates = 0
        self.returns = []   # (bb, astate, env) at Return
        self.diverged = []

    # ---- hooks (override) -------------------------------------------------------------
    def on_stmt(self, bb, idx, s, a, env):
        return a

    def on_call(self, cs_term, bb, a, env):
        """return None (default handling) or a list of (astate', {key: value}) forks.
        key 'dest' addresses the call destination local."""
        return None

    def on_drop(self, bb, term, a, env):
        return a

    def on_return(self, bb, a, env):
        pass

    def on_edge(self, src, dst, a, env):
        return a

    # ---- env helpers ------------------------------------------------------------------
    @staticmethod
    def inval(env, base):
        dead = [k for k in env if _is_prefix_key(k, base)]
        for k in dead:
            del env[k]
        dead = [k for k, v in env.items() if isinstance(v, tuple) and len(v) > 1 and v[0] in ("mref", "sref", "dof") and _is_prefix_key(v[1], base)]
        for k in dead:
            del env[k]

    def val_of_operand(self, op, env):
        c = op_const(op)
        if c is not None:
            if "bool" in c:
                return ("b", c["bool"])
            if "int" in c:
                return ("i", c["int"])
            return None
        p = op_place(op)
        if p is None:
            return None
        return env.get(pkey(p))

    def deref_target(self, op_or_local, env):
        """place key the reference operand points to, if known"""
        if isinstance(op_or_local, dict):
            p = op_place(op_or_local)
            if p is None:
                return None
            v = env.get(pkey(p))
        else:
            v = env.get(str(op_or_local))
        if isinstance(v, tuple) and v[0] in ("mref", "sref"):
            return v[1]
        return None

    def _assign(self, s, env):
        lhs, rv = s["lhs"], s["rv"]
        proj = lhs.get("p", [])
        if proj:
            if has_deref(lhs):
                base = env.get(str(lhs["l"]))
                if isinstance(base, tuple) and base[0] in ("mref", "sref") and proj[0][0] == "deref":
                    # write through a tracked reference: invalidate (or set) the target
                    tgt = base[1]
                    sub = pkey({"l": 0, "p": proj[1:]})[1:]
                    self.inval(env, tgt + sub)
                    if not sub:
                        v = self._rvalue_val(rv, env)
                        if v is not None and v[0] in ("b", "i", "v"):
                            env[tgt] = v
                    elif tgt in env and env[tgt][0] != "v":
                        del env[tgt]
                return
            k = pkey(lhs)
            # a write into a field of a variant does not change the variant
            self.inval(env, k)
            v = self._rvalue_val(rv, env)
            if v is not None:
                env[k] = v
            return
        k = str(lhs["l"])
        v = self._rvalue_val(rv, env)
        sub = {}
        if rv["k"] == "use":
            # moving / copying a compound value carries what is known about its parts
            sp = op_place(rv["op"])
            if sp is not None:
                sk = pkey(sp)
                sub = {k + kk[len(sk):]: vv for kk, vv in env.items() if kk != sk and _is_prefix_key(kk, sk)}
        self.inval(env, k)
        if v is not None:
            env[k] = v
        env.update(sub)

    def _rvalue_val(self, rv, env):
        k = rv["k"]
        if k == "use":
            return self.val_of_operand(rv["op"], env)
        if k == "cast":
            v = self.val_of_operand(rv["op"], env)
            if v is not None and v[0] in ("i", "b", "mref", "sref"):
                return v
            return None
        if k == "ref":
            pl = rv["place"]
            pr = pl.get("p", [])
            if pr and pr[0][0] == "deref":
                base = env.get(str(pl["l"]))
                if isinstance(base, tuple) and base[0] in ("mref", "sref"):
                    sub = pkey({"l": 0, "p": pr[1:]})[1:]
                    return ("mref" if rv.get("mut") else "sref", base[1] + sub)
                return None
            return ("mref" if rv.get("mut") else "sref", pkey(pl))
        if k == "discr":
            pk = pkey(rv["place"])
            v = env.get(pk)
            variants = tuple((x[0], x[1]) for x in rv.get("variants", []))
            if isinstance(v, tuple) and v[0] == "v":
                for d, n in variants:
                    if n == v[1]:
                        return ("i", d)
            return ("dof", pk, variants)
        if k == "unop" and rv["op"] == "Not":
            v = self.val_of_operand(rv["a"], env)
            if v is not None and v[0] == "b":
                return ("b", not v[1])
            return None
        if k == "binop":
            a = self.val_of_operand(rv["a"], env)
            b = self.val_of_operand(rv["b"], env)
            # ("nz",) = an unsigned integer known to be non-zero (the position handed to a loop closure after its first call)
            if a is not None and b is not None and ("nz",) in (a, b):
                o = b if a == ("nz",) else a
                if o == ("i", 0):
                    if rv["op"] in ("Eq", "Ne"):
                        return ("b", rv["op"] == "Ne")
                    if (rv["op"], a) in (("Gt", ("nz",)), ("Lt", ("i", 0))):
                        return ("b", True)
                    if (rv["op"], a) in (("Le", ("nz",)), ("Ge", ("i", 0))):
                        return ("b", False)
                return None
            if a is not None and b is not None and a[0] in ("i", "b") and b[0] in ("i", "b"):
                op = rv["op"]
                x, y = a[1], b[1]
                try:
                    if op == "Eq":
                        return ("b", x == y)
                    if op == "Ne":
                        return ("b", x != y)
                    if op == "Lt":
                        return ("b", x < y)
                    if op == "Le":
                        return ("b", x <= y)
                    if op == "Gt":
                        return ("b", x > y)
                    if op == "Ge":
                        return ("b", x >= y)
                    if op == "BitAnd" and a[0] == "b":
                        return ("b", x and y)
                    if op == "BitOr" and a[0] == "b":
                        return ("b", x or y)
                except TypeError:
                    return None
            return None
        if k == "agg":
            if rv.get("agg") == "adt" and rv.get("variant") and rv.get("adt") in (
                    "core::option::Option", "core::result::Result", "core::ops::ControlFlow"):
                return ("v", rv["variant"])
            if rv.get("agg") == "adt" and rv.get("variant"):
                return ("v", rv["variant"])
            return None
        return None

    # builtin call models ---------------------------------------------------------------
    def _builtin_call(self, t, env):
        c = t.get("callee") or {}
        d = c.get("def", "")
        args = t.get("args", [])
        upd = {}
        if d in ("core::option::Option::<T>::is_some", "core::option::Option::<T>::is_none",
                 "core::result::Result::<T, E>::is_ok", "core::result::Result::<T, E>::is_err") and args:
            tgt = self.deref_target(args[0], env)
            v = env.get(tgt) if tgt else None
            if isinstance(v, tuple) and v[0] == "v":
                pos = v[1] in ("Some", "Ok")
                want = d.endswith("is_some") or d.endswith("is_ok")
                upd["dest"] = ("b", pos == want)
            return upd, set()
        if d in ("core::option::Option::<T>::unwrap", "core::option::Option::<T>::expect", "core::result::Result::<T, E>::unwrap",
                 "core::result::Result::<T, E>::expect") and args:
            v = self.val_of_operand(args[0], env)
            if isinstance(v, tuple) and v[0] == "v" and v[1] in ("None", "Err"):
                return "DIVERGE", set()
            return upd, set()
        if d == "core::ops::Try::branch" and args:
            v = self.val_of_operand(args[0], env)
            if isinstance(v, tuple) and v[0] == "v" and v[1] in OK_LIKE:
                upd["dest"] = ("v", OK_LIKE[v[1]])
            return upd, set()
        if d.endswith("FromResidual::from_residual"):
            # `expr?` on the failure side: the function's own result is rebuilt from the residual, i.e. it is the failure variant
            dty = self.b.local_ty(t["dest"]["l"]) if t.get("dest") and not t["dest"].get("p") else ""
            if dty.startswith("core::result::Result<"):
                upd["dest"] = ("v", "Err")
            elif dty.startswith("core::option::Option<"):
                upd["dest"] = ("v", "None")
            return upd, set()
        # `iter.enumerate()`: the first item carries position 0, every later one a non-zero position
        if d.endswith("Iterator::enumerate") and args:
            upd["dest"] = ("enum", 0)
            return upd, set()
        if d.endswith("IntoIterator::into_iter") and args:
            v = self.val_of_operand(args[0], env)
            if isinstance(v, tuple) and v[0] == "enum":
                upd["dest"] = v
                return upd, set()
        if d.endswith("Iterator::next") and args and "Enumerate<" in (c.get("self_ty") or ""):
            tgt = self.deref_target(args[0], env)
            v = env.get(tgt) if tgt else None
            if isinstance(v, tuple) and v[0] == "enum" and t.get("dest") is not None:
                upd[pkey(t["dest"]) + "@Some.0.0"] = ("i", 0) if v[1] == 0 else ("nz",)
                upd[tgt] = ("enum", 1)
                return upd, {tgt}
            return upd, set()
        if d == "core::mem::replace" and len(args) == 2:
            tgt = self.deref_target(args[0], env)
            if tgt:
                old = env.get(tgt)
                new = self.val_of_operand(args[1], env)
                if old is not None and old[0] in ("b", "i", "v"):
                    upd["dest"] = old
                upd[tgt] = new if (new is not None and new[0] in ("b", "i", "v")) else ("?",)
                return upd, {tgt}
            return upd, set()
        if d in ("core::option::Option::<T>::take", "core::mem::take") and args:
            tgt = self.deref_target(args[0], env)
            if tgt:
                old = env.get(tgt)
                if old is not None and old[0] in ("b", "v"):
                    upd["dest"] = old
                if d.endswith("Option::<T>::take"):
                    upd[tgt] = ("v", "None")
                    return upd, {tgt}
                if old is not None and old[0] == "b":
                    upd[tgt] = ("b", False)
                    return upd, {tgt}
            return upd, set()
        return None, set()

    # ---- main loop ----------------------------------------------------------------------
    def run(self, start_bb=0, astate=None, env=None):
        b = self.b
        init = (start_bb, astate, frozenset((env or {}).items()))
        work = [init]
        seen = {init}
        self.parent[init] = None
        while work:
            st = work.pop()
            bb, a, envf = st
            self.nstates += 1
            if self.nstates > self.MAX_STATES:
                raise Budget("state budget exceeded in %s" % b.def_)
            env = dict(envf)
            self.cur = st
            for idx, s in enumerate(b.stmts(bb)):
                k = s["k"]
                if k == "assign":
                    a = self.on_stmt(bb, idx, s, a, env)
                    self._assign(s, env)
                elif k == "setdiscr":
                    a = self.on_stmt(bb, idx, s, a, env)
                    env[pkey(s["lhs"])] = ("v", s["variant"])
                elif k == "dead":
                    self.inval(env, str(s["l"]))
            t = b.term(bb)
            k = t["k"]
            outs = []  # (succ, a, env)
            if k == "goto":
                outs.append((t["target"], a, env))
            elif k == "assert":
                outs.append((t["target"], a, env))
            elif k == "drop":
                a2 = self.on_drop(bb, t, a, env)
                outs.append((t["target"], a2, env))
            elif k == "yield":
                outs.append((t["target"], a, env))
            elif k == "return":
                self.returns.append((bb, a, dict(env)))
                self.on_return(bb, a, env)
            elif k == "call":
                forks = self.on_call(t, bb, a, env)
                model_upd, kept = (None, set())
                if forks is None:
                    model_upd, kept = self._builtin_call(t, env)
                    if model_upd == "DIVERGE":
                        self.diverged.append((bb, a))
                        continue
                    forks = [(a, model_upd or {})]
                # invalidate everything reachable through &mut arguments, unless a model set it
                muts = []
                for arg in t.get("args", []):
                    p = op_place(arg)
                    if p is None:
                        continue
                    v = env.get(pkey(p))
                    if isinstance(v, tuple) and v[0] == "mref":
                        muts.append(v[1])
                if t.get("target") is None:
                    self.diverged.append((bb, a))
                else:
                    for a2, upd in forks:
                        e2 = dict(env)
                        for m in muts:
                            if m not in upd:
                                self.inval(e2, m)
                        dest = t["dest"]
                        dk = pkey(dest)
                        self.inval(e2, dk)
                        for key, val in upd.items():
                            kk = dk if key == "dest" else key
                            if val is None or val == ("?",):
                                self.inval(e2, kk)
                            else:
                                self.inval(e2, kk)
                                e2[kk] = val
                        outs.append((t["target"], a2, e2))
            elif k == "switch":
                dv = self.val_of_operand(t["discr"], env)
                p = op_place(t["discr"])
                dk = pkey(p) if p is not None else None
                is_bool = t.get("ty") == "bool"
                targets = [(x[0], x[1]) for x in t["targets"]]
                if dv is not None and dv[0] in ("i", "b"):
                    val = int(dv[1]) if dv[0] == "b" else dv[1]
                    dst = None
                    for v, tb in targets:
                        if v == val:
                            dst = tb
                    if dst is None:
                        dst = t["otherwise"]
                    outs.append((dst, a, env))
                else:
                    dof = dv if (isinstance(dv, tuple) and dv[0] == "dof") else None
                    explicit = set()
                    for v, tb in targets:
                        e2 = dict(env)
                        explicit.add(v)
                        if dk is not None:
                            if is_bool:
                                e2[dk] = ("b", bool(v))
                            elif dof:
                                for d, n in dof[2]:
                                    if d == v:
                                        self.inval(e2, dof[1]) if False else None
                                        e2[dof[1]] = ("v", n)
                            else:
                                e2[dk] = ("i", v)
                        outs.append((tb, a, e2))
                    # otherwise edge
                    e2 = dict(env)
                    feasible = True
                    if dk is not None:
                        if is_bool:
                            rest = {0, 1} - explicit
                            if len(rest) == 1:
                                e2[dk] = ("b", bool(rest.pop()))
                            elif not rest:
                                feasible = False
                        elif dof:
                            rest = [(d, n) for d, n in dof[2] if d not in explicit]
                            if len(rest) == 1:
                                e2[dof[1]] = ("v", rest[0][1])
                            elif not rest and dof[2]:
                                feasible = False
                    if feasible:
                        outs.append((t["otherwise"], a, e2))
            else:
                # unreachable / resume / terminate / others: path ends
                pass
            for succ, a2, e2 in outs:
                if b.is_cleanup(succ):
                    continue
                a3 = self.on_edge(bb, succ, a2, e2)
                ns = (succ, a3, frozenset(e2.items()))
                if ns not in seen:
                    seen.add(ns)
                    self.parent[ns] = st
                    work.append(ns)
        return self

    def path_to(self, st=None):
        st = st or self.cur
        p = []
        while st is not None:
            p.append(st[0])
            st = self.parent.get(st)
        p.reverse()
        # compress consecutive duplicates
        return p

    def flag(self, what, bb=None, **extra):
        rec = {"what": what, "bb": bb if bb is not None else self.cur[0], "path": self.path_to()}
        rec.update(extra)
        self.violations.append(rec)

"""Run protocol step 1: fact extraction with the mqfacts driver, cached by a hash of /repo's working tree."""
import fcntl, glob, hashlib, json, os, shutil, subprocess, sys, time

VERIF = os.path.dirname(os.path.dirname(os.path.abspath(__file__)))
REPO = os.environ.get("MQ_REPO", "/repo")
CACHE = os.path.join(VERIF, ".cache")
# parallel self-test workers (./mutest --jobs N) each use their own build directory and lock
WORKER = ("-w" + os.environ["MQ_WORKER"]) if os.environ.get("MQ_WORKER") else ""
DRIVER = os.path.join(VERIF, "mqfacts", "target", "release", "mqfacts")

WORKSPACE_CRATES = [
    "metrique", "metrique_aggregation", "metrique_core", "metrique_macro", "metrique_metricsrs",
    "metrique_service_metrics", "metrique_timesource", "metrique_writer", "metrique_writer_core",
    "metrique_writer_format_emf", "metrique_writer_macro",
]

PROFILES = {
    # name: (cargo args, extra rustflags, crates that must produce a fact file)
    "dbg": (["check", "--workspace", "--all-features"], "", WORKSPACE_CRATES),
    "rel": (["check", "-p", "metrique-writer-format-emf", "--all-features"], "-C debug-assertions=off",
            ["metrique_writer_format_emf"]),
    "nodefault": (["check", "--workspace", "--no-default-features"], "", WORKSPACE_CRATES),
    "default": (["check", "--workspace"], "", WORKSPACE_CRATES),
    "alltargets": (["check", "--workspace", "--all-features", "--all-targets"], "", WORKSPACE_CRATES),
}


def sysroot_lib():
    out = subprocess.run(["rustc", "+nightly", "--print", "sysroot"], capture_output=True, text=True, check=True)
    return os.path.join(out.stdout.strip(), "lib")


def tree_key(repo=REPO):
    """hash of tracked + untracked (non-ignored) file contents of the working tree, plus the driver binary"""
    out = subprocess.run(["git", "-C", repo, "ls-files", "-co", "--exclude-standard", "-z"],
                         capture_output=True, check=True).stdout
    h = hashlib.sha256()
    for name in sorted(out.split(b"\0")):
        if not name:
            continue
        p = os.path.join(repo.encode(), name)
        if not os.path.isfile(p):
            h.update(b"D:" + name)
            continue
        if not (name.endswith(b".rs") or name.endswith(b".toml") or name.endswith(b".lock")):
            continue
        h.update(b"F:" + name + b"\0")
        with open(p, "rb") as f:
            h.update(hashlib.sha256(f.read()).digest())
    if os.path.exists(DRIVER):
        with open(DRIVER, "rb") as f:
            h.update(hashlib.sha256(f.read()).digest())
    return h.hexdigest()[:20]


def ensure_driver():
    if not os.path.exists(DRIVER):
        subprocess.run(["cargo", "+nightly", "build", "--release", "--offline"],
                       cwd=os.path.join(VERIF, "mqfacts"), check=True,
                       env=dict(os.environ, CARGO_NET_OFFLINE="true"))
    return DRIVER


def _clear_member_fingerprints(target):
    for prof in ("debug", "release"):
        fp = os.path.join(target, prof, ".fingerprint")
        if not os.path.isdir(fp):
            continue
        for d in os.listdir(fp):
            if d.startswith("metrique") or d.startswith("mqfixtures"):
                shutil.rmtree(os.path.join(fp, d), ignore_errors=True)


def run_driver(profile, out_dir, repo=REPO, target=None, cwd=None, cargo_args=None, expect=None, extra_flags=None):
    args, flags, exp = PROFILES.get(profile, (None, "", None))
    if cargo_args is not None:
        args = cargo_args
    if expect is not None:
        exp = expect
    if extra_flags is not None:
        flags = extra_flags
    target = target or os.path.join(CACHE, "target-" + profile + WORKER)
    os.makedirs(out_dir, exist_ok=True)
    os.makedirs(target, exist_ok=True)
    _clear_member_fingerprints(target)
    env = dict(os.environ)
    env.update({
        "LD_LIBRARY_PATH": sysroot_lib() + ":" + env.get("LD_LIBRARY_PATH", ""),
        "CARGO_NET_OFFLINE": "true",
        "CARGO_TARGET_DIR": target,
        "MQFACTS_OUT": out_dir,
        "RUSTFLAGS": ("-Zmir-opt-level=0 -Awarnings " + flags).strip(),
        "RUSTC_WORKSPACE_WRAPPER": ensure_driver(),
    })
    env.pop("RUSTC_WRAPPER", None)
    cmd = ["cargo", "+nightly"] + args + ["--offline", "-q"]
    t0 = time.time()
    r = subprocess.run(cmd, cwd=cwd or repo, env=env, capture_output=True, text=True)
    if r.returncode != 0:
        sys.stderr.write(r.stdout[-3000:] + "\n" + r.stderr[-6000:] + "\n")
        raise SystemExit("mq: fact extraction failed (profile %s): /repo does not compile under `%s`" % (profile, " ".join(cmd)))
    have = {os.path.basename(p).rsplit("-", 1)[0] for p in glob.glob(os.path.join(out_dir, "*.json"))}
    missing = [c for c in (exp or []) if c not in have]
    if missing:
        raise SystemExit("mq: fact extraction produced no fact file for %s (profile %s)" % (missing, profile))
    return time.time() - t0


def facts_dir(profile, key=None):
    """Return the directory with fact files for (current tree, profile), extracting if needed."""
    key = key or tree_key()
    d = os.path.join(CACHE, "facts", key, profile)
    done = os.path.join(d, ".done")
    if os.path.exists(done):
        return d
    os.makedirs(CACHE, exist_ok=True)
    with open(os.path.join(CACHE, "lock-" + profile + WORKER), "w") as lk:
        fcntl.flock(lk, fcntl.LOCK_EX)
        if os.path.exists(done):
            return d
        if os.path.isdir(d):
            shutil.rmtree(d)
        tmp = d + ".tmp%d" % os.getpid()
        if os.path.isdir(tmp):
            shutil.rmtree(tmp)
        wall = run_driver(profile, tmp)
        os.makedirs(os.path.dirname(d), exist_ok=True)
        os.rename(tmp, d)
        with open(done, "w") as f:
            json.dump({"wall_s": wall, "key": key, "profile": profile}, f)
        # drop fact sets of older keys (keep disk bounded)
        root = os.path.join(CACHE, "facts")

        def _mtime(k):
            try:
                return os.path.getmtime(os.path.join(root, k))
            except OSError:          # removed by a concurrent run in the meantime
                return None
        try:
            keys = [(k, _mtime(k)) for k in os.listdir(root)]
        except OSError:
            keys = []
        keys = sorted([(k, t) for k, t in keys if t is not None], key=lambda kt: kt[1])
        # (a key that was touched in the last 30 minutes may be in use by a concurrent run on another tree: leave it)
        now = time.time()
        for k, t in keys[:-3]:
            if k != key and now - t > 1800:
                shutil.rmtree(os.path.join(root, k), ignore_errors=True)
    return d

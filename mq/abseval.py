"""G8: constant propagation of bool struct fields through aggregates, field moves, `|=`/`&=`, derived Default and a bounded
chain of workspace calls.  Values are sets over {True, False} plus 'TOP' (unknown)."""
from .prov import op_place, op_const, place_fields, has_deref
from .util import local_callee_bodies

TOP = "TOP"


class AbsEval:
    def __init__(self, F, max_depth=6):
        self.F = F
        self.max_depth = max_depth
        self.trace = []

    def ret_field(self, body, fields, args=None, depth=0):
        """possible values of `<return value>.<fields>` of `body`; args: list (1-based index-1) of callables fields->set"""
        return self._local(body, 0, tuple(fields), args or [], depth, frozenset())

    # -------------------------------------------------------------------------------------
    def _operand(self, body, op, rest, args, depth, excl):
        c = op_const(op)
        if c is not None:
            if "bool" in c and not rest:
                return {c["bool"]}
            return {TOP}
        p = op_place(op)
        if p is None:
            return {TOP}
        if has_deref(p):
            # reading through a reference: follow to the referent when the local is a plain `&place`
            return self._local(body, p["l"], place_fields(p) + tuple(rest), args, depth, excl, through_ref=True)
        return self._local(body, p["l"], place_fields(p) + tuple(rest), args, depth, excl)

    def _local(self, body, l, fields, args, depth, excl, through_ref=False):
        defs = []
        for d in body.defs().get(l, []):
            kind, bb, idx, node = d
            if body.is_cleanup(bb) or (bb, idx) in excl:
                continue
            if kind == "call":
                if node["dest"].get("p"):
                    continue
                defs.append((d, ()))
                continue
            if node["k"] == "setdiscr":
                continue
            lhs = node["lhs"]
            if has_deref(lhs):
                continue
            lf = place_fields(lhs)
            n = min(len(lf), len(fields))
            if lf[:n] != fields[:n]:
                continue
            defs.append((d, lf))
        is_arg = 1 <= l <= body.arg_count
        # strong update: an exact (or enclosing) definition that lies on every normal path to Return
        strong = [(d, lf) for d, lf in defs if len(lf) <= len(fields) and body.must_pass([d[1]])]
        cands = defs
        if strong:
            dom = body.dominators()
            # the last strong def = the one dominated by all the others
            last = strong[0]
            for s in strong[1:]:
                if s[0][1] in dom and last[0][1] in dom[s[0][1]]:
                    last = s
            # later (non-strong) defs that may follow the last strong def still count
            after = body.reachable_after(last[0][1])
            cands = [last] + [(d, lf) for d, lf in defs if d is not last[0] and d[1] in after and d[1] != last[0][1]]
            is_arg = False
        out = set()
        if is_arg:
            if l - 1 < len(args) and args[l - 1] is not None:
                out |= args[l - 1](fields)
            else:
                out.add(TOP)
        for (kind, bb, idx, node), lf in cands:
            rest = fields[len(lf):] if len(fields) > len(lf) else ()
            if kind == "call":
                out |= self._call(body, bb, node, fields, args, depth, excl)
            else:
                out |= self._rvalue(body, node["rv"], rest, args, depth, excl | {(bb, idx)})
        if not cands and not is_arg:
            out.add(TOP)
        return out

    def _rvalue(self, body, rv, rest, args, depth, excl):
        k = rv["k"]
        if k == "use" or k == "cast":
            return self._operand(body, rv["op"], rest, args, depth, excl)
        if k == "ref":
            p = rv["place"]
            return self._local(body, p["l"], place_fields(p) + tuple(rest), args, depth, excl)
        if k == "agg":
            names = rv.get("fields")
            ops = rv["ops"]
            if rest and names and rest[0] in names and len(names) == len(ops):
                return self._operand(body, ops[names.index(rest[0])], rest[1:], args, depth, excl)
            if rest and rest[0].isdigit() and int(rest[0]) < len(ops):
                return self._operand(body, ops[int(rest[0])], rest[1:], args, depth, excl)
            return {TOP}
        if k == "binop" and not rest:
            a = self._operand(body, rv["a"], (), args, depth, excl)
            b = self._operand(body, rv["b"], (), args, depth, excl)
            op = rv["op"]
            out = set()
            for x in a:
                for y in b:
                    if op == "BitOr":
                        if x is True or y is True:
                            out.add(True)
                        elif x is TOP or y is TOP:
                            out.add(TOP)
                        else:
                            out.add(False)
                    elif op == "BitAnd":
                        if x is False or y is False:
                            out.add(False)
                        elif x is TOP or y is TOP:
                            out.add(TOP)
                        else:
                            out.add(True)
                    else:
                        out.add(TOP)
            return out
        if k == "unop" and rv["op"] == "Not" and not rest:
            a = self._operand(body, rv["a"], (), args, depth, excl)
            return {TOP if x is TOP else (not x) for x in a}
        return {TOP}

    def _call(self, body, bb, term, fields, args, depth, excl):
        if depth >= self.max_depth:
            return {TOP}
        from .facts import CallSite
        cs = CallSite(body, bb, term)
        subs = local_callee_bodies(self.F, cs)
        if not subs:
            if cs.is_trait_method("Default", "default") and cs.self_ty == "bool" and not fields:
                return {False}
            # value-preserving adapters
            if cs.name in ("into", "from", "clone", "to_owned") and term["args"]:
                return self._operand(body, term["args"][0], fields, args, depth, excl)
            return {TOP}
        out = set()
        for sb in subs:
            cargs = []
            for a in term["args"]:
                cargs.append((lambda a_: (lambda fs: self._operand(body, a_, fs, args, depth, excl)))(a))
            self.trace.append((body.path, sb.path, fields))
            out |= self._local(sb, 0, tuple(fields), cargs, depth + 1, frozenset())
        return out

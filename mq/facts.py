"""Fact base: loads the JSON emitted by mqfacts and offers indexed access (bodies, CFGs, call sites, ADTs, impls)."""
import glob, json, os, re


ALIAS = {}       # callee def path -> canonical (role) name, filled by Facts._role_aliases


class CallSite:
    __slots__ = ("body", "bb", "term", "callee")

    def __init__(self, body, bb, term):
        self.body, self.bb, self.term = body, bb, term
        self.callee = term.get("callee") or {}

    # -- identity ------------------------------------------------------------------
    @property
    def def_(self):
        return self.callee.get("def", "")

    @property
    def resolved(self):
        return self.callee.get("resolved") or self.callee.get("def", "")

    @property
    def name(self):
        # private helpers of the EMF buffer type are known to the rules by the role they play (see Facts._role_aliases): a renamed
        # `push_raw_str` is still "the raw append"
        a = ALIAS.get(self.callee.get("def", ""))
        return a if a is not None else self.callee.get("name", "")

    @property
    def trait(self):
        return self.callee.get("trait")

    @property
    def self_ty(self):
        return self.callee.get("self_ty") or self.callee.get("impl_self") or ""

    @property
    def args(self):
        return self.term.get("args", [])

    @property
    def dest(self):
        return self.term.get("dest")

    @property
    def target(self):
        return self.term.get("target")

    @property
    def line(self):
        return self.term.get("line")

    @property
    def exp(self):
        return self.term.get("exp")

    @property
    def diverges(self):
        return self.term.get("target") is None

    def is_(self, *names):
        """match against def path / resolved def path (exact, or suffix after '::')"""
        for n in names:
            for cand in (self.def_, self.resolved):
                if cand == n or cand.endswith("::" + n) or strip_generics(cand) == n or strip_generics(cand).endswith("::" + n):
                    return True
        return False

    def is_in(self, prefix, *suffixes):
        """def path starts with `prefix` (crate / module) and ends with one of the `::suffix`es"""
        for cand in (self.def_, self.resolved):
            sc = strip_generics(cand)
            if sc.startswith(prefix) or cand.startswith(prefix):
                for n in suffixes:
                    if sc.endswith("::" + n) or cand.endswith("::" + n):
                        return True
        return False

    def is_trait_method(self, trait_suffix, method=None):
        t = self.trait or self.callee.get("impl_trait") or ""
        if not (t == trait_suffix or t.endswith("::" + trait_suffix)):
            return False
        return method is None or self.name == method

    def loc(self):
        return "%s:%s" % (self.body.file, self.line)

    def __repr__(self):
        return "<call %s @%s bb%d>" % (self.def_, self.loc(), self.bb)


_gen_re = re.compile(r"::<[^<>]*(?:<[^<>]*(?:<[^<>]*>[^<>]*)*>[^<>]*)*>")


def strip_generics(path):
    """`a::B::<S, E>::f` -> `a::B::f` (turbofish-style generic lists in def paths)"""
    prev = None
    while prev != path:
        prev = path
        path = _gen_re.sub("", path)
    return path


class Body:
    def __init__(self, crate, d):
        self.crate = crate
        self.d = d
        self.def_ = d["def"]
        self.uid = d.get("uid") or d["def"]
        self.parent_uid = d.get("parent_uid")
        self.path = strip_generics(self.def_)
        self.kind = d["kind"]
        self.name = d.get("name") or self.path.rsplit("::", 1)[-1]
        self.file = d["span"]["file"]
        self.line = d["span"]["line"]
        self.exp = d["span"].get("exp")
        self.impl = d.get("impl")
        self.blocks = d.get("blocks", [])
        self.locals = d.get("locals", [])
        self.arg_count = d.get("arg_count", 0)
        self.parent = d.get("parent")
        self._succ = None
        self._pred = None
        self._calls = None
        self._defs = None

    # -- CFG (normal paths only: cleanup blocks and unwind edges removed) -------------
    def is_cleanup(self, bb):
        return bool(self.blocks[bb].get("cleanup"))

    def term(self, bb):
        return self.blocks[bb].get("term") or {"k": "unreachable"}

    def stmts(self, bb):
        return self.blocks[bb]["stmts"]

    def succ(self, bb):
        if self._succ is None:
            self._build()
        return self._succ[bb]

    def pred(self, bb):
        if self._pred is None:
            self._build()
        return self._pred[bb]

    def _build(self):
        n = len(self.blocks)
        succ = [[] for _ in range(n)]
        for i in range(n):
            if self.is_cleanup(i):
                continue
            t = self.term(i)
            k = t["k"]
            if k in ("goto", "drop", "assert", "yield"):
                succ[i] = [t["target"]]
            elif k == "call":
                succ[i] = [t["target"]] if t.get("target") is not None else []
            elif k == "switch":
                s = [x[1] for x in t["targets"]] + [t["otherwise"]]
                seen = []
                for x in s:
                    if x not in seen:
                        seen.append(x)
                succ[i] = seen
            else:
                succ[i] = []
        pred = [[] for _ in range(n)]
        for i, ss in enumerate(succ):
            for s in ss:
                pred[s].append(i)
        self._succ, self._pred = succ, pred

    @property
    def nblocks(self):
        return len(self.blocks)

    def return_blocks(self):
        return [i for i in range(self.nblocks) if not self.is_cleanup(i) and self.term(i)["k"] == "return"]

    def reachable(self, start=0, avoid=()):
        """blocks reachable from `start` on normal paths without entering a block in `avoid`
        (start itself is included even if in avoid)"""
        avoid = set(avoid)
        seen = {start}
        st = [start]
        while st:
            b = st.pop()
            for s in self.succ(b):
                if s not in seen and s not in avoid:
                    seen.add(s)
                    st.append(s)
        return seen

    def reachable_after(self, bb, avoid=()):
        """blocks reachable strictly after leaving bb (bb included only if on a cycle)"""
        avoid = set(avoid)
        seen = set()
        st = [s for s in self.succ(bb) if s not in avoid]
        seen.update(st)
        while st:
            b = st.pop()
            for s in self.succ(b):
                if s not in seen and s not in avoid:
                    seen.add(s)
                    st.append(s)
        return seen

    def live_blocks(self):
        return self.reachable(0)

    def can_reach_return(self):
        rets = self.return_blocks()
        seen = set(rets)
        st = list(rets)
        while st:
            b = st.pop()
            for p in self.pred(b):
                if p not in seen:
                    seen.add(p)
                    st.append(p)
        return seen

    def dominators(self):
        """dom[b] = set of blocks dominating b (normal CFG from entry 0)"""
        live = sorted(self.live_blocks())
        allb = set(live)
        dom = {b: set(allb) for b in live}
        dom[0] = {0}
        changed = True
        order = live
        while changed:
            changed = False
            for b in order:
                if b == 0:
                    continue
                ps = [p for p in self.pred(b) if p in allb]
                if not ps:
                    continue
                new = set.intersection(*(dom[p] for p in ps)) | {b}
                if new != dom[b]:
                    dom[b] = new
                    changed = True
        return dom

    def must_pass(self, blocks, start=0, exits=None):
        """True iff every normal path start -> Return (or given exit blocks) passes through one of `blocks`
        (i.e. leaves through its terminator).  Paths ending in panics do not count."""
        blocks = set(blocks)
        exits = set(self.return_blocks() if exits is None else exits)
        if start in blocks:
            return True
        r = self.reachable(start, avoid=blocks)
        return not (r & exits)

    # -- calls ---------------------------------------------------------------------
    def calls(self, include_cleanup=False):
        if self._calls is None:
            self._calls = []
            for i, b in enumerate(self.blocks):
                t = b.get("term")
                if t and t["k"] == "call":
                    self._calls.append(CallSite(self, i, t))
        if include_cleanup:
            return self._calls
        return [c for c in self._calls if not self.is_cleanup(c.bb)]

    def calls_to(self, *names, **kw):
        return [c for c in self.calls() if c.is_(*names)]

    # -- defs ------------------------------------------------------------------------
    def defs(self):
        """local -> list of ('assign', bb, idx, stmt) | ('call', bb, term)"""
        if self._defs is None:
            d = {}
            for i, b in enumerate(self.blocks):
                for j, s in enumerate(b["stmts"]):
                    if s["k"] in ("assign", "setdiscr"):
                        d.setdefault(s["lhs"]["l"], []).append(("assign", i, j, s))
                t = b.get("term")
                if t and t["k"] == "call":
                    d.setdefault(t["dest"]["l"], []).append(("call", i, None, t))
            self._defs = d
        return self._defs

    def local_ty(self, l):
        return self.locals[l]["ty"]

    def local_name(self, l):
        return self.locals[l].get("name")

    def __repr__(self):
        return "<body %s>" % self.def_


class BodyIndex(dict):
    """bodies keyed by (crate, uid); lookups by (crate, def path) fall back to the def-path index (first match if ambiguous)"""

    def __init__(self):
        super().__init__()
        self.by_def = {}

    def add(self, key, b):
        self[(key, b.uid)] = b
        self.by_def.setdefault((key, b.def_), []).append(b)

    def get(self, k, default=None):
        if k in self:
            return self[k]
        l = self.by_def.get(k)
        if l:
            return l[0]
        return default


class Facts:
    def __init__(self, directory):
        self.dir = directory
        self.crates = {}
        self.bodies = BodyIndex()
        self.by_path = {}
        self.adts = {}
        self.impls = []
        self.traits = {}
        self.statics = []
        for p in sorted(glob.glob(os.path.join(directory, "*.json"))):
            with open(p) as f:
                c = json.load(f)
            name = c["crate"]
            key = name + ("#test" if c.get("is_test") else "")
            if key in self.crates:
                continue  # proc-macro crates are compiled twice
            self.crates[key] = c
            for bd in c["bodies"]:
                b = Body(key, bd)
                self.bodies.add(key, b)
                self.by_path.setdefault(b.path, []).append(b)
                self.by_uid = getattr(self, "by_uid", {})
                self.by_uid[b.uid] = b
            for a in c["adts"]:
                a["crate"] = key
                self.adts[a["def"]] = a
            for i in c["impls"]:
                i["crate"] = key
                self.impls.append(i)
            for t in c["traits"]:
                t["crate"] = key
                self.traits[t["def"]] = t
            for s in c["statics"]:
                s["crate"] = key
                self.statics.append(s)
        self._role_aliases()
        self._thin_forwarders()

    def _thin_forwarders(self):
        """a private function (typically the method of a one-impl private trait) whose whole body is one call of a ring-buffer primitive
        with its own parameters, returned as it is (`fn pop_oldest(&self) -> Option<E> { self.pop() }`), is that primitive under another
        name: calls of it are presented as calls of the primitive, and the wrapper body itself is left out of the fact base"""
        thin = {}
        for key, b in list(self.bodies.items()):
            if b.kind == "Closure" or key[0].endswith("#test"):
                continue
            calls = [c for c in b.calls() if c.callee.get("name") not in ("deref", "deref_mut", "as_ref", "as_mut", "borrow", "borrow_mut")]
            if len(calls) != 1:
                continue
            c = calls[0]
            d = c.callee.get("def", "")
            ring = d.startswith("crossbeam_queue::")
            local = False
            if not ring and not local:
                continue
            live = [i for i in b.live_blocks()]
            if len(live) > 5 or c.dest.get("p") or c.dest["l"] != 0 and not any(
                    s["k"] == "assign" and s["lhs"]["l"] == 0 and s["rv"]["k"] == "use" and (s["rv"]["op"].get("move") or s["rv"]["op"].get("copy") or {}).get("l") == c.dest["l"]
                    for i in live for s in b.stmts(i)):
                continue
            # arguments = the parameters, in order (possibly behind a reborrow / deref of self)
            if len(c.args) != b.arg_count:
                continue
            thin[b.def_] = dict(c.callee)
            if b.impl and b.impl.get("trait"):
                thin[strip_generics(b.impl["trait"]) + "::" + b.name] = dict(c.callee)
            b.thin = True
        if not thin:
            return
        for key in [k for k, b in self.bodies.items() if getattr(b, "thin", False)]:
            b = self.bodies.pop(key)
            for p_, bs in self.by_path.items():
                if b in bs:
                    bs.remove(b)
        for b in self.bodies.values():
            changed = False
            for blk in b.blocks:
                t = blk.get("term")
                if t and t.get("k") == "call":
                    c = t.get("callee") or {}
                    inner = thin.get(c.get("resolved") or "") or thin.get(c.get("def") or "") or thin.get(strip_generics(c.get("def") or ""))
                    if inner is not None:
                        new_c = dict(inner)
                        new_c["via_wrapper"] = c.get("def")
                        t["callee"] = new_c
                        changed = True
            if changed:
                b._calls = None

    def _role_aliases(self):
        """canonical names for the crate-private vocabulary of the EMF output buffer, decided from what each method does (so that the
        typestate rules do not depend on what the methods are called)"""
        EMF = "metrique_writer_format_emf"
        for (k, _), b in list(self.bodies.items()):
            if k != EMF or not b.impl:
                continue
            adt = (b.impl.get("self_head") or {}).get("adt") or ""
            tr = b.impl.get("trait") or ""
            role = None
            if adt.endswith("buf::PrefixedStringBuf") and not tr:
                calls = [c.callee.get("def", "") for c in b.calls()]
                out = b.d.get("output") or ""
                ins = b.d.get("inputs") or []
                if ins and re.match(r"&('\w+ )?metrique", ins[0]) and len(ins) == 1:
                    if out == "bool" and any(d.endswith("String::len") for d in calls):
                        ALIAS[b.def_] = "is_empty"
                    elif out.endswith("str"):
                        ALIAS[b.def_] = "as_str"
                    continue
                if not ins or not re.match(r"&('\w+ )?mut ", ins[0]):
                    continue
                if any(d.endswith("String::push_str") for d in calls) and any("itoa" in d for d in calls):
                    role = "push_integer"
                elif any(d.endswith("String::push_str") for d in calls) and len(ins) == 2 and ins[1].startswith("&") and "str" in ins[1]:
                    role = "push_raw_str"
                elif any(d.endswith("String::push") for d in calls) and len(ins) == 2 and ins[1] == "char":
                    role = "push"
                elif any("extend_from_within" in d for d in calls):
                    role = "extend_from_within_range"
                elif any(d.endswith("String::truncate") for d in calls):
                    role = "truncate" if len(ins) == 2 else "clear"
            elif tr.endswith("PushJsonSafeString"):
                ins = b.d.get("inputs") or []
                if len(ins) >= 2:
                    if "JsonEncodedString" in ins[1]:
                        role = "push_json_safe_string"
                    elif "JsonEncodedArray" in ins[1]:
                        role = "push_json_safe_array"
                    elif len(ins) >= 3:
                        role = "push_json_safe_log_group_and_timestamp"
            if role:
                ALIAS[b.def_] = role
                # calls through the trait name the trait's item, not the impl's
                if tr:
                    ALIAS[tr + "::" + b.name] = role
        # make the role name what every consumer sees (call terminators carry the callee's name in several places)
        if ALIAS:
            for b in self.bodies.values():
                for blk in b.blocks:
                    t = blk.get("term")
                    if t and t.get("k") == "call":
                        c = t.get("callee") or {}
                        a = ALIAS.get(c.get("def", "")) or ALIAS.get(c.get("resolved", ""))
                        if a is not None and c.get("name") != a:
                            c["orig_name"] = c.get("name")
                            c["name"] = a

    def all_bodies(self, crate=None, lib_only=True):
        for (k, _), b in self.bodies.items():
            if lib_only and k.endswith("#test"):
                continue
            if crate is None or k == crate or (isinstance(crate, (list, tuple, set)) and k in crate):
                yield b

    def body(self, path, crate=None):
        """unique body by generics-stripped def path (exact or suffix)"""
        c = self.find(path, crate)
        if len(c) != 1:
            return None
        return c[0]

    def find(self, path, crate=None):
        out = []
        for p, bs in self.by_path.items():
            if p == path or p.endswith("::" + path):
                for b in bs:
                    if crate is None or b.crate == crate:
                        out.append(b)
        return out

    def closures_of(self, body):
        return [b for b in self.bodies.values() if b.kind == "Closure" and b.crate == body.crate and
                (b.parent_uid == body.uid if b.parent_uid else b.parent == body.def_)]

    def closure(self, crate, def_):
        return self.bodies.get((crate, def_))

    def impls_of(self, trait_suffix=None, self_adt=None):
        out = []
        for i in self.impls:
            t = i.get("trait")
            if trait_suffix is not None:
                if not t or not (t == trait_suffix or t.endswith("::" + trait_suffix)):
                    continue
            if self_adt is not None:
                h = i.get("self_head") or {}
                a = h.get("adt", "")
                if not (a == self_adt or a.endswith("::" + self_adt)):
                    continue
            out.append(i)
        return out

    def adt(self, suffix):
        c = [a for d, a in self.adts.items() if d == suffix or d.endswith("::" + suffix)]
        return c[0] if len(c) == 1 else None

    def callers_of(self, *names, crates=None, lib_only=True):
        out = []
        for b in self.all_bodies(lib_only=lib_only):
            if crates is not None and b.crate not in crates:
                continue
            for c in b.calls():
                if c.is_(*names):
                    out.append(c)
        return out

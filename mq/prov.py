"""G3 provenance (backward def-use closure) and forward value flow (aliases / consumers) over MIR facts."""
import json

# Calls that hand their receiver / first argument through unchanged (as far as *which value* is concerned).
IDENTITY_ADAPTERS = {
    "core::convert::Into::into", "core::convert::From::from", "core::convert::AsRef::as_ref",
    "core::convert::AsMut::as_mut", "core::ops::Deref::deref", "core::ops::DerefMut::deref_mut",
    "core::borrow::Borrow::borrow", "core::borrow::BorrowMut::borrow_mut", "core::clone::Clone::clone",
    "core::iter::IntoIterator::into_iter", "core::iter::Iterator::copied", "core::iter::Iterator::cloned",
    "core::iter::Iterator::by_ref",
    "core::option::Option::<T>::as_ref", "core::option::Option::<T>::as_mut", "core::option::Option::<T>::unwrap",
    "core::option::Option::<T>::expect", "core::option::Option::<T>::as_deref", "core::option::Option::<T>::as_deref_mut",
    "core::result::Result::<T, E>::unwrap", "core::result::Result::<T, E>::expect",
    "core::pin::Pin::<Ptr>::new", "core::pin::Pin::<Ptr>::get_mut", "core::pin::Pin::<Ptr>::as_mut",
    "alloc::borrow::ToOwned::to_owned", "alloc::string::String::as_str", "alloc::vec::Vec::<T, A>::as_slice",
    "core::slice::<impl [T]>::iter", "alloc::borrow::Cow::<'_, B>::into_owned",
    "alloc::boxed::Box::<T>::new", "alloc::sync::Arc::<T>::new",
    "core::iter::Iterator::collect", "core::str::<impl str>::as_bytes",
    "core::ops::Try::branch", "core::ops::FromResidual::from_residual",
}


import re as _re
_gen = _re.compile(r"::<[^<>]*(?:<[^<>]*>[^<>]*)*>")


def _suffix2(path):
    p = _gen.sub("", path)
    parts = p.split("::")
    return "::".join(parts[-2:])


def place_fields(place):
    return tuple(e[2] for e in place.get("p", []) if e[0] == "f")


def has_deref(place):
    return any(e[0] == "deref" for e in place.get("p", []))


def op_place(op):
    if "copy" in op:
        return op["copy"]
    if "move" in op:
        return op["move"]
    return None


def op_const(op):
    return op.get("const")


def op_local(op):
    """local index if operand is a bare local (no projection)"""
    p = op_place(op)
    if p is not None and not p.get("p"):
        return p["l"]
    return None


def const_key(c):
    for k in ("str", "int", "bool", "float"):
        if k in c:
            return (k, c[k])
    if "fn" in c:
        return ("fn", c["fn"].get("resolved") or c["fn"]["def"])
    if "uneval" in c:
        return ("uneval", c["uneval"], tuple(c.get("uneval_args", [])))
    if "closure" in c:
        return ("closure", c["closure"])
    return ("disp", c.get("disp", c.get("ty")))


def promoted_summary(body, idx):
    """what a promoted constant of `body` evaluates to, as a key: ('variant', adt, name) | ('int', n) | ('str', s) | None"""
    proms = body.d.get("promoted") or []
    if idx >= len(proms):
        return None
    pb = proms[idx]
    defs = {}
    for blk in pb["blocks"]:
        for st in blk["stmts"]:
            if st["k"] == "assign" and not st["lhs"].get("p"):
                defs[st["lhs"]["l"]] = st["rv"]
    l = 0
    for _ in range(6):
        rv = defs.get(l)
        if rv is None:
            return None
        if rv["k"] == "ref":
            if rv["place"].get("p"):
                return None
            l = rv["place"]["l"]
            continue
        if rv["k"] == "use":
            c = op_const(rv["op"])
            if c is not None:
                return const_key(c)
            ll = op_local(rv["op"])
            if ll is None:
                return None
            l = ll
            continue
        if rv["k"] == "agg" and rv.get("agg") == "adt":
            inner = []
            for o in rv.get("ops", []):
                ll = op_local(o)
                r2 = defs.get(ll) if ll is not None else None
                if r2 is not None and r2["k"] == "agg" and r2.get("agg") == "adt":
                    inner.append(("variant", r2.get("adt"), r2.get("variant")))
            if inner:        # `Some(Mode::X)`: the payload is part of the constant
                return ("variant", rv.get("adt"), rv.get("variant"), tuple(inner))
            return ("variant", rv.get("adt"), rv.get("variant"))
        return None
    return None


class Prov:
    """Backward provenance for one body. Origins are tuples:
       ('arg', local, fields) | ('const', key) | ('call', bb) | ('agg', name) | ('op', opname) | ('undef', local) | ('unknown', what)"""

    def __init__(self, body, adapters=IDENTITY_ADAPTERS, extra_adapters=(), multi=None, adapter_pred=None):
        self.b = body
        self.adapters = set(adapters) | set(extra_adapters)
        self.multi = multi or {}          # callee def -> argument indices whose origins the result unions
        self.adapter_pred = adapter_pred  # optional predicate(term) -> bool (treat as receiver-preserving)
        self.memo = {}

    def is_adapter(self, cs):
        d = cs.get("callee", {})
        for cand in (d.get("def"), d.get("resolved")):
            if cand in self.adapters:
                return True
        # path-insensitive match on `<Type or Trait>::<method>` (std re-export paths differ from definition paths)
        if not hasattr(self, "_suffixes"):
            self._suffixes = {_suffix2(a) for a in self.adapters}
        dd = d.get("def")
        return bool(dd) and _suffix2(dd) in self._suffixes and (dd.startswith("core::") or dd.startswith("alloc::") or dd.startswith("std::") or dd.startswith("smallvec::"))

    def operand(self, op, rest=(), _seen=None):
        c = op_const(op)
        if c is not None:
            if "promoted" in c:
                ps = promoted_summary(self.b, c["promoted"])
                if ps is not None:
                    return {("const", ps)}
            return {("const", const_key(c))}
        p = op_place(op)
        if p is None:
            return {("unknown", "operand")}
        return self.place(p, rest, _seen)

    def place(self, place, rest=(), _seen=None):
        return self.local(place["l"], place_fields(place) + tuple(rest), _seen)

    def local(self, l, fields=(), _seen=None):
        key = (l, fields)
        if key in self.memo:
            return self.memo[key]
        seen = _seen if _seen is not None else set()
        if key in seen:
            return set()
        seen.add(key)
        out = set()
        b = self.b
        defs = b.defs().get(l, [])
        if 1 <= l <= b.arg_count:
            out.add(("arg", l, fields))
        for kind, bb, idx, node in defs:
            if b.is_cleanup(bb):
                continue
            if kind == "call":
                d = node["dest"]
                if d.get("p"):
                    # call writes into a projection of l
                    pass
                cdef = (node.get("callee") or {}).get("def")
                if cdef in self.multi and node["args"]:
                    for ai in self.multi[cdef]:
                        if ai < len(node["args"]):
                            out |= self.operand(node["args"][ai], (), seen)
                    out.add(("via", bb))
                elif (self.is_adapter(node) or (self.adapter_pred is not None and self.adapter_pred(node))) and node["args"]:
                    out |= self.operand(node["args"][0], (), seen)
                    out.add(("via", bb))
                else:
                    out.add(("call", bb))
                    if fields:
                        out.add(("callf", bb, fields))
                continue
            if node["k"] == "setdiscr":
                continue
            lhs = node["lhs"]
            lf = place_fields(lhs)
            if has_deref(lhs):
                # write through a reference held in l: affects the pointee, not l itself
                continue
            n = min(len(lf), len(fields))
            if lf[:n] != fields[:n]:
                continue
            rest = fields[len(lf):] if len(fields) > len(lf) else ()
            out |= self.rvalue(node["rv"], rest, seen, bb)
        if not defs and not (1 <= l <= b.arg_count):
            out.add(("undef", l))
        if _seen is None:
            self.memo[key] = out
        return out

    def rvalue(self, rv, rest, seen, bb):
        k = rv["k"]
        if k == "use":
            return self.operand(rv["op"], rest, seen)
        if k in ("ref", "rawptr"):
            return self.place(rv["place"], rest, seen)
        if k == "cast":
            return self.operand(rv["op"], rest, seen)
        if k == "agg":
            names = rv.get("fields")
            ops = rv["ops"]
            if rest:
                if names and rest[0] in names and len(names) == len(ops):
                    return self.operand(ops[names.index(rest[0])], rest[1:], seen)
                if rest[0].isdigit() and int(rest[0]) < len(ops) and rv.get("agg") in ("tuple", "array"):
                    return self.operand(ops[int(rest[0])], rest[1:], seen)
            out = {("agg", rv.get("adt") or rv.get("closure") or rv.get("agg"), rv.get("variant"))}
            for o in ops:
                out |= self.operand(o, (), seen)
            return out
        if k == "discr":
            return self.place(rv["place"], (), seen) | {("op", "discr")}
        if k == "binop":
            return self.operand(rv["a"], (), seen) | self.operand(rv["b"], (), seen) | {("op", rv["op"])}
        if k == "unop":
            return self.operand(rv["a"], (), seen) | {("op", rv["op"])}
        if k == "repeat":
            return self.operand(rv["op"], (), seen)
        if k == "tlref":
            return {("static", rv["def"])}
        return {("unknown", rv.get("dbg", k))}

    # ---- helpers on origin sets ------------------------------------------------------
    @staticmethod
    def args_of(origins):
        return {(o[1], o[2]) for o in origins if o[0] == "arg"}

    @staticmethod
    def calls_of(origins):
        return {o[1] for o in origins if o[0] == "call"}

    @staticmethod
    def consts_of(origins):
        return {o[1] for o in origins if o[0] == "const"}


def single_def_ref_target(body, l):
    """if local l is (only) defined as `&[mut] place` return that place, following reborrows `&mut *r`"""
    for _ in range(8):
        defs = [d for d in body.defs().get(l, []) if not body.is_cleanup(d[1])]
        if len(defs) != 1 or defs[0][0] != "assign":
            return None
        rv = defs[0][3]["rv"]
        if rv["k"] == "ref" or rv["k"] == "rawptr":
            pl = rv["place"]
            pr = pl.get("p", [])
            if pr and pr[0][0] == "deref" and len(pr) == 1:
                l = pl["l"]
                continue
            return pl
        if rv["k"] == "use" and op_local(rv["op"]) is not None:
            l = op_local(rv["op"])
            continue
        if rv["k"] == "cast" and op_local(rv["op"]) is not None:
            l = op_local(rv["op"])
            continue
        return None
    return None


class Flow:
    """Forward flow of a by-value local: which locals alias the (whole) value, where it is consumed."""

    def __init__(self, body, start_local):
        self.b = body
        self.aliases = {start_local}
        self.wrapped = {}          # alias local -> description of the aggregate it was wrapped in
        self.consumers = []        # (bb, term, arg index) calls that take an alias by move
        self.drops = []            # (bb, local)
        self.borrows = []          # (bb, idx, ref local)
        self.field_moves = []      # (bb, idx, stmt) alias moved into a field of something (e.g. *self.slot = Some(x))
        self._run()

    def _run(self):
        b = self.b
        changed = True
        while changed:
            changed = False
            for i, blk in enumerate(b.blocks):
                if b.is_cleanup(i):
                    continue
                for j, s in enumerate(blk["stmts"]):
                    if s["k"] != "assign":
                        continue
                    rv = s["rv"]
                    lhs = s["lhs"]
                    srcs = []
                    if rv["k"] in ("use", "cast"):
                        srcs = [rv["op"]]
                    elif rv["k"] == "agg":
                        srcs = rv["ops"]
                    for o in srcs:
                        if "move" in o or "copy" in o:
                            p = op_place(o)
                            if p["l"] in self.aliases and not has_deref(p):
                                if not lhs.get("p"):
                                    if lhs["l"] not in self.aliases:
                                        self.aliases.add(lhs["l"])
                                        if rv["k"] == "agg":
                                            self.wrapped[lhs["l"]] = (rv.get("adt") or rv.get("agg"), rv.get("variant"))
                                        changed = True
                                else:
                                    rec = (i, j)
                                    if rec not in [(x[0], x[1]) for x in self.field_moves]:
                                        # moved into a field of another value (downcast/field of an alias is fine)
                                        if lhs["l"] in self.aliases:
                                            continue
                                        self.field_moves.append((i, j, s))
        for i, blk in enumerate(b.blocks):
            if b.is_cleanup(i):
                continue
            for j, s in enumerate(blk["stmts"]):
                if s["k"] == "assign" and s["rv"]["k"] == "ref" and s["rv"]["place"]["l"] in self.aliases:
                    self.borrows.append((i, j, s["lhs"]["l"]))
            t = blk.get("term")
            if not t:
                continue
            if t["k"] == "call":
                for ai, a in enumerate(t["args"]):
                    if "move" in a and a["move"]["l"] in self.aliases and not has_deref(a["move"]):
                        self.consumers.append((i, t, ai))
            elif t["k"] == "drop":
                if t["place"]["l"] in self.aliases and not has_deref(t["place"]):
                    self.drops.append((i, t["place"]["l"]))

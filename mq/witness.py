"""E3: compile-time witnesses.  Generates a crate that path-depends on the tree under analysis and lets rustc's constant
evaluator / type checker discharge finite, exhaustively enumerated obligations; compile_fail doctests (each with a compiling
`no_run` twin) witness that violating programs do not type-check.  Nothing of metrique is executed."""
import fcntl, hashlib, json, os, re, shutil, subprocess, time
from . import extract

TIME = [("Second", 1), ("Millisecond", 1000), ("Microsecond", 1000000)]
BITS = []
for base, b in (("Byte", 8), ("Bit", 1), ("BytePerSecond", 8), ("BitPerSecond", 1)):
    for pre, k in (("", 1), ("Kilo", 10 ** 3), ("Mega", 10 ** 6), ("Giga", 10 ** 9), ("Tera", 10 ** 12)):
        nm = (pre + base.lower()) if pre else base
        if pre:
            nm = pre + base[0].lower() + base[1:]
        BITS.append((nm, b * k, base))
NAMES = {"None": "None", "Count": "Count", "Percent": "Percent", "Second": "Seconds", "Millisecond": "Milliseconds", "Microsecond": "Microseconds"}
for nm, bits, base in BITS:
    scale = nm[:4] if nm[:4] in ("Kilo", "Mega", "Giga", "Tera") else ""
    unit = {"Byte": "bytes", "Bit": "bits", "BytePerSecond": "bytes/Second", "BitPerSecond": "bits/Second"}[base]
    NAMES[nm] = (scale + unit) if scale else unit[0].upper() + unit[1:]
ALL_TAGS = ["None", "Count", "Percent"] + [t for t, _ in TIME] + [t for t, _, _ in BITS]


def gen_units():
    out = ["//! C19 const obligations (generated)", "#![allow(dead_code)]", "use metrique_writer_core::unit::*;",
           "const fn str_eq(a: &str, b: &str) -> bool { let a = a.as_bytes(); let b = b.as_bytes(); if a.len() != b.len() { return false; } let mut i = 0; while i < a.len() { if a[i] != b[i] { return false; } i += 1; } true }",
           "const fn inv_ok(x: f64, y: f64) -> bool { let p = x * y; let d = if p > 1.0 { p - 1.0 } else { 1.0 - p }; d <= 2.220446049250313e-16 * 2.0 }"]
    n = 0
    for a, na in TIME:
        for b, nb in TIME:
            out.append("const _: () = assert!(<%s as Convert<%s>>::RATIO == (%du64 as f64) / (%du64 as f64));" % (a, b, nb, na))
            out.append("const _: () = assert!(inv_ok(<%s as Convert<%s>>::RATIO, <%s as Convert<%s>>::RATIO));" % (a, b, b, a))
            n += 2
    for a, ba, _ in BITS:
        for b, bb, _ in BITS:
            out.append("const _: () = assert!(<%s as Convert<%s>>::RATIO == (%du64 as f64) / (%du64 as f64));" % (a, b, ba, bb))
            out.append("const _: () = assert!(inv_ok(<%s as Convert<%s>>::RATIO, <%s as Convert<%s>>::RATIO));" % (a, b, b, a))
            n += 2
    for t in ALL_TAGS:
        out.append("const _: () = assert!(<None as Convert<%s>>::RATIO == 1.0);" % t)
        out.append('const _: () = assert!(str_eq(<%s as UnitTag>::UNIT.name(), "%s"));' % (t, NAMES[t]))
        n += 2
    # Duration defaults to milliseconds (type equality, for every instantiation: no parameters involved)
    out.append("fn same<T>(_: core::marker::PhantomData<T>, _: core::marker::PhantomData<T>) {}")
    out.append("fn duration_unit_is_millisecond() { same(core::marker::PhantomData::<<core::time::Duration as metrique_writer_core::MetricValue>::Unit>, core::marker::PhantomData::<Millisecond>); }")
    out.append("const _: () = assert!(matches!(<<core::time::Duration as metrique_writer_core::MetricValue>::Unit as UnitTag>::UNIT, Unit::Second(NegativeScale::Milli)));")
    n += 2
    return "\n".join(out) + "\n", n


PAT_A = "abcdefghijklmnopqrstuvwxyzABCDEFGHIJKLMNOPQRSTUVWXYZ0123456789_-abcdefghijklmnopqrstuvwxyzABCDEFGHIJKLMNOPQRSTUVWXYZ0123456789_-abcdefghijklmnopqrstuvwxyz"
PAT_B = "ZYXWVUTSRQPONMLKJIHGFEDCBAzyxwvutsrqponmlkjihgfedcba9876543210.:ZYXWVUTSRQPONMLKJIHGFEDCBAzyxwvutsrqponmlkjihgfedcba9876543210.:ZYXWVUTSRQPONMLKJIHGFEDCBA"


def gen_concat():
    out = ["//! C07 const obligations for the const-string concatenation table (generated)", "#![allow(dead_code)]",
           "use metrique_core::concat::{Concatenated, ConstStr, MaybeConstStr};",
           "const fn str_eq(a: &str, b: &str) -> bool { let a = a.as_bytes(); let b = b.as_bytes(); if a.len() != b.len() { return false; } let mut i = 0; while i < a.len() { if a[i] != b[i] { return false; } i += 1; } true }"]
    for k in range(0, 151):
        out.append('pub struct A%d; impl ConstStr for A%d { const VAL: &\'static str = "%s"; }' % (k, k, PAT_A[:k]))
        out.append('pub struct B%d; impl ConstStr for B%d { const VAL: &\'static str = "%s"; }' % (k, k, PAT_B[:k]))
    n = 0
    # the contract of MaybeConstStr (concat.rs): LEN is the exact length, and *if* HAVE_VAL then MAYBE_VAL is the exact text.  Whether a
    # given length is served from the const table or from the heap fallback is an implementation choice and is not demanded here.
    def ob(ty, text):
        return ('const _: () = assert!(<%s as MaybeConstStr>::LEN == %d && (!<%s as MaybeConstStr>::HAVE_VAL || str_eq(<%s as MaybeConstStr>::MAYBE_VAL, "%s")));'
                % (ty, len(text), ty, ty, text))
    for total in range(0, 101):
        splits = sorted({(0, total), (total, 0), (total // 2, total - total // 2), (1, total - 1) if total >= 1 else (0, total)})
        for a, b in splits:
            out.append(ob("Concatenated<A%d, B%d>" % (a, b), PAT_A[:a] + PAT_B[:b]))
            n += 1
    for a, b in ((101, 0), (0, 101), (50, 51), (100, 50), (150, 0), (1, 100), (100, 1), (150, 150)):
        out.append(ob("Concatenated<A%d, B%d>" % (a, b), PAT_A[:a] + PAT_B[:b]))
        n += 1
    # nested chains, short and beyond the const limit, in both association orders and three levels deep
    for a, b, c in ((3, 4, 5), (0, 0, 0), (30, 30, 40), (1, 98, 1), (60, 30, 20), (60, 50, 5), (5, 60, 50), (0, 101, 3), (101, 0, 3), (3, 0, 101),
                    (100, 0, 1), (50, 50, 1), (1, 50, 50), (120, 0, 0), (0, 0, 120), (0, 120, 0)):
        out.append(ob("Concatenated<Concatenated<A%d, B%d>, A%d>" % (a, b, c), PAT_A[:a] + PAT_B[:b] + PAT_A[:c]))
        out.append(ob("Concatenated<A%d, Concatenated<B%d, A%d>>" % (a, b, c), PAT_A[:a] + PAT_B[:b] + PAT_A[:c]))
        n += 2
    for a, b, c, e in ((10, 10, 10, 10), (40, 40, 40, 4), (4, 40, 40, 40), (70, 40, 0, 7), (0, 70, 40, 7), (26, 25, 25, 25)):
        text = PAT_A[:a] + PAT_B[:b] + PAT_A[:c] + PAT_B[:e]
        out.append(ob("Concatenated<Concatenated<Concatenated<A%d, B%d>, A%d>, B%d>" % (a, b, c, e), text))
        out.append(ob("Concatenated<A%d, Concatenated<B%d, Concatenated<A%d, B%d>>>" % (a, b, c, e), text))
        out.append(ob("Concatenated<Concatenated<A%d, B%d>, Concatenated<A%d, B%d>>" % (a, b, c, e), text))
        n += 3
    # the const table is actually in use for short names (coverage of the table path, stated separately from the contract): at least the
    # sizes the macro produces for ordinary field names resolve without allocation
    for a, b in ((0, 0), (3, 4), (20, 20)):
        out.append("const _: () = assert!(<Concatenated<A%d, B%d> as MaybeConstStr>::HAVE_VAL);" % (a, b))
        n += 1
    return "\n".join(out) + "\n", n


# compile-fail witnesses: (id, property, error code, prelude, failing line, passing twin line)
CF = [
    ("w19_second_to_byte", "C19", "E0277", "use metrique_writer_core::unit::*;", "let _ = <Second as Convert<Byte>>::RATIO;", "let _ = <Second as Convert<Millisecond>>::RATIO;"),
    ("w19_byte_to_second", "C19", "E0277", "use metrique_writer_core::unit::*;", "let _ = <Byte as Convert<Second>>::RATIO;", "let _ = <Byte as Convert<Kilobit>>::RATIO;"),
    ("w19_count_to_second", "C19", "E0277", "use metrique_writer_core::unit::*;", "let _ = <Count as Convert<Second>>::RATIO;", "let _ = <None as Convert<Second>>::RATIO;"),
    ("w19_string_with_unit", "C19", "E0277", "use metrique_writer_core::{unit::*, Value};\nfn is_value<T: Value>() {}", "is_value::<WithUnit<String, Second>>();", "is_value::<WithUnit<core::time::Duration, Second>>();"),
    ("w05_join_handle_not_clone", "C05", "E0277", "fn is_clone<T: Clone>() {}", "is_clone::<metrique_writer::sink::BackgroundQueueJoinHandle>();", "is_clone::<metrique_writer::BoxEntrySink>();"),
    ("w06_owner_not_clone", "C06", "E0277", "fn is_clone<T: Clone>() {}\nuse metrique::{AppendAndCloseOnDrop, RootMetric};\nuse metrique::writer::BoxEntrySink;\nstruct E; impl metrique::CloseValue for E { type Closed = metrique_writer::core::entry::EmptyEntry; fn close(self) -> Self::Closed { Default::default() } }",
     "is_clone::<metrique::FlushGuard>();", "is_clone::<metrique::writer::BoxEntrySink>();"),
    ("w13_slot_guard_not_clone", "C13", "E0277", "fn is_clone<T: Clone>() {}", "is_clone::<metrique::SlotGuard<u64>>();", "is_clone::<u64>();"),
    ("w15_value_writer_used_twice", "C15", "E0382", "use metrique_writer_core::ValueWriter;\nfn f(w: impl ValueWriter) {", "w.string(\"a\"); w.string(\"b\"); }", "w.string(\"a\"); }"),
    ("w17_thread_local_guard_not_send", "C17", "E0277", "fn is_send<T: Send>() {}", "is_send::<metrique_writer_core::global::ThreadLocalTestSinkGuard>();", "is_send::<metrique_writer_core::global::TokioRuntimeTestSinkGuard>();"),
]


def gen_compile_fail():
    out = ["//! compile-fail witnesses, each paired with a compiling twin that differs only in the offending line (generated)"]
    for wid, prop, code, pre, bad, good in CF:
        out.append("/// witness %s (%s)" % (wid, prop))
        out.append("/// ```compile_fail,%s" % code)
        for l in (pre + "\n" + bad).splitlines():
            out.append("/// " + l)
        out.append("/// ```")
        out.append("/// twin:")
        out.append("/// ```no_run")
        for l in (pre + "\n" + good).splitlines():
            out.append("/// " + l)
        out.append("/// ```")
        out.append("pub struct %s;" % ("W_" + wid))
        out.append("")
    return "\n".join(out) + "\n"


def witness_key(repo):
    h = hashlib.sha256(extract.tree_key(repo).encode())
    with open(__file__, "rb") as f:
        h.update(f.read())
    return h.hexdigest()[:20]


def run_witness(repo=None):
    """build + run the witness crate for the current tree; returns dict with per-group results (cached by tree key)"""
    repo = repo or extract.REPO
    key = witness_key(repo)
    root = os.path.join(extract.CACHE, "witness")
    os.makedirs(root, exist_ok=True)
    resf = os.path.join(root, key + ".json")
    def _cached():
        # (a result file cut short by a full disk is no result)
        try:
            with open(resf) as f:
                return json.load(f)
        except (OSError, ValueError):
            return None
    if os.path.exists(resf):
        r_ = _cached()
        if r_ is not None:
            return r_
    # parallel self-test workers (extract.WORKER set) build in their own crate / target directory, so that they do not queue on one lock
    wsuf = ("-" + str(extract.WORKER)) if getattr(extract, "WORKER", "") else ""
    with open(os.path.join(extract.CACHE, "lock-witness" + wsuf), "w") as lk:
        fcntl.flock(lk, fcntl.LOCK_EX)
        if os.path.exists(resf):
            r_ = _cached()
            if r_ is not None:
                return r_
        d = os.path.join(root, "crate" + wsuf)
        shutil.rmtree(d, ignore_errors=True)
        os.makedirs(os.path.join(d, "src"))
        feats = {"metrique-writer-core": ["test-util"], "metrique-writer": [], "metrique": [], "metrique-core": []}
        deps = "\n".join('%s = { path = "%s"%s }' % (n, os.path.join(repo, n), (', features = %s' % json.dumps(fs)) if fs else "") for n, fs in feats.items())
        with open(os.path.join(d, "Cargo.toml"), "w") as f:
            f.write('[package]\nname = "mqwitness"\nversion = "0.0.0"\nedition = "2024"\n\n[workspace]\n\n[dependencies]\n%s\n\n[lib]\ndoctest = true\n' % deps)
        shutil.copy(os.path.join(repo, "Cargo.lock"), os.path.join(d, "Cargo.lock"))
        units, n_units = gen_units()
        concat, n_concat = gen_concat()
        for name, src in (("units", units), ("concat", concat), ("cf", gen_compile_fail())):
            with open(os.path.join(d, "src", name + ".rs"), "w") as f:
                f.write(src)
        with open(os.path.join(d, "src", "lib.rs"), "w") as f:
            f.write("pub mod cf;\n")
        # scratch trees (mutant / seed worktrees at changing paths) get their own build directory, emptied when it grows: path
        # dependencies at a new path rebuild everything and would otherwise pile up in the main one
        scratch = os.path.realpath(repo) != os.path.realpath("/repo")
        tdir = os.path.join(extract.CACHE, ("target-witness-scratch" + wsuf) if scratch else "target-witness")
        if scratch and os.path.isdir(tdir):
            try:
                sz = int(subprocess.run(["du", "-sm", tdir], capture_output=True, text=True).stdout.split()[0])
            except Exception:
                sz = 0
            if sz > 3000:
                shutil.rmtree(tdir, ignore_errors=True)
        env = dict(os.environ, CARGO_NET_OFFLINE="true", CARGO_TARGET_DIR=tdir, RUSTFLAGS="-Awarnings")
        env.pop("RUSTC_WORKSPACE_WRAPPER", None)
        res = {"key": key, "groups": {}, "wall_s": 0}
        t0 = time.time()

        def check_group(name, n):
            with open(os.path.join(d, "src", "lib.rs"), "w") as f:
                f.write("pub mod cf;\npub mod %s;\n" % name)
            r = subprocess.run(["cargo", "+nightly", "check", "--offline", "-q", "--lib"], cwd=d, env=env, capture_output=True, text=True)
            errs = re.findall(r"error(?:\[E\d+\])?: ([^\n]*)(?:\n(?!\s*-->)[^\n]*)*?\n\s+--> src/%s.rs:(\d+)" % name, r.stderr)
            failed = []
            src = open(os.path.join(d, "src", name + ".rs")).read().splitlines()
            for msg, line in errs:
                failed.append({"line": int(line), "obligation": src[int(line) - 1][:700], "error": msg[:200]})
            other = r.returncode != 0 and not failed
            res["groups"][name] = {"obligations": n, "discharged": n - len({f["line"] for f in failed}) if not other else 0,
                                   "failed": failed[:20], "build_error": (r.stderr[:1500] + "\n...\n" + r.stderr[-600:] if len(r.stderr) > 2100 else r.stderr) if other else ""}
        check_group("units", n_units)
        check_group("concat", n_concat)
        with open(os.path.join(d, "src", "lib.rs"), "w") as f:
            f.write("pub mod cf;\n")
        r = subprocess.run(["cargo", "+nightly", "test", "--doc", "--offline"], cwd=d, env=env, capture_output=True, text=True)
        out = r.stdout + r.stderr
        cf = {}
        for wid, prop, code, pre, bad, good in CF:
            # doctest names: src/cf.rs - cf::W_<id> (line N) [- compile fail]
            lines = [l for l in out.splitlines() if ("W_" + wid + " ") in l and l.startswith("test ")]
            fail_l = [l for l in lines if "compile fail" in l]
            twin_l = [l for l in lines if "compile fail" not in l]
            cf[wid] = {"property": prop, "code": code,
                       "witness_ok": bool(fail_l) and all(l.rstrip().endswith("ok") for l in fail_l),
                       "twin_ok": bool(twin_l) and all(l.rstrip().endswith("ok") for l in twin_l),
                       "failing_line": bad, "twin_line": good}
        res["groups"]["compile_fail"] = cf
        res["doc_output_tail"] = out[-1500:] if r.returncode != 0 else ""
        res["wall_s"] = round(time.time() - t0, 1)
        with open(resf + ".tmp", "w") as f:
            json.dump(res, f, indent=1)
        os.replace(resf + ".tmp", resf)
        # keep the cache small
        for fn in os.listdir(root):
            try:
                if fn.endswith(".json") and fn != key + ".json" and time.time() - os.path.getmtime(os.path.join(root, fn)) > 3600:
                    os.remove(os.path.join(root, fn))
            except OSError:
                pass          # another worker removed it first
        return res


def report_group(ctx, rule, res, name, what):
    g = res["groups"].get(name, {})
    if g.get("build_error"):
        ctx.bad(rule, "witness-%s#build" % name, "", "witness crate does not build against this tree: %s" % g["build_error"][:900])
        return
    n, d = g.get("obligations", 0), g.get("discharged", 0)
    for f in g.get("failed", []):
        ob = re.sub(r"\s+", " ", f["obligation"])
        m = re.search(r"assert!\((.*)\);", ob)
        subj = re.search(r"assert!\(!?<(.+?) as (?:MaybeConstStr|Convert<.+?>|UnitTag)>", ob)
        label = subj.group(1) if subj and name == "concat" else (m.group(1) if m else ob)
        ctx.bad(rule, "witness-%s#%s" % (name, label[:140]), "generated %s.rs:%d" % (name, f["line"]),
                "the compiler's constant evaluator refutes the obligation `%s` (%s)" % ((m.group(1) if m else ob)[:420], f["error"][:120]))
    if d:
        ctx.ok(rule, "witness-%s#%d-const-obligations" % (name, d), "", "%d of %d %s discharged by rustc's constant evaluator" % (d, n, what))
    ctx.extra_obligations = getattr(ctx, "extra_obligations", 0) + n
    ec = dict(getattr(ctx, "extra_cov", None) or {})
    ec.setdefault("const_obligations", {})[name] = {"obligations": n, "discharged": d, "checker": "cargo +nightly check (rustc constant evaluator) on the generated witness crate"}
    ctx.extra_cov = ec


def report_cf(ctx, rule, res, prop):
    cf = res["groups"].get("compile_fail", {})
    for wid, w in cf.items():
        if w["property"] != prop:
            continue
        ctx.check(w["witness_ok"] and w["twin_ok"], rule, "witness#" + wid, "generated cf.rs",
                  "compile-fail witness `%s` %s (offending line: `%s`)" % (
                      wid, "now COMPILES: the type system no longer rejects this misuse" if not w["witness_ok"] else "has a twin that no longer compiles (witness would pass vacuously)", w["failing_line"]),
                  "does not type-check (%s); twin compiles" % w["code"])

"""Shared helpers for rules (G1/G2/G4/G9 on top of facts.Body)."""
from .prov import op_place, op_const, op_local, has_deref, place_fields, Prov

WS_LIBS = ["metrique", "metrique_aggregation", "metrique_core", "metrique_metricsrs", "metrique_service_metrics",
           "metrique_timesource", "metrique_writer", "metrique_writer_core", "metrique_writer_format_emf"]


def is_noise(cs):
    """tracing / fmt plumbing that no rule is about"""
    d = cs.def_
    if d.startswith("tracing") or d.startswith("core::fmt") or d.startswith("tracing_core"):
        return True
    e = cs.exp or ""
    return "tracing::" in e or "macro:$crate::event" in e or "macro:$crate::span" in e


def loc(body, bb=None, line=None):
    if line is None and bb is not None:
        t = body.term(bb)
        line = t.get("line")
    return "%s:%s" % (body.file, line if line is not None else body.line)


def fnkey(body):
    """stable function identifier without line numbers / generic parameter lists"""
    return body.path


def exactly_once(body, site_bbs, start=0, exits=None):
    """(min, max) executions of the given call blocks over all normal paths start->Return are both 1.
    returns (ok, why)"""
    site_bbs = list(dict.fromkeys(site_bbs))
    if not site_bbs:
        return False, "no site"
    if not body.must_pass(site_bbs, start=start, exits=exits):
        return False, "a normal path reaches the exit without passing any site"
    for s in site_bbs:
        after = body.reachable_after(s)
        hit = [x for x in site_bbs if x in after]
        if hit:
            return False, "site bb%d can be followed by site bb%d on one path" % (s, hit[0])
    return True, ""


def at_most_once(body, site_bbs):
    for s in site_bbs:
        after = body.reachable_after(s)
        hit = [x for x in site_bbs if x in after]
        if hit:
            return False, "site bb%d can be followed by site bb%d" % (s, hit[0])
    return True, ""


def dominates(body, a, b, dom=None):
    dom = dom or body.dominators()
    return b in dom and a in dom[b]


def local_callee_bodies(F, cs, crate=None):
    """workspace bodies a call site may dispatch to (by resolved def path, generics stripped)"""
    from .facts import strip_generics
    out = []
    by_uid = getattr(F, "by_uid", {})
    for u in (cs.callee.get("resolved_uid"), cs.callee.get("uid")):
        if u and u in by_uid and not by_uid[u].crate.endswith("#test"):
            return [by_uid[u]]
    for cand in (cs.callee.get("resolved"), cs.callee.get("def")):
        if not cand:
            continue
        p = strip_generics(cand)
        for b in F.by_path.get(p, []):
            if b.crate.endswith("#test"):
                continue
            if b not in out:
                out.append(b)
        if out:
            break
    if not out and cs.callee.get("trait") and not cs.callee.get("resolved"):
        # a method of a workspace trait called on a generic receiver: when the trait has exactly one implementor in the workspace (a
        # private seam trait), that implementor's method is what runs
        tr = cs.callee["trait"]
        impls = [i for i in F.impls if i.get("trait") == tr and not i["crate"].endswith("#test")]
        if len(impls) == 1 and tr.startswith("metrique"):
            for it in impls[0]["items"]:
                if it.get("name") == cs.callee.get("name"):
                    b = F.bodies.get((impls[0]["crate"], it.get("uid") or it["def"]))
                    if b is not None:
                        out.append(b)
    return out


def fn_operand_bodies(F, body, op):
    """bodies a function-valued operand can stand for: a closure built in `body`, or a named function of the workspace used as a value
    (`Guard::new(|| ..)` and `Guard::new(clear_it)` are the same thing)"""
    out = []
    for o in Prov(body).operand(op):
        if o[0] == "agg" and isinstance(o[1], str) and "{closure" in o[1]:
            cb = F.bodies.get((body.crate, o[1]))
            if cb is not None:
                out.append(cb)
        elif o[0] == "const" and isinstance(o[1], tuple) and o[1][0] in ("fn", "closure"):
            for b in F.bodies.values():
                if b.def_ == o[1][1] or b.path == o[1][1]:
                    out.append(b)
    cl = closure_for_operand(F, body, op)
    if cl is not None and cl not in out:
        out.append(cl)
    return out


def fn_item_args(F, cs):
    """bodies of named functions of the workspace passed to this call as function items (`iter.filter_map(helper)`)"""
    out = []
    for ent in cs.callee.get("fn_args", []):
        if ent[1] == "fn":
            if len(ent) > 3 and ent[3] in getattr(F, "by_uid", {}):
                out.append(F.by_uid[ent[3]])
                continue
            for b in F.bodies.values():
                if b.def_ == ent[2]:
                    out.append(b)
    return out


def closure_args(F, cs):
    """closure bodies passed (as generic fn args or closure-typed operands) to this call"""
    out = []
    for ent in cs.callee.get("fn_args", []):
        if ent[1] == "closure":
            if len(ent) > 3 and ent[3] in getattr(F, "by_uid", {}):
                out.append(F.by_uid[ent[3]])
                continue
            for b in F.bodies.values():
                if b.def_ == ent[2] and b.crate == cs.body.crate:
                    out.append(b)
    for a in cs.args:
        l = op_local(a)
        if l is not None:
            h = cs.body.locals[l].get("head", {})
            if "closure" in h:
                if h.get("closure_uid") in getattr(F, "by_uid", {}):
                    if F.by_uid[h["closure_uid"]] not in out:
                        out.append(F.by_uid[h["closure_uid"]])
                    continue
                for b in F.bodies.values():
                    if b.def_ == h["closure"] and b.crate == cs.body.crate and b not in out:
                        out.append(b)
    return out


def reaches_call(F, body, pred, depth=4, _seen=None, through_closures=True):
    """does `body` (transitively through workspace callees, to `depth`) contain a call satisfying pred?
    returns the list of (body, callsite) witnesses (first found per direct site)"""
    seen = _seen if _seen is not None else set()
    if body.def_ in seen:
        return []
    seen.add(body.def_)
    out = []
    for cs in body.calls():
        if pred(cs):
            out.append((body, cs))
            continue
        if depth > 0:
            subs = local_callee_bodies(F, cs)
            if through_closures:
                subs = subs + closure_args(F, cs)
            for sb in subs:
                w = reaches_call(F, sb, pred, depth - 1, seen, through_closures)
                if w:
                    out.append((body, cs))
                    break
    return out


def sites_reaching(F, body, pred, depth=4):
    """direct call sites in body that are, or lead to, a call satisfying pred"""
    res = []
    for cs in body.calls():
        if pred(cs):
            res.append(cs)
            continue
        subs = local_callee_bodies(F, cs) + closure_args(F, cs)
        for sb in subs:
            if reaches_call(F, sb, pred, depth - 1, set()):
                res.append(cs)
                break
    return res


def arg_field_origin(body, op, prov=None):
    """field names of `self`/args that an operand derives from: set of (arg local, fields tuple)"""
    prov = prov or Prov(body)
    return Prov.args_of(prov.operand(op))


# ---------------------------------------------------------------------------------------------------
# G4+G6: linear use of a by-value local (moved into exactly one consuming call, never dropped while live)
from .sim import Sim, Budget, pkey


class Linear(Sim):
    """automaton state: local currently holding the value | ('C', what) consumed | 'R' returned"""

    def __init__(self, body, start_local, carriers=None, lend=None):
        super().__init__(body)
        self.start = start_local
        self.carriers = carriers or (lambda cs: False)
        self.lend = lend            # optional predicate(cs, arg index): lending `&value` to this call hands the value on (it is read there)
        self.carried = {}
        self.consumers = {}     # bb -> (term, arg index)
        self.stored = {}        # (bb, idx) -> stmt
        self.live_drops = {}    # bb -> path
        self.wrapped_in = {}    # local -> (adt, variant)

    def _moves_holder(self, op, a):
        return op is not None and "move" in op and op["move"]["l"] == a and not op["move"].get("p")

    def on_stmt(self, bb, idx, s, a, env):
        if not isinstance(a, int) or s["k"] != "assign":
            return a
        rv = s["rv"]
        ops = []
        if rv["k"] in ("use", "cast"):
            ops = [rv["op"]]
        elif rv["k"] == "agg":
            ops = rv["ops"]
        for o in ops:
            if self._moves_holder(o, a):
                lhs = s["lhs"]
                if not lhs.get("p"):
                    if rv["k"] == "agg":
                        self.wrapped_in[lhs["l"]] = (rv.get("adt") or rv.get("agg"), rv.get("variant"))
                    return lhs["l"]
                self.stored[(bb, idx)] = s
                return ("C", "stored")
        return a

    def on_call(self, t, bb, a, env):
        if isinstance(a, int):
            for i, arg in enumerate(t.get("args", [])):
                if self._moves_holder(arg, a):
                    from .facts import CallSite
                    cs = CallSite(self.b, bb, t)
                    if self.carriers(cs) and t.get("target") is not None and not t["dest"].get("p"):
                        self.carried[bb] = cs
                        return [(t["dest"]["l"], {})]
                    self.consumers[bb] = (t, i)
                    return [(("C", bb), {})]
            if self.lend is not None:
                from .facts import CallSite
                for i, arg in enumerate(t.get("args", [])):
                    pl = op_place(arg)
                    v = env.get(pkey(pl)) if pl is not None else None
                    if isinstance(v, tuple) and v[0] in ("sref", "mref") and v[1] == str(a) and self.lend(CallSite(self.b, bb, t), i):
                        self.consumers[bb] = (t, i)
                        self.lent = getattr(self, "lent", set()) | {bb}
                        return [(("C", bb), {})]
        return None

    def on_drop(self, bb, t, a, env):
        if isinstance(a, int) and t["place"]["l"] == a and not t["place"].get("p"):
            if bb not in self.live_drops:
                self.live_drops[bb] = self.path_to()
        return a

    def go(self):
        self.run(0, self.start, {})
        return self


def check_linear(ctx, rule, body, local, allowed, what="entry", key_extra="", carriers=None, lend=None):
    """the value in `local` is, on every normal path, moved into exactly one call satisfying `allowed`
    (or handed back through the return place), and never dropped while live."""
    from .facts import CallSite
    key = fnkey(body) + "#" + what + key_extra
    try:
        lin = Linear(body, local, carriers, lend).go()
    except Budget as e:
        ctx.bad(rule, key + "-budget", loc(body), str(e))
        return None
    ok = True
    for bb, path in lin.live_drops.items():
        ok = False
        ctx.bad(rule, key + "-dropped", loc(body, bb),
                "the %s can be dropped without being handed on (Drop at bb%d while it still holds the value)" % (what, bb), path=path)
    for bb, (t, i) in lin.consumers.items():
        cs = CallSite(body, bb, t)
        permitted = allowed(cs, i) or bb in getattr(lin, "lent", ())       # (evaluated once: the predicates of some rules record what they accept)
        if not permitted and _scoped_continuation(ctx, rule, body, cs, i, allowed, what, key_extra, carriers):
            continue
        if not permitted and _private_forwarder(ctx, rule, body, cs, i, allowed, what, key_extra, carriers):
            continue
        if not permitted:
            ok = False
            ctx.bad(rule, key + "-consumed-by-" + (cs.name or "?"), loc(body, bb),
                    "the %s is moved into `%s`, which is not one of the permitted destinations" % (what, cs.def_ or "fn pointer"))
    for (bb, idx), s in lin.stored.items():
        if not allowed(None, (bb, idx, s)):
            ok = False
            ctx.bad(rule, key + "-stored", loc(body, bb), "the %s is moved into a field (%s) instead of being handed on" % (what, pkey_(s["lhs"])))
    # returned-without-consumption states
    ret_holders = set()
    for bb, a, env in lin.returns:
        if isinstance(a, int) and a != 0:
            ret_holders.add(a)
    if not lin.consumers and not lin.stored and not any(isinstance(a, int) and a == 0 for _, a, _ in lin.returns):
        ok = False
        ctx.bad(rule, key + "-never-consumed", loc(body), "no normal path hands the %s to a consumer" % what)
    if ok:
        ctx.ok(rule, key, loc(body), "consumers: %s" % sorted({CallSite(body, bb, t).name for bb, (t, i) in lin.consumers.items()}))
    return lin


def _private_forwarder(ctx, rule, body, cs, i, allowed, what, key_extra, carriers, _depth=[0]):
    """the value was handed to a private function of the same crate (`self.enqueue(message)`): the obligation continues on that
    function's parameter - it must be moved into exactly one permitted destination there"""
    F = getattr(ctx, "_scoped_F", None) or ctx.facts("dbg")
    if _depth[0] > 1:
        return False
    helpers = [hb for hb in local_callee_bodies(F, cs) if hb.kind != "Closure" and hb.crate == body.crate and not (hb.impl or {}).get("trait")
               and len(cs.args) == hb.arg_count]
    if not helpers:
        return False
    _depth[0] += 1
    try:
        good = True
        for hb in helpers:
            sub = _Quiet(ctx)
            lin = check_linear(sub, rule, hb, i + 1, allowed, what=what, key_extra=key_extra + "@" + hb.name, carriers=carriers)
            good = good and lin is not None and not sub.failed
        return good
    finally:
        _depth[0] -= 1


class _Quiet:
    """a ctx that records whether something failed without reporting it (the caller reports in its own terms)"""
    def __init__(self, ctx):
        self._c, self.failed = ctx, False

    def __getattr__(self, n):
        return getattr(self._c, n)

    def bad(self, *a, **k):
        self.failed = True

    def ok(self, *a, **k):
        pass

    def check(self, cond, *a, **k):
        if not cond:
            self.failed = True
        return cond


def _scoped_continuation(ctx, rule, body, cs, i, allowed, what, key_extra, carriers, _depth=[0]):
    """the value was moved into a closure that is handed to a private `with_x(|..| ..)` helper which runs the closure exactly once on every
    path (typically under a lock it takes): the linear-use obligation continues inside the closure for the captured value"""
    F = getattr(ctx, "_scoped_F", None) or ctx.facts("dbg")
    if _depth[0] > 2 or i >= len(cs.args):
        return False
    cl = closure_for_operand(F, body, cs.args[i])
    if cl is None:
        return False
    helpers = [hb for hb in local_callee_bodies(F, cs) if hb.kind != "Closure"]
    if not helpers:
        return False
    for hb in helpers:
        # parameter i+1 of the helper is invoked exactly once on every path, and goes nowhere else
        inv = []
        for c in hb.calls():
            if ("callee_op" in c.term or (c.name in ("call_once", "call_mut", "call") and "ops::function" in c.def_)):
                src = (Prov(hb).operand(c.args[0]) if c.args else set()) if "callee_op" not in c.term else Prov(hb).operand(c.term["callee_op"])
                if any(x[0] == "arg" and x[1] == i + 1 for x in src):
                    inv.append(c.bb)
        ok, why = exactly_once(hb, inv)
        if not ok:
            return False
    # the captured value inside the closure: locals that receive a by-value upvar of the closure environment
    roots = []
    for bi in cl.live_blocks():
        for st in cl.stmts(bi):
            if st["k"] == "assign" and not st["lhs"].get("p") and st["rv"]["k"] == "use" and "move" in st["rv"]["op"]:
                src = st["rv"]["op"]["move"]
                if src["l"] == 1 and [e[0] for e in src.get("p", [])] in (["f"], ["deref", "f"]):
                    roots.append(st["lhs"]["l"])
    # (an upvar used directly as a call argument: `inner.merge(move (_1.0))`)
    direct = []
    for c in cl.calls():
        for ai, a in enumerate(c.args):
            if "move" in a and a["move"]["l"] == 1 and [e[0] for e in a["move"].get("p", [])] in (["f"], ["deref", "f"]):
                direct.append((c, ai))
    if not roots and not direct:
        return False
    _depth[0] += 1
    try:
        good = True
        for r in roots:
            good = check_linear(ctx, rule, cl, r, allowed, what=what, key_extra=key_extra + "@closure", carriers=carriers) is not None and good
        for c, ai in direct:
            if not allowed(c, ai):
                ctx.bad(rule, fnkey(cl) + "#" + what + key_extra + "-consumed-by-" + (c.name or "?"), loc(cl, c.bb),
                        "the %s captured by the closure is moved into `%s`, which is not one of the permitted destinations" % (what, c.def_ or "fn pointer"))
                good = False
            elif cl.bb_in_loop(c.bb) if hasattr(cl, "bb_in_loop") else (c.bb in cl.reachable_after(c.bb)):
                good = False
        return good
    finally:
        _depth[0] -= 1


def pkey_(place):
    from .sim import pkey
    return pkey(place)


def always_reaches(F, body, pred, depth=3, _stack=()):
    """every normal path entry->Return of `body` passes a call that satisfies pred, directly or through a workspace
    callee / closure argument for which the same holds (must-pass-through, interprocedural to `depth`)"""
    if body.def_ in _stack:
        return False
    sites = []
    for cs in body.calls():
        if pred(cs):
            sites.append(cs.bb)
        elif depth > 0:
            subs = local_callee_bodies(F, cs)
            # a closure passed to FnOnce::call_once-style invocation is handled by the caller binding, not here
            if subs and all(always_reaches(F, sb, pred, depth - 1, _stack + (body.def_,)) for sb in subs):
                sites.append(cs.bb)
    if not sites:
        return False
    return body.must_pass(sites)


def closure_for_operand(F, body, op):
    """closure body whose aggregate flows into operand `op` (e.g. a closure passed as an argument)"""
    l = op_local(op)
    if l is None:
        return None
    h = body.locals[l].get("head", {})
    if "closure" in h:
        if h.get("closure_uid") in getattr(F, "by_uid", {}):
            return F.by_uid[h["closure_uid"]]
        return F.bodies.get((body.crate, h["closure"]))
    return None


def switch_on_call_result(body, cs):
    """switch blocks whose discriminant is (derived directly from) the result local of call `cs`;
    returns list of (switch bb, {value: target}, otherwise)"""
    out = []
    if cs.dest.get("p"):
        return out
    dl = cs.dest["l"]
    pr = Prov(body)
    for i in body.live_blocks():
        t = body.term(i)
        if t["k"] != "switch":
            continue
        o = pr.operand(t["discr"])
        if ("call", cs.bb) in o or ("via", cs.bb) in o:
            out.append((i, {v: tb for v, tb in t["targets"]}, t["otherwise"]))
    return out

// Reproduction of known finding F4 (property C08), kept as documentation; it is NOT part of the static machinery.
// Drop into metrique-writer-format-emf/tests/ of a scratch worktree and run
//   cargo test -p metrique-writer-format-emf --test F4_split_dimension_duplicate_member --offline
// The test passes on the pinned tree, i.e. it demonstrates the defect: with every validation on, an entry that writes
// the string property "Op" and a metric with the per-metric dimension "Op" (split mode) is accepted and the split line
// contains the member "Op" twice.
use metrique_writer::{Entry, EntryWriter, format::Format as _, value::WithDimensions};
use metrique_writer_format_emf::{AllowSplitEntries, Emf};
use std::time::{Duration, SystemTime};

struct E;
impl Entry for E {
    fn write<'a>(&'a self, w: &mut impl EntryWriter<'a>) {
        w.timestamp(SystemTime::UNIX_EPOCH + Duration::from_secs(1));
        w.config(const { &AllowSplitEntries::new() });
        w.value("Op", "from-string");
        w.value("Latency", &WithDimensions::new(1u64, "Op", "from-dimension"));
    }
}

#[test]
fn duplicate_member_is_accepted() {
    let mut emf = Emf::all_validations("NS".into(), vec![vec![]]);
    let mut out = Vec::new();
    emf.format(&E, &mut out).expect("accepted although it emits a duplicate member");
    let s = String::from_utf8(out).unwrap();
    let split_line = s.lines().find(|l| l.contains("Latency")).unwrap();
    assert_eq!(split_line.matches("\"Op\":").count(), 2, "{split_line}");
}

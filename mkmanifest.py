#!/usr/bin/env python3
"""Generates MANIFEST.json from the table below (kept in one place so the manifest is always valid)."""
import json, os
HERE = os.path.dirname(os.path.abspath(__file__))

TECH = "static analysis: custom rustc_private MIR driver (mqfacts) + rule library over CFG/def-use/typestate facts"
NOTE = ("Trusted base: rustc's type checker, trait resolution and MIR construction; API summaries of std/crossbeam/tokio "
        "listed in DESIGN.md (appendix to §7). Decides the named structural clauses on every path / every instantiation; "
        "clauses that quantify over runtime values, schedules or histories are not decided (see DESIGN.md §0).")

CHECKS = {
    # id: (level text, design ref, technique, level_note extra)
    "C05": ("All normal paths of the join-handle destructor, the writer-thread entry and the shutdown routine are enumerated "
            "through dominator/must-pass queries on MIR: store(true)<join; every Return of the thread entry passes drain<flush<"
            "drop(stream); no Arc uniqueness test is made while the body holds a live clone; Return reachable from both exit tests; "
            "attach-handle destructor takes and drops (sink, handle). Exhaustive over paths, silent on timing.",
            "§4 C05", "MIR path rules (dominators, must-pass-through, liveness of Arc clones) via rustc_private driver"),
    "C17": ("Dominance + branch exclusion for the thread-local > runtime > attached precedence, path-sensitive linearity (drop-flag "
            "aware) for 'entry goes to exactly one destination or is handed back', guard-liveness at every explicit panic, and "
            "restore-on-drop of each guard, on the macro instance compiled into metrique-service-metrics.",
            "§4 C17", "MIR dominance, path-sensitive linear-use and guard-liveness typestate via rustc_private driver"),
}

CHECKS.update({
    "C01": ("Linear-use (drop-flag aware, path-sensitive) proof that each appended entry is moved into exactly one ring insertion and each "
            "popped entry into exactly one EntryIoStream::next on every path; control-independence of the drain loop from stream results; "
            "who-may-call closure of next/flush on the receiver's stream. Exhaustive over paths and call sites of the workspace; says "
            "nothing about cross-thread ordering (ArrayQueue, scheduler).", "§4 C01",
            "MIR linear-use typestate + who-may-call + provenance of branch conditions via rustc_private driver"),
    "C04": ("Dominance rules: every release of the waiting-waker vector is dominated by the stream flush (closure bound at the call site "
            "must flush on every path), tracker dropped at thread exit only after the shutdown routine, tracker arguments originate from "
            "the dominating drain, bound derives from the ring; dead-queue flush never unwraps. Safety skeleton only; no liveness claim.",
            "§4 C04", "MIR dominance + provenance (sync-before-acknowledge rule) via rustc_private driver"),
    "C09": ("Call-graph reachability to a deny list of blocking primitives from the append entry points; linear move of the entry into a "
            "displace-oldest insertion; overflow counter amount/guards/loop-freedom. Exhaustive over the workspace call graph (depth 5).",
            "§4 C09", "call-graph reachability (effect deny-list) + MIR linear-use + control-dependence via rustc_private driver"),
    "C14": ("Every field of the formatter state is classified by write reachability; each scratch field must be reset before (or after) "
            "every use on all paths of a format call; per-call writer built from constants/config; statics enumerated. This is the whole "
            "mechanism behind the property, decided for all paths and for any future field.", "§4 C14",
            "who-may-write classification + reset-dominates-use (interprocedural through &mut parameters) via rustc_private driver"),
    "C16": ("No I/O result discarded anywhere in the library crates; the vectored-write retry loop's arms (Ok(0), Ok(n), Interrupted, hard "
            "error, exit condition, io-slice rebuild) checked as path rules; sinks never unwrap stream results; tee calls both streams on "
            "every path. Byte arithmetic of advance_slices is not decided.", "§4 C16",
            "unused-result dataflow + loop/arm path rules on MIR via rustc_private driver"),
})

CHECKS.update({
    "C02": ("Taint analysis from caller strings to raw appends (with derived sinks for private helpers and a who-may-write closure over "
            "the clean wrapper types); path-sensitive separator/member typestate with per-variant callee summaries and snapshot rollback "
            "over every buffer-appending region; dominance of the validation verdict over every use of the writer; newline framing of the "
            "last vectored buffer. All paths of the formatter, every configuration-independent clause; grammar of runtime prefixes not decided.",
            "§4 C02", "taint dataflow + typestate simulation (ESP-style) + dominance on MIR via rustc_private driver"),
    "C03": ("Provenance rules: every written count carries the sampling multiplicity (saturating), threaded unchanged from the format "
            "call; definition/value buffers share one owner; skipped metrics are rolled back and never declared; both emission branches "
            "replicate every namespace. Structural clauses only; numbers are runtime values.", "§4 C03",
            "def-use provenance + dominance/rollback path rules on MIR via rustc_private driver"),
    "C08": ("Constant propagation of the validation switches through the constructor chain on two compiled configurations (debug "
            "assertions on and off); member-emission => uniqueness-registration pairing over all emission sites; verdict before bytes; "
            "control-dependence regions of the validation switches contain no output effects. One known finding (F4) is listed.",
            "§4 C08", "inter-procedural constant propagation on two build profiles + pairing / control-dependence rules on MIR"),
    "C12": ("Predicate normalisation of the sampling decision (emit <=> draw <= rate, same rate origin passed on), guard dominance for "
            "non-positive/NaN rates, who-may-write rule for stored congressional rates (1.0 or min(.,1.0)). Expectation/budget claims are "
            "numeric and not decided.", "§4 C12", "branch-condition provenance + who-may-write on MIR via rustc_private driver"),
})

CHECKS.update({
    "C10": ("Drop-flag aware linear-use checks for every sink-level merge/insert/send body and every AggregateValue strategy; drain-loop "
            "rule for flush (one append per drained item, built from closed key and aggregate); tee symmetry; worker message protocol "
            "(merge once per Entry, ack dominated by flush) and termination (Return reachable from the disconnected outcome through a "
            "final flush). Exhaustive over paths of these bodies; arithmetic of sums/histograms not decided.", "§4 C10",
            "MIR linear-use typestate + must-pass-through / reachability rules via rustc_private driver"),
    "C20": ("Who-may-touch rule on the atomic cells under readout (exactly one read-modify-write feeds the reported counter value; gauges "
            "only loaded; histograms via atomic drain), provenance rules for the entry writer (name, labels, described unit, observation "
            "kind), registration shares registry storage, reporter appends every readout. Races themselves rest on AtomicU64::swap semantics.",
            "§4 C20", "who-may-call on atomic operations + def-use provenance on MIR via rustc_private driver"),
})

CHECKS.update({
    "C06": ("Ordering/multiplicity of take<close<append in the one emission site (exactly once on every path), who-may-call closure of "
            "EntrySink::append and of the shared-cell clone, construction-site rules for guard tokens and force-flush guards, absence of "
            "leak primitives, Clone/DerefMut impl tables. Drop order across threads rests on Arc/Mutex semantics and is not decided.",
            "§4 C06", "MIR path counting + who-may-call + impl-table queries via rustc_private driver"),
    "C13": ("Destructor rule (send exactly once with the closed value; the flush-guard field untouched before the send), call-graph "
            "deny-list for waiting primitives from close(), provenance of the handed-out guard and of the stored mode, type-structure "
            "facts. Thread placement of drops is not decided.", "§4 C13",
            "MIR path rules + call-graph reachability + provenance + ADT field facts via rustc_private driver"),
    "C15": ("Forwarders are discovered from the impl table (pointer-like wrappers, ADTs with a field of a same-trait-bound type parameter, "
            "the object-safe Dyn* bridge, cross-trait adapters) and each method is checked: exactly-once forwarding per inner value on "
            "every path, positional parameter provenance through order-preserving adapters only, additions chained after incoming items, "
            "flags merged, sample_group returned. Holds for every instantiation because the MIR is polymorphic.", "§4 C15",
            "impl-table discovery + per-method provenance / path-counting on polymorphic MIR via rustc_private driver"),
    "C18": ("Per-operation effect sets of both guard implementations, the two duration representations, Stopwatch and Timer compared "
            "with the reference table and with each other (sibling cross-check); injected time source provenance; precedence chain of "
            "get_time_source. Composition over histories is an induction on paper; clock values are runtime.", "§4 C18",
            "effect-summary extraction + sibling comparison + provenance on MIR via rustc_private driver"),
})

CHECKS.update({
    "C07": ("The type-level half of naming is decided completely: 24 associated-type definitions of the four NameStyle impls compared "
            "(as definitions generic in PREFIX) with the table derived from the trait's GAT parameter names; every arm of the 0..=100 "
            "concatenation table checked on the MIR of the associated const and, independently, by 400+ const assertions discharged by "
            "rustc's constant evaluator. The proc macro's procedural string code is explicitly NOT decided (would need running the macro).",
            "§4 C07", "associated-type table check + MIR switch-arm check + const-evaluated obligations (compile-time witness crate)"),
    "C11": ("Arm tables of the three observation-capture copies (recording call, count origin, guard, once-per-observation) against the "
            "reference and against each other; drain closures (filter count>0, occurrences from Bucket::count(), total = scale_down(midpoint)"
            "*count); atomic vs non-atomic strategy agreement incl. bucket configuration. All numeric error bounds are not decided.",
            "§4 C11", "arm-table extraction + sibling cross-check on MIR via rustc_private driver"),
    "C19": ("872 closed constant obligations (every ordered pair of convertible units, inverses, all unit names, None->X, Duration default) "
            "enumerated exhaustively against an independent table and discharged by rustc's constant evaluator; cross-family conversion and "
            "unit-on-string rejected by the type checker (compile_fail witnesses with compiling twins); MIR rules for the converting writer "
            "and Convert::convert. Floating-point rounding of value x ratio is not decided.", "§4 C19",
            "const-evaluated obligations + compile-fail witnesses (type checker) + MIR path rules"),
})

# clauses added after the seeded rounds (DESIGN.md §9.4-§9.9); appended to the level text of the check
ADDED = {
    "C01": "In-band error report confined to the `no subscriber` branch evaluated at report time.",
    "C02": "Also: reset-before-use of every output buffer on all paths (premise of the typestate, = R14.2); the string sanitizer hands text to the serde_json escaper exactly once and never appends it raw; splice offsets are measured on encoded text. Every success writes at least one record (R02.8, C03's life-sign analysis).",
    "C03": "Also: dimension carriers rebuilt per call; a record is skipped only through the empty-value-buffer edge and every success writes a record; exact text through the escaper (= R02.6); finiteness tests decide about skipping only on clamped values (only NaN is unusable). An unsigned observation's payload is never converted to floating point on the way to the output (R03.9).",
    "C04": "Also: the entries-before-wake counter protocol inside the tracker (exact decrement, constant only with release, pure ring bound armed after every collection).",
    "C05": "Also: the drain used at shutdown stops only on ring-empty or deadline; the attach handle's detach fn is called exactly once when present.",
    "C06": "Also: a force-flush guard is a Weak of the shared guard cell on every path. The guards' release slot is filled only where it is created (no get_or_insert/insert/replace/assignment on it).",
    "C07": "Also (on the proc macro's own MIR): generator <-> trait positional agreement and the style tables; the macro's name functions bypass the container prefix only on the item's own say-so; witness obligations in contract form (LEN exact, HAVE_VAL => MAYBE_VAL exact) incl. nested chains beyond the limit. In the macro's code-generating loops no token-valued variable carries a value from one item to the next (R07.7). An item's base name leaves a name function only through the style table or as the item's explicit name (R07.8).",
    "C08": "Also: registry key not folded by lossy arithmetic; entry dimension sets adopted only after their names were registered (or with every registry-consulting switch off); reset-before-use premise (= R14.2); an accepted entry-dimensions configuration is always remembered (or an error recorded).",
    "C09": "Also: the loss is counted under the queue's own name and the recorder bridges reach no thread-local / once-initialised / static state.",
    "C10": "Also: every receive site handles Entry; the flush future sends its request and awaits the paired acknowledgement on every path (coroutine logical CFG); value-strategy operation table; the aggregate macro's generator pairs accum.#f with input.#f. The generated merge statement is unconditional (no generated control flow around the insert); every generator runs over the key/ignored filter.",
    "C11": "Also: sort-and-merge merges on exact equality of recorded values; the capture rule covers the shared-decoder form (filter_map, never a terminal adapter). From inside the per-observation loop the function is left only through the loop's own exit.",
    "C12": "Also: every group gets a fresh rate in an update; the weight's data slice is f64-only with the floor taken as f64->u64; the per-group moving average is written as a unit; every field the rate is computed from is rewritten for every group. Helpers on the weight's data slice keep no state between calls.",
    "C13": "Also: a received value is stored once per receiver (path rule across the await points of the future).",
    "C15": "Also: a `&mut self` wrapper method never writes or mutably lends one of the wrapper's own fields except to the forwarding call. The object-safe mirror traits behind the boxed entry are discovered by role (bound on the public trait, subset of its methods), with floors on what must be found; a wrapper method delegating to one private helper is judged in the helper.",
    "C16": "Also: an error on one entry cannot change what happens to later entries (= R01.3) and leaves nothing behind in the formatter's buffers (= R14.2).",
    "C17": "Also: the append to the attached sink happens under the global's read lock, in the macro's try_append and through it in the blanket append. The thread-local guard is built only after the install succeeded.",
    "C18": "Also: the stopwatch's own start field is only ever cleared; adding a span stores Some(..) on every path.",
    "C19": "Also: the product value x RATIO is emitted unaltered; a Duration is read without a truncating accessor. A collecting writer consumes observations only on paths past the `written unit == promised unit` edge (path-sensitive).",
    "C20": "Also: the units map is obtained after the registry walk; the bridge histogram's drain always sweeps the buckets and keeps no side flag. From taking a readout to appending it no suspension point and no end of body (also when the readout is taken in a closure handed to a spawn function). A readout walks the registry only with non-evicting visits.",
}
NA_PENDING = {}

def main():
    props = [json.loads(l) for l in open(os.path.join(HERE, "properties.jsonl"))]
    checks = []
    na = []
    for p in props:
        pid = p["id"]
        if pid in CHECKS:
            text, ref, tech = CHECKS[pid][:3]
            checks.append({
                "property_id": pid,
                "quick_cmd": "./check %s --tier quick" % pid,
                "thorough_cmd": "./check %s --tier thorough" % pid,
                "evidence_file": "/verif/evidence/%s.json" % pid,
                "replay_cmd_template": "./check %s --replay {path}" % pid,
                "engine": "mqfacts+mqrules",
                "level_claimed": {"category": "other", "text": text + ((" " + ADDED[pid]) if pid in ADDED else ""), "design_ref": "DESIGN.md " + ref + ", §9"},
                "level_note": NOTE,
                "technique": tech,
            })
        else:
            na.append({"property_id": pid, "reason": NA_PENDING.get(pid, "check under construction in this round (design in DESIGN.md §4); not claimed until its rules are armed and two-way tested")})
    m = {
        "version": 1,
        "setup_cmd": "./setup.sh",
        "hooks": {
            "guard": "metrique_verif",
            "enable": "none needed: the rustc_private driver reads private items, bodies and associated types directly; no instrumentation is compiled into /repo",
            "baseline_off_cmd": "cd /repo && cargo nextest run --workspace --no-fail-fast --tool-config-file pb:/w/lib/nextest.toml --profile pb --test-threads 8 --offline || (cd /repo && cargo test --workspace --no-fail-fast --offline)",
            "source_commits": [],
            "add_only": True,
        },
        "engines": [
            {"name": "mqfacts", "path": "/verif/mqfacts", "serves_properties": sorted(CHECKS), "kind_free_text": "rustc_private driver dumping MIR/ADT/impl/trait facts as JSON (RUSTC_WORKSPACE_WRAPPER under cargo +nightly check)"},
            {"name": "mqrules", "path": "/verif/mq", "serves_properties": sorted(CHECKS), "kind_free_text": "Python rule library: CFG dominators/must-pass, provenance, path-sensitive typestate simulation, who-may-call queries"},
        ],
        "checks": checks,
        "not_applicable": na,
        "notes": "Static analysis only. Findings fixed in /repo by `fix:` commits are listed in /verif/known_findings.json.",
    }
    with open(os.path.join(HERE, "MANIFEST.json"), "w") as f:
        json.dump(m, f, indent=1)
    print("MANIFEST.json: %d checks, %d not_applicable" % (len(checks), len(na)))

main()

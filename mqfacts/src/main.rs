//! mqfacts: a rustc_private driver that dumps the type-checked program (MIR, ADTs, impls, traits)
//! of every crate it compiles as a JSON fact file. Injected via RUSTC_WORKSPACE_WRAPPER.
//!
//! Output: $MQFACTS_OUT/<crate>-<pid>.json, written with a single write.
#![feature(rustc_private)]
#![allow(clippy::all)]

extern crate rustc_abi;
extern crate rustc_driver;
extern crate rustc_hir;
extern crate rustc_interface;
extern crate rustc_middle;
extern crate rustc_span;

mod json;
use json::J;

use rustc_hir::def::DefKind;
use rustc_hir::def_id::{DefId, LOCAL_CRATE};
use rustc_middle::mir::{
    self, AggregateKind, BasicBlock, Body, Operand, Place, ProjectionElem, Rvalue, StatementKind,
    TerminatorKind, UnwindAction, VarDebugInfoContents,
};
use rustc_middle::ty::print::{with_no_trimmed_paths, with_no_visible_paths, with_resolve_crate_name};
use rustc_middle::ty::{self, GenericArgsRef, Ty, TyCtxt};
use rustc_span::Span;

struct Cb;

impl rustc_driver::Callbacks for Cb {
    fn after_analysis<'tcx>(
        &mut self,
        _c: &rustc_interface::interface::Compiler,
        tcx: TyCtxt<'tcx>,
    ) -> rustc_driver::Compilation {
        if let Ok(dir) = std::env::var("MQFACTS_OUT") {
            let name = tcx.crate_name(LOCAL_CRATE).to_string();
            if !name.starts_with("build_script") {
                let j = with_no_trimmed_paths!(with_no_visible_paths!(with_resolve_crate_name!(
                    extract(tcx, &name)
                )));
                let mut s = String::with_capacity(1 << 22);
                j.write(&mut s);
                s.push('\n');
                let path = format!("{}/{}-{}.json", dir, name, std::process::id());
                let _ = std::fs::create_dir_all(&dir);
                std::fs::write(&path, s).expect("mqfacts: cannot write fact file");
            }
        }
        rustc_driver::Compilation::Continue
    }
}

fn main() {
    let mut args: Vec<String> = std::env::args().collect();
    // RUSTC_WORKSPACE_WRAPPER passes the real rustc path as argv[1]
    if args.len() > 1 && (args[1].ends_with("rustc") || args[1].ends_with("rustc.exe")) {
        args.remove(1);
    }
    let mut cb = Cb;
    rustc_driver::run_compiler(&args, &mut cb);
}

// ------------------------------------------------------------------------------------------

fn dp(tcx: TyCtxt<'_>, did: DefId) -> String {
    tcx.def_path_str(did)
}

/// unique, stable-within-a-build identifier of a definition (def_path_str is ambiguous for impl items)
fn uid(tcx: TyCtxt<'_>, did: DefId) -> String {
    format!("{}{}", tcx.crate_name(did.krate), tcx.def_path(did).to_string_no_crate_verbose())
}

fn span_j(tcx: TyCtxt<'_>, sp: Span) -> J {
    let sm = tcx.sess.source_map();
    let cs = sp.source_callsite();
    let lo = sm.lookup_char_pos(cs.lo());
    let hi = sm.lookup_char_pos(cs.hi());
    let file = match &lo.file.name {
        rustc_span::FileName::Real(r) => match r.local_path() {
            Some(p) => p.to_string_lossy().to_string(),
            None => format!("{:?}", lo.file.name),
        },
        other => format!("{:?}", other),
    };
    let mut o = vec![("file", J::s(file)), ("line", J::I(lo.line as i128)), ("end", J::I(hi.line as i128))];
    if sp.from_expansion() {
        o.push(("exp", J::s(exp_chain(sp))));
    }
    J::O(o)
}

fn exp_chain(sp: Span) -> String {
    let mut v = vec![];
    for ed in sp.macro_backtrace() {
        v.push(match ed.kind {
            rustc_span::ExpnKind::Macro(_, name) => format!("macro:{}", name),
            rustc_span::ExpnKind::Desugaring(k) => format!("desugar:{:?}", k),
            rustc_span::ExpnKind::AstPass(k) => format!("astpass:{:?}", k),
            rustc_span::ExpnKind::Root => "root".to_string(),
        });
        if v.len() > 6 {
            break;
        }
    }
    v.join(">")
}

fn line_of(tcx: TyCtxt<'_>, sp: Span) -> i128 {
    let sm = tcx.sess.source_map();
    sm.lookup_char_pos(sp.source_callsite().lo()).line as i128
}

fn ty_s<'tcx>(ty: Ty<'tcx>) -> String {
    format!("{}", ty)
}

/// peel references / raw pointers / Box and return the outermost ADT / closure def path
fn ty_head<'tcx>(tcx: TyCtxt<'tcx>, mut ty: Ty<'tcx>) -> Vec<(&'static str, J)> {
    let mut o = vec![];
    let mut refs = 0;
    loop {
        match ty.kind() {
            ty::Ref(_, t, _) => {
                ty = *t;
                refs += 1;
            }
            ty::RawPtr(t, _) => {
                ty = *t;
                refs += 1;
            }
            _ => break,
        }
    }
    if refs > 0 {
        o.push(("refs", J::I(refs)));
    }
    match ty.kind() {
        ty::Adt(def, args) => {
            o.push(("adt", J::s(dp(tcx, def.did()))));
            if !args.is_empty() {
                o.push(("adt_args", J::A(args.iter().map(|a| J::s(format!("{}", a))).collect())));
            }
        }
        ty::Closure(did, _) | ty::Coroutine(did, _) | ty::CoroutineClosure(did, _) => {
            o.push(("closure", J::s(dp(tcx, *did))));
            o.push(("closure_uid", J::s(uid(tcx, *did))));
        }
        ty::Param(p) => o.push(("param", J::s(p.name.to_string()))),
        ty::Dynamic(..) => o.push(("dyn", J::B(true))),
        ty::FnDef(did, _) => o.push(("fndef", J::s(dp(tcx, *did)))),
        ty::Alias(..) => o.push(("alias", J::B(true))),
        _ => {}
    }
    o
}

fn fn_ref<'tcx>(
    tcx: TyCtxt<'tcx>,
    env: ty::TypingEnv<'tcx>,
    did: DefId,
    args: GenericArgsRef<'tcx>,
) -> J {
    let mut o = vec![("def", J::s(dp(tcx, did)))];
    o.push(("uid", J::s(uid(tcx, did))));
    o.push(("name", J::s(tcx.item_name(did).to_string())));
    if !args.is_empty() {
        o.push(("args", J::A(args.iter().map(|a| J::s(format!("{}", a))).collect())));
        // closure / fn-item typed generic args (callbacks passed to combinators)
        let mut cl = vec![];
        for (i, a) in args.iter().enumerate() {
            if let Some(t) = a.as_type() {
                let mut t = t;
                while let ty::Ref(_, inner, _) = t.kind() {
                    t = *inner;
                }
                match t.kind() {
                    ty::Closure(d, _) | ty::Coroutine(d, _) | ty::CoroutineClosure(d, _) => {
                        cl.push(J::A(vec![J::I(i as i128), J::s("closure"), J::s(dp(tcx, *d)), J::s(uid(tcx, *d))]));
                    }
                    ty::FnDef(d, _) => {
                        cl.push(J::A(vec![J::I(i as i128), J::s("fn"), J::s(dp(tcx, *d)), J::s(uid(tcx, *d))]));
                    }
                    _ => {}
                }
            }
        }
        if !cl.is_empty() {
            o.push(("fn_args", J::A(cl)));
        }
    }
    if let Some(assoc) = tcx.opt_associated_item(did) {
        match assoc.container {
            ty::AssocContainer::Trait => {
                let tr = tcx.parent(did);
                o.push(("trait", J::s(dp(tcx, tr))));
                if !args.is_empty() {
                    if let Some(t) = args[0].as_type() {
                        o.push(("self_ty", J::s(ty_s(t))));
                        let mut h = ty_head(tcx, t);
                        if !h.is_empty() {
                            o.push(("self_head", J::O(std::mem::take(&mut h))));
                        }
                    }
                }
            }
            _ => {
                let imp = tcx.parent(did);
                if matches!(tcx.def_kind(imp), DefKind::Impl { .. }) {
                    let st = tcx.type_of(imp).instantiate_identity().skip_norm_wip();
                    o.push(("impl_self", J::s(ty_s(st))));
                    if let Some(tr) = tcx.impl_opt_trait_ref(imp) {
                        let tr = tr.instantiate_identity().skip_norm_wip();
                        o.push(("impl_trait", J::s(dp(tcx, tr.def_id))));
                    }
                }
            }
        }
    }
    // resolution through trait selection
    let resolved = std::panic::catch_unwind(std::panic::AssertUnwindSafe(|| {
        ty::Instance::try_resolve(tcx, env, did, args).ok().flatten()
    }))
    .ok()
    .flatten();
    if let Some(inst) = resolved {
        let rd = inst.def_id();
        if rd != did {
            o.push(("resolved", J::s(dp(tcx, rd))));
            o.push(("resolved_uid", J::s(uid(tcx, rd))));
        }
        match inst.def {
            ty::InstanceKind::Item(_) => {}
            other => o.push(("inst_kind", J::s(format!("{:?}", other).split('(').next().unwrap_or("").to_string()))),
        }
    }
    // does it diverge?
    if matches!(tcx.def_kind(did), DefKind::Fn | DefKind::AssocFn) {
        let sig = tcx.fn_sig(did).instantiate_identity().skip_norm_wip();
        if sig.output().skip_binder().is_never() {
            o.push(("never", J::B(true)));
        }
    }
    J::O(o)
}

struct BodyCx<'a, 'tcx> {
    tcx: TyCtxt<'tcx>,
    body: &'a Body<'tcx>,
    env: ty::TypingEnv<'tcx>,
}

impl<'a, 'tcx> BodyCx<'a, 'tcx> {
    fn place(&self, p: &Place<'tcx>) -> J {
        let tcx = self.tcx;
        let mut proj = vec![];
        let mut pty = mir::PlaceTy::from_ty(self.body.local_decls[p.local].ty);
        for elem in p.projection.iter() {
            match elem {
                ProjectionElem::Deref => proj.push(J::A(vec![J::s("deref")])),
                ProjectionElem::Field(f, fty) => {
                    let idx = f.as_usize();
                    let (name, of) = match pty.ty.kind() {
                        ty::Adt(def, _) => {
                            let v = match pty.variant_index {
                                Some(v) => def.variant(v),
                                None => {
                                    if def.is_enum() {
                                        def.variant(rustc_abi::VariantIdx::from_u32(0))
                                    } else {
                                        def.non_enum_variant()
                                    }
                                }
                            };
                            (
                                v.fields.get(f).map(|fd| fd.name.to_string()).unwrap_or_else(|| idx.to_string()),
                                Some(dp(tcx, def.did())),
                            )
                        }
                        ty::Closure(did, _) | ty::Coroutine(did, _) | ty::CoroutineClosure(did, _) => {
                            let nm = did
                                .as_local()
                                .and_then(|l| {
                                    tcx.closure_captures(l).get(idx).map(|c| c.var_ident.name.to_string())
                                })
                                .unwrap_or_else(|| idx.to_string());
                            (nm, Some(dp(tcx, *did)))
                        }
                        _ => (idx.to_string(), None),
                    };
                    let mut v = vec![J::s("f"), J::I(idx as i128), J::s(name)];
                    v.push(J::opt_s(of));
                    v.push(J::s(ty_s(fty)));
                    proj.push(J::A(v));
                }
                ProjectionElem::Index(l) => proj.push(J::A(vec![J::s("idx"), J::I(l.as_usize() as i128)])),
                ProjectionElem::ConstantIndex { offset, from_end, .. } => {
                    proj.push(J::A(vec![J::s("cidx"), J::I(offset as i128), J::B(from_end)]))
                }
                ProjectionElem::Subslice { from, to, from_end } => {
                    proj.push(J::A(vec![J::s("sub"), J::I(from as i128), J::I(to as i128), J::B(from_end)]))
                }
                ProjectionElem::Downcast(name, vi) => {
                    let nm = match name {
                        Some(s) => s.to_string(),
                        None => match pty.ty.kind() {
                            ty::Adt(def, _) if def.is_enum() => def.variant(vi).name.to_string(),
                            _ => vi.as_usize().to_string(),
                        },
                    };
                    proj.push(J::A(vec![J::s("dc"), J::I(vi.as_usize() as i128), J::s(nm)]))
                }
                ProjectionElem::OpaqueCast(_) => proj.push(J::A(vec![J::s("opaque")])),
                ProjectionElem::UnwrapUnsafeBinder(_) => proj.push(J::A(vec![J::s("unbind")])),
            }
            pty = pty.projection_ty(tcx, elem);
        }
        let mut o = vec![("l", J::I(p.local.as_usize() as i128))];
        if !proj.is_empty() {
            o.push(("p", J::A(proj)));
        }
        J::O(o)
    }

    fn konst(&self, c: &mir::ConstOperand<'tcx>) -> J {
        let tcx = self.tcx;
        let ty = c.const_.ty();
        let mut o = vec![("ty", J::s(ty_s(ty)))];
        if let ty::FnDef(did, args) = ty.kind() {
            o.push(("fn", fn_ref(tcx, self.env, *did, args)));
            return J::O(o);
        }
        if let ty::Closure(did, _) = ty.kind() {
            o.push(("closure", J::s(dp(tcx, *did))));
            return J::O(o);
        }
        match c.const_ {
            mir::Const::Unevaluated(u, _) => {
                o.push(("uneval", J::s(dp(tcx, u.def))));
                if !u.args.is_empty() {
                    o.push(("uneval_args", J::A(u.args.iter().map(|a| J::s(format!("{}", a))).collect())));
                }
                if let Some(p) = u.promoted {
                    o.push(("promoted", J::I(p.as_usize() as i128)));
                }
            }
            mir::Const::Ty(_, ct) => {
                o.push(("tyconst", J::s(format!("{}", ct))));
            }
            mir::Const::Val(..) => {}
        }
        // try to evaluate
        let val = std::panic::catch_unwind(std::panic::AssertUnwindSafe(|| c.const_.eval(tcx, self.env, c.span).ok()))
            .ok()
            .flatten();
        if let Some(v) = val {
            if let Some(si) = v.try_to_scalar_int() {
                let bits = si.to_bits_unchecked();
                if ty.is_bool() {
                    o.push(("bool", J::B(bits != 0)));
                } else if ty.is_integral() || ty.is_char() {
                    if ty.is_signed() {
                        let size = si.size();
                        o.push(("int", J::I(size.sign_extend(bits))));
                    } else {
                        // u128 may overflow i128 for huge values; clamp (never matters here)
                        o.push(("int", J::I(bits.min(i128::MAX as u128) as i128)));
                    }
                } else if ty.is_floating_point() {
                    let f = if si.size().bytes() == 4 {
                        f32::from_bits(bits as u32) as f64
                    } else {
                        f64::from_bits(bits as u64)
                    };
                    o.push(("float", J::s(format!("{:?}", f))));
                } else {
                    o.push(("bits", J::I(bits.min(i128::MAX as u128) as i128)));
                }
            } else if let ty::Ref(_, inner, _) = ty.kind() {
                if inner.is_str() {
                    if let Some(bytes) = v.try_get_slice_bytes_for_diagnostics(tcx) {
                        o.push(("str", J::s(String::from_utf8_lossy(bytes).to_string())));
                    }
                }
            }
        }
        let disp = format!("{}", c.const_);
        if disp.len() < 300 {
            o.push(("disp", J::s(disp)));
        }
        J::O(o)
    }

    fn operand(&self, op: &Operand<'tcx>) -> J {
        match op {
            Operand::Copy(p) => J::O(vec![("copy", self.place(p))]),
            Operand::Move(p) => J::O(vec![("move", self.place(p))]),
            Operand::Constant(c) => J::O(vec![("const", self.konst(c))]),
            other => J::O(vec![("other", J::s(format!("{:?}", other)))]),
        }
    }

    fn rvalue(&self, rv: &Rvalue<'tcx>) -> J {
        let tcx = self.tcx;
        match rv {
            Rvalue::Use(op, ..) => J::O(vec![("k", J::s("use")), ("op", self.operand(op))]),
            Rvalue::Repeat(op, n) => {
                J::O(vec![("k", J::s("repeat")), ("op", self.operand(op)), ("n", J::s(format!("{}", n)))])
            }
            Rvalue::Ref(_, bk, p) => J::O(vec![
                ("k", J::s("ref")),
                ("mut", J::B(matches!(bk, mir::BorrowKind::Mut { .. }))),
                ("place", self.place(p)),
            ]),
            Rvalue::ThreadLocalRef(did) => J::O(vec![("k", J::s("tlref")), ("def", J::s(dp(tcx, *did)))]),
            Rvalue::RawPtr(kind, p) => J::O(vec![
                ("k", J::s("rawptr")),
                ("mut", J::B(format!("{:?}", kind).contains("Mut"))),
                ("place", self.place(p)),
            ]),
            Rvalue::Cast(kind, op, ty) => J::O(vec![
                ("k", J::s("cast")),
                ("kind", J::s(format!("{:?}", kind))),
                ("op", self.operand(op)),
                ("ty", J::s(ty_s(*ty))),
            ]),
            Rvalue::BinaryOp(op, ab) => J::O(vec![
                ("k", J::s("binop")),
                ("op", J::s(format!("{:?}", op))),
                ("a", self.operand(&ab.0)),
                ("b", self.operand(&ab.1)),
            ]),
            Rvalue::UnaryOp(op, a) => {
                J::O(vec![("k", J::s("unop")), ("op", J::s(format!("{:?}", op))), ("a", self.operand(a))])
            }
            Rvalue::Discriminant(p) => {
                let pty = p.ty(self.body, tcx).ty;
                let mut o = vec![("k", J::s("discr")), ("place", self.place(p))];
                if let ty::Adt(def, _) = pty.kind() {
                    o.push(("adt", J::s(dp(tcx, def.did()))));
                    if def.is_enum() {
                        let mut vs = vec![];
                        for (vi, d) in def.discriminants(tcx) {
                            vs.push(J::A(vec![
                                J::I(d.val.min(i128::MAX as u128) as i128),
                                J::s(def.variant(vi).name.to_string()),
                            ]));
                        }
                        o.push(("variants", J::A(vs)));
                    }
                }
                J::O(o)
            }
            Rvalue::Aggregate(kind, ops) => {
                let mut o = vec![("k", J::s("agg"))];
                match &**kind {
                    AggregateKind::Array(_) => o.push(("agg", J::s("array"))),
                    AggregateKind::Tuple => o.push(("agg", J::s("tuple"))),
                    AggregateKind::Adt(did, vi, args, _, active) => {
                        o.push(("agg", J::s("adt")));
                        o.push(("adt", J::s(dp(tcx, *did))));
                        let def = tcx.adt_def(*did);
                        let v = def.variant(*vi);
                        o.push(("variant", J::s(v.name.to_string())));
                        if !args.is_empty() {
                            o.push(("adt_args", J::A(args.iter().map(|a| J::s(format!("{}", a))).collect())));
                        }
                        if let Some(a) = active {
                            o.push(("fields", J::A(vec![J::s(v.fields[*a].name.to_string())])));
                        } else {
                            o.push(("fields", J::A(v.fields.iter().map(|f| J::s(f.name.to_string())).collect())));
                        }
                    }
                    AggregateKind::Closure(did, _)
                    | AggregateKind::Coroutine(did, _)
                    | AggregateKind::CoroutineClosure(did, _) => {
                        o.push(("agg", J::s("closure")));
                        o.push(("closure", J::s(dp(tcx, *did))));
                        o.push(("closure_uid", J::s(uid(tcx, *did))));
                        if let Some(l) = did.as_local() {
                            o.push((
                                "fields",
                                J::A(tcx.closure_captures(l).iter().map(|c| J::s(c.var_ident.name.to_string())).collect()),
                            ));
                        }
                    }
                    AggregateKind::RawPtr(..) => o.push(("agg", J::s("rawptr"))),
                }
                o.push(("ops", J::A(ops.iter().map(|x| self.operand(x)).collect())));
                J::O(o)
            }
            Rvalue::CopyForDeref(p) => J::O(vec![("k", J::s("use")), ("op", J::O(vec![("copy", self.place(p))])), ("cfd", J::B(true))]),
            other => J::O(vec![("k", J::s("other")), ("dbg", J::s(format!("{:?}", other)))]),
        }
    }

    fn unwind(&self, u: &UnwindAction) -> J {
        match u {
            UnwindAction::Cleanup(bb) => J::I(bb.as_usize() as i128),
            _ => J::Null,
        }
    }

    fn bbj(&self, b: BasicBlock) -> J {
        J::I(b.as_usize() as i128)
    }

    fn terminator(&self, t: &mir::Terminator<'tcx>) -> J {
        let tcx = self.tcx;
        let line = line_of(tcx, t.source_info.span);
        let mut o: Vec<(&'static str, J)> = vec![];
        match &t.kind {
            TerminatorKind::Goto { target } => {
                o.push(("k", J::s("goto")));
                o.push(("target", self.bbj(*target)));
            }
            TerminatorKind::SwitchInt { discr, targets } => {
                o.push(("k", J::s("switch")));
                o.push(("discr", self.operand(discr)));
                o.push(("ty", J::s(ty_s(discr.ty(self.body, tcx)))));
                let mut ts = vec![];
                for (v, bb) in targets.iter() {
                    ts.push(J::A(vec![J::I(v.min(i128::MAX as u128) as i128), self.bbj(bb)]));
                }
                o.push(("targets", J::A(ts)));
                o.push(("otherwise", self.bbj(targets.otherwise())));
            }
            TerminatorKind::UnwindResume => o.push(("k", J::s("resume"))),
            TerminatorKind::UnwindTerminate(_) => o.push(("k", J::s("terminate"))),
            TerminatorKind::Return => o.push(("k", J::s("return"))),
            TerminatorKind::Unreachable => o.push(("k", J::s("unreachable"))),
            TerminatorKind::Drop { place, target, unwind, .. } => {
                o.push(("k", J::s("drop")));
                o.push(("place", self.place(place)));
                let pty = place.ty(self.body, tcx).ty;
                o.push(("ty", J::s(ty_s(pty))));
                o.push(("target", self.bbj(*target)));
                o.push(("unwind", self.unwind(unwind)));
            }
            TerminatorKind::Call { func, args, destination, target, unwind, fn_span, .. } => {
                o.push(("k", J::s("call")));
                let fty = func.ty(self.body, tcx);
                match fty.kind() {
                    ty::FnDef(did, gargs) => o.push(("callee", fn_ref(tcx, self.env, *did, gargs))),
                    _ => {
                        o.push(("callee_op", self.operand(func)));
                        o.push(("callee_ty", J::s(ty_s(fty))));
                    }
                }
                o.push(("args", J::A(args.iter().map(|a| self.operand(&a.node)).collect())));
                o.push(("dest", self.place(destination)));
                o.push(("target", match target {
                    Some(b) => self.bbj(*b),
                    None => J::Null,
                }));
                o.push(("unwind", self.unwind(unwind)));
                if fn_span.from_expansion() || t.source_info.span.from_expansion() {
                    o.push(("exp", J::s(exp_chain(t.source_info.span))));
                }
            }
            TerminatorKind::TailCall { .. } => o.push(("k", J::s("tailcall"))),
            TerminatorKind::Assert { cond, expected, msg, target, unwind } => {
                o.push(("k", J::s("assert")));
                o.push(("cond", self.operand(cond)));
                o.push(("expected", J::B(*expected)));
                let m = format!("{:?}", msg);
                o.push(("msg", J::s(m.split('(').next().unwrap_or("").to_string())));
                o.push(("target", self.bbj(*target)));
                o.push(("unwind", self.unwind(unwind)));
            }
            TerminatorKind::Yield { resume, drop, .. } => {
                o.push(("k", J::s("yield")));
                o.push(("target", self.bbj(*resume)));
                if let Some(d) = drop {
                    o.push(("drop", self.bbj(*d)));
                }
            }
            TerminatorKind::CoroutineDrop => o.push(("k", J::s("coroutine_drop"))),
            TerminatorKind::FalseEdge { real_target, .. } => {
                o.push(("k", J::s("goto")));
                o.push(("target", self.bbj(*real_target)));
            }
            TerminatorKind::FalseUnwind { real_target, .. } => {
                o.push(("k", J::s("goto")));
                o.push(("target", self.bbj(*real_target)));
            }
            TerminatorKind::InlineAsm { .. } => o.push(("k", J::s("asm"))),
        }
        o.push(("line", J::I(line)));
        J::O(o)
    }

    fn statement(&self, s: &mir::Statement<'tcx>) -> Option<J> {
        let tcx = self.tcx;
        match &s.kind {
            StatementKind::Assign(b) => {
                let (p, rv) = &**b;
                let mut o = vec![("k", J::s("assign")), ("lhs", self.place(p)), ("rv", self.rvalue(rv))];
                o.push(("line", J::I(line_of(tcx, s.source_info.span))));
                if s.source_info.span.from_expansion() {
                    o.push(("exp", J::B(true)));
                }
                Some(J::O(o))
            }
            StatementKind::SetDiscriminant { place, variant_index } => {
                let pty = place.ty(self.body, tcx).ty;
                let vn = match pty.kind() {
                    ty::Adt(def, _) if def.is_enum() => def.variant(*variant_index).name.to_string(),
                    _ => variant_index.as_usize().to_string(),
                };
                Some(J::O(vec![
                    ("k", J::s("setdiscr")),
                    ("lhs", self.place(place)),
                    ("variant", J::s(vn)),
                    ("line", J::I(line_of(tcx, s.source_info.span))),
                ]))
            }
            StatementKind::StorageLive(l) => Some(J::O(vec![("k", J::s("live")), ("l", J::I(l.as_usize() as i128))])),
            StatementKind::StorageDead(l) => Some(J::O(vec![("k", J::s("dead")), ("l", J::I(l.as_usize() as i128))])),
            StatementKind::Intrinsic(i) => Some(J::O(vec![("k", J::s("intrinsic")), ("dbg", J::s(format!("{:?}", i)))])),
            _ => None,
        }
    }
}

fn body_j<'tcx>(tcx: TyCtxt<'tcx>, did: DefId, body: &Body<'tcx>) -> Vec<(&'static str, J)> {
    let env = ty::TypingEnv::post_analysis(tcx, did);
    let cx = BodyCx { tcx, body, env };
    let mut o = vec![];
    o.push(("arg_count", J::I(body.arg_count as i128)));
    // locals
    let mut names: Vec<Option<String>> = vec![None; body.local_decls.len()];
    let mut debug = vec![];
    for vdi in &body.var_debug_info {
        match &vdi.value {
            VarDebugInfoContents::Place(p) => {
                if p.projection.is_empty() && names[p.local.as_usize()].is_none() {
                    names[p.local.as_usize()] = Some(vdi.name.to_string());
                }
                debug.push(J::O(vec![("name", J::s(vdi.name.to_string())), ("place", cx.place(p))]));
            }
            VarDebugInfoContents::Const(c) => {
                debug.push(J::O(vec![("name", J::s(vdi.name.to_string())), ("const", cx.konst(c))]));
            }
        }
    }
    let mut locals = vec![];
    for (l, d) in body.local_decls.iter_enumerated() {
        let _ = &d;
        let i = l.as_usize();
        let kind = if i == 0 {
            "ret"
        } else if i <= body.arg_count {
            "arg"
        } else if names[i].is_some() {
            "var"
        } else {
            "temp"
        };
        let mut lo = vec![("ty", J::s(ty_s(d.ty))), ("kind", J::s(kind))];
        if let Some(n) = &names[i] {
            lo.push(("name", J::s(n.clone())));
        }
        let h = ty_head(tcx, d.ty);
        if !h.is_empty() {
            lo.push(("head", J::O(h)));
        }
        locals.push(J::O(lo));
    }
    o.push(("locals", J::A(locals)));
    o.push(("debug", J::A(debug)));
    let mut blocks = vec![];
    for (_bb, data) in body.basic_blocks.iter_enumerated() {
        let mut stmts = vec![];
        for s in &data.statements {
            if let Some(j) = cx.statement(s) {
                stmts.push(j);
            }
        }
        let mut bo = vec![];
        if data.is_cleanup {
            bo.push(("cleanup", J::B(true)));
        }
        bo.push(("stmts", J::A(stmts)));
        if let Some(t) = &data.terminator {
            bo.push(("term", cx.terminator(t)));
        }
        blocks.push(J::O(bo));
    }
    o.push(("blocks", J::A(blocks)));
    o
}

fn generics_j<'tcx>(tcx: TyCtxt<'tcx>, did: DefId) -> Vec<(&'static str, J)> {
    let mut o = vec![];
    let g = tcx.generics_of(did);
    let mut params = vec![];
    let mut cur = Some(g);
    let mut stack = vec![];
    while let Some(gg) = cur {
        stack.push(gg);
        cur = gg.parent.map(|p| tcx.generics_of(p));
    }
    for gg in stack.into_iter().rev() {
        for p in &gg.own_params {
            params.push(J::s(p.name.to_string()));
        }
    }
    o.push(("generics", J::A(params)));
    let preds = tcx.predicates_of(did).instantiate_identity(tcx);
    o.push(("preds", J::A(preds.predicates.iter().map(|p| J::s(format!("{}", p.skip_norm_wip()))).collect())));
    o
}

fn extract<'tcx>(tcx: TyCtxt<'tcx>, crate_name: &str) -> J {
    let mut bodies = vec![];
    for ldid in tcx.hir_body_owners() {
        let did = ldid.to_def_id();
        let kind = tcx.def_kind(did);
        let kind_s = format!("{:?}", kind);
        let mut o: Vec<(&'static str, J)> = vec![("def", J::s(dp(tcx, did))), ("uid", J::s(uid(tcx, did))), ("kind", J::s(kind_s.split([' ', '{', '(']).next().unwrap_or("").to_string()))];
        o.push(("span", span_j(tcx, tcx.def_span(did))));
        let body: Option<&Body<'tcx>> = match kind {
            DefKind::Fn | DefKind::AssocFn | DefKind::Closure => {
                if tcx.is_mir_available(did) {
                    Some(tcx.optimized_mir(did))
                } else {
                    None
                }
            }
            DefKind::Const { .. } | DefKind::AssocConst { .. } | DefKind::AnonConst | DefKind::InlineConst | DefKind::Static { .. } => {
                std::panic::catch_unwind(std::panic::AssertUnwindSafe(|| tcx.mir_for_ctfe(did))).ok()
            }
            _ => None,
        };
        if matches!(kind, DefKind::Fn | DefKind::AssocFn) {
            o.push(("name", J::s(tcx.item_name(did).to_string())));
            o.push(("vis", J::s(if tcx.visibility(did).is_public() { "pub" } else { "restricted" })));
            let sig = tcx.fn_sig(did).instantiate_identity().skip_norm_wip().skip_binder();
            o.push(("inputs", J::A(sig.inputs().iter().map(|t| J::s(ty_s(*t))).collect())));
            o.push(("output", J::s(ty_s(sig.output()))));
            o.extend(generics_j(tcx, did));
            if tcx.asyncness(did).is_async() {
                o.push(("async", J::B(true)));
            }
        }
        if matches!(kind, DefKind::AssocConst { .. } | DefKind::Const { .. }) {
            o.push(("name", J::s(tcx.item_name(did).to_string())));
        }
        if matches!(kind, DefKind::Closure) {
            o.push(("parent", J::s(dp(tcx, tcx.typeck_root_def_id(did)))));
            o.push(("parent_uid", J::s(uid(tcx, tcx.typeck_root_def_id(did)))));
            o.push(("direct_parent", J::s(dp(tcx, tcx.parent(did)))));
            if tcx.is_coroutine(did) {
                o.push(("coroutine", J::B(true)));
            }
            let caps: Vec<J> = tcx.closure_captures(ldid).iter().map(|c| J::s(c.var_ident.name.to_string())).collect();
            o.push(("captures", J::A(caps)));
        }
        // parent impl / trait
        if matches!(kind, DefKind::AssocFn | DefKind::AssocConst { .. }) {
            let par = tcx.parent(did);
            match tcx.def_kind(par) {
                DefKind::Impl { .. } => {
                    let st = tcx.type_of(par).instantiate_identity().skip_norm_wip();
                    let mut io = vec![("impl", J::s(dp(tcx, par))), ("self_ty", J::s(ty_s(st)))];
                    let h = ty_head(tcx, st);
                    if !h.is_empty() {
                        io.push(("self_head", J::O(h)));
                    }
                    if let Some(tr) = tcx.impl_opt_trait_ref(par) {
                        let tr = tr.instantiate_identity().skip_norm_wip();
                        io.push(("trait", J::s(dp(tcx, tr.def_id))));
                        io.push(("trait_ref", J::s(format!("{}", tr))));
                    }
                    o.push(("impl", J::O(io)));
                }
                DefKind::Trait => {
                    o.push(("in_trait", J::s(dp(tcx, par))));
                }
                _ => {}
            }
        }
        if let Some(b) = body {
            o.extend(body_j(tcx, did, b));
            if matches!(kind, DefKind::Fn | DefKind::AssocFn | DefKind::Closure) {
                let proms = std::panic::catch_unwind(std::panic::AssertUnwindSafe(|| tcx.promoted_mir(did))).ok();
                if let Some(proms) = proms {
                    let mut pv = vec![];
                    for pb in proms.iter() {
                        pv.push(J::O(body_j(tcx, did, pb)));
                    }
                    if !pv.is_empty() {
                        o.push(("promoted", J::A(pv)));
                    }
                }
            }
        } else {
            o.push(("nomir", J::B(true)));
        }
        bodies.push(J::O(o));
    }

    // items: ADTs, impls, traits, statics
    let mut adts = vec![];
    let mut impls = vec![];
    let mut traits = vec![];
    let mut statics = vec![];
    for ldid in tcx.hir_crate_items(()).definitions() {
        let did = ldid.to_def_id();
        match tcx.def_kind(did) {
            DefKind::Struct | DefKind::Enum | DefKind::Union => {
                let def = tcx.adt_def(did);
                let mut vs = vec![];
                for v in def.variants() {
                    let mut fs = vec![];
                    for f in &v.fields {
                        let fty = tcx.type_of(f.did).instantiate_identity().skip_norm_wip();
                        let mut fo = vec![("name", J::s(f.name.to_string())), ("ty", J::s(ty_s(fty)))];
                        fo.push(("pub", J::B(f.vis.is_public())));
                        let h = ty_head(tcx, fty);
                        if !h.is_empty() {
                            fo.push(("head", J::O(h)));
                        }
                        fs.push(J::O(fo));
                    }
                    vs.push(J::O(vec![("name", J::s(v.name.to_string())), ("fields", J::A(fs))]));
                }
                let mut o = vec![
                    ("def", J::s(dp(tcx, did))),
                    ("kind", J::s(format!("{:?}", tcx.def_kind(did)))),
                    ("pub", J::B(tcx.visibility(did).is_public())),
                    ("span", span_j(tcx, tcx.def_span(did))),
                    ("variants", J::A(vs)),
                ];
                o.extend(generics_j(tcx, did));
                adts.push(J::O(o));
            }
            DefKind::Impl { .. } => {
                let st = tcx.type_of(did).instantiate_identity().skip_norm_wip();
                let mut o = vec![("def", J::s(dp(tcx, did))), ("self_ty", J::s(ty_s(st))), ("span", span_j(tcx, tcx.def_span(did)))];
                let h = ty_head(tcx, st);
                if !h.is_empty() {
                    o.push(("self_head", J::O(h)));
                }
                if let Some(tr) = tcx.impl_opt_trait_ref(did) {
                    let tr = tr.instantiate_identity().skip_norm_wip();
                    o.push(("trait", J::s(dp(tcx, tr.def_id))));
                    o.push(("trait_ref", J::s(format!("{}", tr))));
                    o.push(("trait_args", J::A(tr.args.iter().map(|a| J::s(format!("{}", a))).collect())));
                    if tcx.impl_polarity(did) == ty::ImplPolarity::Negative {
                        o.push(("negative", J::B(true)));
                    }
                }
                o.extend(generics_j(tcx, did));
                let mut items = vec![];
                for it in tcx.associated_items(did).in_definition_order() {
                    let mut io = vec![("name", J::s(it.opt_name().map(|n| n.to_string()).unwrap_or_else(|| "<rpitit>".to_string()))), ("def", J::s(dp(tcx, it.def_id))), ("uid", J::s(uid(tcx, it.def_id)))];
                    match it.kind {
                        ty::AssocKind::Type { .. } => {
                            io.push(("kind", J::s("type")));
                            let t = tcx.type_of(it.def_id).instantiate_identity().skip_norm_wip();
                            io.push(("ty", J::s(ty_s(t))));
                            let g = tcx.generics_of(it.def_id);
                            io.push(("own_generics", J::A(g.own_params.iter().map(|p| J::s(p.name.to_string())).collect())));
                        }
                        ty::AssocKind::Const { .. } => {
                            io.push(("kind", J::s("const")));
                            let t = tcx.type_of(it.def_id).instantiate_identity().skip_norm_wip();
                            io.push(("ty", J::s(ty_s(t))));
                        }
                        ty::AssocKind::Fn { .. } => {
                            io.push(("kind", J::s("fn")));
                        }
                    }
                    items.push(J::O(io));
                }
                o.push(("items", J::A(items)));
                impls.push(J::O(o));
            }
            DefKind::Trait => {
                let mut o = vec![("def", J::s(dp(tcx, did))), ("span", span_j(tcx, tcx.def_span(did)))];
                o.extend(generics_j(tcx, did));
                let mut items = vec![];
                for it in tcx.associated_items(did).in_definition_order() {
                    let mut io = vec![("name", J::s(it.opt_name().map(|n| n.to_string()).unwrap_or_else(|| "<rpitit>".to_string()))), ("def", J::s(dp(tcx, it.def_id)))];
                    let k = match it.kind {
                        ty::AssocKind::Type { .. } => "type",
                        ty::AssocKind::Const { .. } => "const",
                        ty::AssocKind::Fn { .. } => "fn",
                    };
                    io.push(("kind", J::s(k)));
                    let g = tcx.generics_of(it.def_id);
                    io.push(("own_generics", J::A(g.own_params.iter().map(|p| J::s(p.name.to_string())).collect())));
                    io.push(("has_default", J::B(it.defaultness(tcx).has_value())));
                    if matches!(it.kind, ty::AssocKind::Type { .. }) && it.defaultness(tcx).has_value() {
                        let t = tcx.type_of(it.def_id).instantiate_identity().skip_norm_wip();
                        io.push(("ty", J::s(ty_s(t))));
                    }
                    items.push(J::O(io));
                }
                o.push(("items", J::A(items)));
                traits.push(J::O(o));
            }
            DefKind::Static { .. } => {
                let t = tcx.type_of(did).instantiate_identity().skip_norm_wip();
                statics.push(J::O(vec![
                    ("def", J::s(dp(tcx, did))),
                    ("ty", J::s(ty_s(t))),
                    ("mutable", J::B(tcx.is_mutable_static(did))),
                    ("thread_local", J::B(tcx.is_thread_local_static(did))),
                    ("span", span_j(tcx, tcx.def_span(did))),
                ]));
            }
            _ => {}
        }
    }

    let cfg_debug = tcx.sess.opts.debug_assertions;
    let crate_types: Vec<J> = tcx.crate_types().iter().map(|c| J::s(format!("{:?}", c))).collect();
    J::O(vec![
        ("crate", J::s(crate_name)),
        ("debug_assertions", J::B(cfg_debug)),
        ("is_test", J::B(tcx.sess.is_test_crate())),
        ("crate_types", J::A(crate_types)),
        ("bodies", J::A(bodies)),
        ("adts", J::A(adts)),
        ("impls", J::A(impls)),
        ("traits", J::A(traits)),
        ("statics", J::A(statics)),
    ])
}

//! Minimal JSON value + serializer (no external crates available to a rustc_private driver).
use std::fmt::Write;

#[derive(Clone, Debug)]
pub enum J {
    Null,
    B(bool),
    I(i128),
    S(String),
    A(Vec<J>),
    O(Vec<(&'static str, J)>),
}

impl J {
    pub fn s(x: impl Into<String>) -> J {
        J::S(x.into())
    }
    pub fn opt_s(x: Option<String>) -> J {
        match x {
            Some(s) => J::S(s),
            None => J::Null,
        }
    }
    pub fn write(&self, out: &mut String) {
        match self {
            J::Null => out.push_str("null"),
            J::B(b) => out.push_str(if *b { "true" } else { "false" }),
            J::I(i) => {
                let _ = write!(out, "{}", i);
            }
            J::S(s) => write_str(out, s),
            J::A(v) => {
                out.push('[');
                for (i, x) in v.iter().enumerate() {
                    if i > 0 {
                        out.push(',');
                    }
                    x.write(out);
                }
                out.push(']');
            }
            J::O(v) => {
                out.push('{');
                for (i, (k, x)) in v.iter().enumerate() {
                    if i > 0 {
                        out.push(',');
                    }
                    write_str(out, k);
                    out.push(':');
                    x.write(out);
                }
                out.push('}');
            }
        }
    }
}

fn write_str(out: &mut String, s: &str) {
    out.push('"');
    for c in s.chars() {
        match c {
            '"' => out.push_str("\\\""),
            '\\' => out.push_str("\\\\"),
            '\n' => out.push_str("\\n"),
            '\r' => out.push_str("\\r"),
            '\t' => out.push_str("\\t"),
            c if (c as u32) < 0x20 => {
                let _ = write!(out, "\\u{:04x}", c as u32);
            }
            c => out.push(c),
        }
    }
    out.push('"');
}

#!/usr/bin/env python3
"""register the behaviour-preserving refactors an agent delivered (/tmp/ref-Cxx-out/refactor_k.diff) as equivalence mutants"""
import json, os, shutil, sys
pid = sys.argv[1]
out = "/tmp/ref-%s-out" % pid
p = "/verif/mutants/specs.json"
d = json.load(open(p))
names = {m["name"] for m in d}
notes = open(os.path.join(out, "notes.md")).read() if os.path.exists(os.path.join(out, "notes.md")) else ""
os.makedirs("/verif/mutants/patches/agent", exist_ok=True)
if notes:
    open("/verif/mutants/patches/agent/%s-notes.md" % pid, "w").write(notes)
added = []
for k in range(1, 9):
    f = os.path.join(out, "refactor_%d.diff" % k)
    if not os.path.exists(f) or os.path.getsize(f) == 0:
        continue
    name = "A%s-%d-agent-refactor" % (pid[1:], k)
    dst = "mutants/patches/agent/%s-refactor_%d.diff" % (pid, k)
    shutil.copy(f, os.path.join("/verif", dst))
    if name not in names:
        d.append({"name": name, "prop": "ALL", "equivalent": True, "patch": dst, "suite_verdict": "agent: 349 pass", "origin": "agent refactor (given only the property text)"})
        added.append(name)
json.dump(d, open(p, "w"), indent=1)
print("added", added)

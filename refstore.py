#!/usr/bin/env python3
"""register the behaviour-preserving refactors an agent delivered (/tmp/ref-Cxx-out/refactor_k.diff) as equivalence mutants"""
import json, os, shutil, sys
pid = sys.argv[1]
rnd = sys.argv[2] if len(sys.argv) > 2 else "1"          # round 1: /tmp/ref-Cxx-out -> Axx-k ; round 2: /tmp/rf2-Cxx-out -> Bxx-k
out = {"1": "/tmp/ref-%s-out", "2": "/tmp/rf2-%s-out", "3": "/tmp/rf3-%s-out", "4": "/tmp/rf4-%s-out"}[rnd] % pid
sub = {"1": "agent", "2": "agent2", "3": "agent3", "4": "agent4"}[rnd]
pre = {"1": "A", "2": "B", "3": "D", "4": "G"}[rnd]
p = "/verif/mutants/specs.json"
d = json.load(open(p))
names = {m["name"] for m in d}
notes = open(os.path.join(out, "notes.md")).read() if os.path.exists(os.path.join(out, "notes.md")) else ""
os.makedirs("/verif/mutants/patches/%s" % sub, exist_ok=True)
if notes:
    open("/verif/mutants/patches/%s/%s-notes.md" % (sub, pid), "w").write(notes)
added = []
for k in range(1, 9):
    f = os.path.join(out, "refactor_%d.diff" % k)
    if not os.path.exists(f) or os.path.getsize(f) == 0:
        continue
    name = "%s%s-%d-agent-refactor" % (pre, pid[1:], k)
    dst = "mutants/patches/%s/%s-refactor_%d.diff" % (sub, pid, k)
    shutil.copy(f, os.path.join("/verif", dst))
    if name not in names:
        d.append({"name": name, "prop": "ALL", "equivalent": True, "patch": dst, "suite_verdict": "agent: 349 pass", "origin": "agent refactor round %s (given only the property text)" % rnd})
        added.append(name)
json.dump(d, open(p, "w"), indent=1)
print("added", added)

#!/bin/bash
# Build the fact-extraction driver and pre-warm the dependency artefacts (offline).
set -e
cd "$(dirname "$0")"
export CARGO_NET_OFFLINE=true
(cd mqfacts && cargo +nightly build --release --offline)
# pre-extract facts for the current tree so that the first check does not pay the cold build
python3 - <<'PY'
import sys, os
sys.path.insert(0, os.getcwd())
from mq import extract
for prof in ("dbg", "rel"):
    try:
        print(prof, extract.facts_dir(prof))
    except SystemExit as e:
        print("setup: extraction for profile %s failed: %s" % (prof, e))
try:
    from mq import witness
    r = witness.run_witness()
    print("witness crate:", {k: (v.get("obligations"), v.get("discharged")) for k, v in r["groups"].items() if k != "compile_fail"}, r.get("wall_s"))
except BaseException as e:
    print("setup: witness pre-build failed:", e)
PY

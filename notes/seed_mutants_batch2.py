import subprocess,sys,os,json
R='/var/tmp/mqs/repo/'
M=[
 ('N01-C03-wrapping-mul','metrique-writer-format-emf/src/emf.rs',
  "counts.push_integer(occurrences.saturating_mul(multiplicity));","counts.push_integer(occurrences.wrapping_mul(multiplicity));"),
 ('N02-C03-routing-mix','metrique-writer-format-emf/src/emf.rs',
  "            (&mut val.metrics_buf, &mut val.fields_buf, val.index.into())","            (&mut self.entry.state.metrics_buf, &mut val.fields_buf, val.index.into())"),
 ('N03-C04-clear-before-flush','metrique-writer/src/sink/background.rs',
  "                flush_stream();\n                self.entries_before_wake = 0;\n                self.waiting_wakers.clear();","                self.waiting_wakers.clear();\n                flush_stream();\n                self.entries_before_wake = 0;"),
 ('N04-C09-count-always','metrique-writer/src/sink/background.rs',
  "        if self.queue.force_push(entry).is_some() {\n            if let Some(recorder) = self.recorder.as_ref() {\n                recorder.increment_counter(\"metrique_queue_overflows\", &self.name, 1);\n            }",
  "        if let Some(recorder) = self.recorder.as_ref() {\n            recorder.increment_counter(\"metrique_queue_overflows\", &self.name, 1);\n        }\n        if self.queue.force_push(entry).is_some() {"),
 ('N05-C10-ack-before-flush','metrique-aggregation/src/sink/worker.rs',
  "                        inner.flush();\n                        last_flush = Instant::now();\n                        let _ = sender.send(());","                        let _ = sender.send(());\n                        inner.flush();\n                        last_flush = Instant::now();"),
 ('N06-C11-shared-count-lost','metrique-aggregation/src/histogram.rs',None,None),
 ('N07-C18-switch-loses','metrique/src/timers.rs',
  "let shared_duration = SharedDuration(Arc::new(Mutex::new(duration.take())));","let _ = duration.take(); let shared_duration = SharedDuration(Arc::new(Mutex::new(None)));"),
 ('N08-C19-kilobit-8','metrique-writer-core/src/unit.rs',
  "    Kilobit, AsKilobits, Bit, 1, Kilo;","    Kilobit, AsKilobits, Bit, 8, Kilo;"),
 ('N09-C20-gauge-unit-none','metrique-metricsrs/src/accumulator.rs',None,None),
 ('N10-C16-zero-stall','metrique-writer-format-emf/src/buf.rs',
  "            Ok(0) => return Err(io::ErrorKind::WriteZero.into()),\n","            Ok(0) => {}\n"),
 ('N11-C02-verdict-late','metrique-writer-format-emf/src/emf.rs',None,None),
 ('N12-C12-no-clamp','metrique-writer/src/sample/congress.rs',
  "(group.size_in_congress * scale_factor / average).min(1.0)","(group.size_in_congress * scale_factor / average)"),
 ('N13-C15-option-samplegroup','metrique-writer-core/src/entry/mod.rs',
  "        if let Some(entry) = self.as_ref() {\n            itertools::Either::Left(entry.sample_group())\n        } else {\n            itertools::Either::Right([].into_iter())\n        }",
  "        let _ = self.as_ref().map(|e| itertools::Either::<_, std::array::IntoIter<SampleGroupElement, 0>>::Left(e.sample_group()));\n        [].into_iter()"),
 ('N14-C16-immediate-unwrap','metrique-writer/src/sink/immediate_flush.rs',
  "        if let Err(err) = self.stream.flush() {\n            tracing::warn!(?err, \"couldn't flush metric stream\");\n        }","        self.stream.flush().unwrap();"),
 ('N15-C17-try-append-drop','metrique-writer-core/src/global.rs',
  "                    } else {\n                        Err(entry)\n                    }","                    } else {\n                        drop(entry);\n                        Ok(())\n                    }"),
 ('N16-C06-take-in-handle','metrique/src/lib.rs',None,None),
 ('N17-C05-no-final-flush','metrique-writer/src/sink/background.rs',
  "        self.flush_stream();\n        drop(self.stream); // Close the file before we report we're done!","        drop(self.stream); // Close the file before we report we're done!"),
 ('N18-C14-counts-no-before-clear','metrique-writer-format-emf/src/emf.rs',
  "                counts.clear(); // clear before to make sure there is no risk\n",""),
 ('N19-C08-skip-names-validate','metrique-writer-format-emf/src/emf.rs',
  "        if self.validate_name(&name) {\n            value.write(ValueWriter {","        if self.validate_name(&name) || self.validations.skip_validate_unique {\n            value.write(ValueWriter {"),
 ('N20-C01-unpark-only-overflow','metrique-writer/src/sink/background.rs',None,None),
]
def apply(m):
    name,f,old,new=m
    p=R+f; s=open(p).read()
    if name.startswith('N06'):
        old="                                self.0.record_many(avg, occurrences);"
        i=s.find(old); j=s.find(old,i+1); assert j>0
        s2=s[:j]+"                                self.0.record_many(avg, 1);"+s[j+len(old):]
    elif name.startswith('N09'):
        old="                    value: [Observation::Floating(*value)],\n                    unit: *unit,"
        assert old in s
        s2=s.replace(old,"                    value: [Observation::Floating(*value)],\n                    unit: { let _ = unit; metrique_writer_core::Unit::None },",1)
    elif name.startswith('N11'):
        a="        self.error.build()?;\n        self.state\n            .decl_buf"
        assert a in s
        s2=s.replace(a,"        self.state\n            .decl_buf",1)
        b="        // if we emitted any dimensioned line and there are no fields with no dimensions,"
        assert b in s2
        s2=s2.replace(b,"        std::mem::take(&mut self.error).build()?;\n"+b,1)
    elif name.startswith('N16') or name.startswith('N20'):
        return None
    else:
        assert s.count(old)>=1,(name,'not found')
        s2=s.replace(old,new,1)
    open(p,'w').write(s2); return (p,s)
res={}
only=sys.argv[1:]
for m in M:
    if only and not any(m[0].startswith(o) for o in only): continue
    st=apply(m)
    if st is None: continue
    p,orig=st
    try:
        r=subprocess.run('CARGO_NET_OFFLINE=true CARGO_TARGET_DIR=/var/tmp/mqs/target timeout 900 cargo nextest run --workspace --no-fail-fast --tool-config-file pb:/w/lib/nextest.toml --profile pb --test-threads 8 --offline 2>&1 | tail -60',shell=True,cwd=R,capture_output=True,text=True,timeout=1500)
        out=r.stdout
        summ=[l.strip() for l in out.splitlines() if 'Summary' in l or 'could not compile' in l or l.startswith('error')]
        fails=[l.strip()[:140] for l in out.splitlines() if l.strip().startswith(('FAIL','TIMEOUT','SIGABRT','SIGSEGV'))]
        res[m[0]]={'summary':summ,'fails':sorted(set(fails))[:5]}
        print(m[0],summ[:3],sorted(set(fails))[:4],flush=True)
    finally:
        open(p,'w').write(orig)
json.dump(res,open('/var/tmp/mqs/mut2_results.json','w'),indent=1)

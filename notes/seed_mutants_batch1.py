import subprocess,sys,os,json
R='/var/tmp/mqs/repo/'
M=[
 ('M01-C15-dyn-flags-dropped','metrique-writer-core/src/entry/boxed.rs',
  "                .as_slice(),\n            flags,\n        )\n    }\n\n    fn error(self, error: ValidationError) {\n        self.0.error(error)\n    }\n}\n\n#[cfg(test)]",
  "                .as_slice(),\n            MetricFlags::empty(),\n        )\n    }\n\n    fn error(self, error: ValidationError) {\n        self.0.error(error)\n    }\n}\n\n#[cfg(test)]"),
 ('M02-C15-dims-order','metrique-writer-core/src/value/dimensions.rs',
  "            dimensions\n                .into_iter()\n                .map(|(k, v)| (k, v)) // reborrow to align lifetimes\n                .chain(self.dimensions.iter().map(|(c, i)| (&**c, &**i))),",
  "            self.dimensions.iter().map(|(c, i)| (&**c, &**i)).chain(dimensions\n                .into_iter()\n                .map(|(k, v)| (k, v))),"),
 ('M03-C14-no-dimset-clear','metrique-writer-format-emf/src/emf.rs',
  "        self.state.dimension_set_map.clear();\n","        // self.state.dimension_set_map.clear();\n"),
 ('M04-C20-load-store','metrique-metricsrs/src/generic.rs',
  "let counter = counter.swap(0, Ordering::Relaxed);","let c0 = counter.load(Ordering::Relaxed); counter.store(0, Ordering::Relaxed); let counter = c0;"),
 ('M05-C16-tee-and-then','metrique-writer/src/stream.rs',
  "self.s1.next(entry).and(self.s2.next(entry))","self.s1.next(entry).and_then(|()| self.s2.next(entry))"),
 ('M06-C12-lt','metrique-writer/src/sample/mod.rs',
  "if self.rng.random::<f32>() <= self.rate {","if self.rng.random::<f32>() < self.rate {"),
 ('M07-C17-poison','metrique-writer-core/src/global.rs',
  "                        drop(write); // don't poison\n","                        // drop(write); // don't poison\n"),
 ('M08-C13-release-first','metrique/src/slot.rs',
  "        if let SlotI::Writable { value, tx } = std::mem::replace(&mut self.slot, SlotI::Dropped) {",
  "        drop(std::mem::replace(&mut self.parent_drop_mode, OnParentDrop::Discard));\n        if let SlotI::Writable { value, tx } = std::mem::replace(&mut self.slot, SlotI::Dropped) {"),
 ('M10-C07-arm57','metrique-core/src/concat.rs',
  "57 => ConcatenatedLen::<S, T, 57>::MAYBE_VAL","57 => ConcatenatedLen::<S, T, 56>::MAYBE_VAL"),
 ('M11-C01-retry','metrique-writer/src/sink/background.rs',
  "            Err(IoStreamError::Io(err)) => {\n                self.metric_io_errors += 1;\n",
  "            Err(IoStreamError::Io(err)) => {\n                let _ = self.stream.next(&entry);\n                self.metric_io_errors += 1;\n"),
 ('M12-C04-and','metrique-writer/src/sink/background.rs',
  "if self.entries_before_wake == 0 || status == DrainResult::Drained {","if self.entries_before_wake == 0 && status == DrainResult::Drained {"),
 ('M14-C03-float-weight','metrique-writer-format-emf/src/emf.rs',
  "                    Self::write_float(buf, v);\n                    counts.push_integer(multiplicity);","                    Self::write_float(buf, v);\n                    counts.push_integer(1u64);"),
 ('M15-C10-tee-flush-one','metrique-aggregation/src/sink.rs',
  "        self.sink_by_ref.flush();\n        self.sink_owned.flush();","        self.sink_owned.flush();"),
 ('M16-C18-owned-discard','metrique/src/timers.rs',None,None),
 ('M17-C19-repeated-total','metrique-writer-core/src/unit.rs',
  "                total: total * Self::RATIO,","                total,"),
 ('M20-C05-flush-before-drain','metrique-writer/src/sink/background.rs',
  "        let (status, _count) = self.drain_until_deadline(deadline);\n        if status == DrainResult::HitDeadline {\n            tracing::warn!(\"unable to drain metrics queue while shutting down\");\n        }\n        self.flush_stream();\n",
  "        self.flush_stream();\n        let (status, _count) = self.drain_until_deadline(deadline);\n        if status == DrainResult::HitDeadline {\n            tracing::warn!(\"unable to drain metrics queue while shutting down\");\n        }\n"),
 ('M21-C08-gate-buffer','metrique-writer-format-emf/src/emf.rs',
  "        self.entry\n            .state\n            .string_fields_buf\n            .push(',')\n            .json_string(&self.name)\n            .push(':')\n            .json_string(value);\n\n        if !self.entry.validations.skip_validate_unique {\n            self.validate_string();\n        }",
  "        if !self.entry.validations.skip_validate_unique {\n            self.validate_string();\n            if value.is_empty() { return; }\n        }\n        self.entry\n            .state\n            .string_fields_buf\n            .push(',')\n            .json_string(&self.name)\n            .push(':')\n            .json_string(value);"),
 ('M22-C02-raw-unit','metrique-writer-format-emf/src/emf.rs',
  "                .push_raw_str(r#\",\"Unit\":\"#)\n                .json_string(unit.name());","                .push_raw_str(r#\",\"Unit\":\"\"#)\n                .push_raw_str(unit.name()).push('\"');"),
 ('M23-C09-drop-newest','metrique-writer/src/sink/background.rs',
  "if self.queue.force_push(entry).is_some() {","if self.queue.push(entry).is_err() {"),
 ('M24-C06-guard-clone-cell','metrique/src/keep_alive.rs',None,None),
]
# M16: second occurrence of discard body (OwnedTimerGuard)
def apply(m):
    name,f,old,new=m
    p=R+f; s=open(p).read()
    if name.startswith('M16'):
        old="    pub fn discard(mut self) {\n        self.self_time.take();\n        self.start.take();\n    }\n"
        i=s.find(old); j=s.find(old,i+1); assert j>0
        s2=s[:j]+"    pub fn discard(mut self) {\n        self.self_time.take();\n    }\n"+s[j+len(old):]
    elif name.startswith('M24'):
        return None
    else:
        assert s.count(old)>=1,(name,'not found')
        s2=s.replace(old,new,1)
    open(p,'w').write(s2); return (p,s)
res={}
only=sys.argv[1:] 
for m in M:
    if only and not any(m[0].startswith(o) for o in only): continue
    st=apply(m)
    if st is None: continue
    p,orig=st
    try:
        r=subprocess.run('CARGO_NET_OFFLINE=true CARGO_TARGET_DIR=/var/tmp/mqs/target cargo nextest run --workspace --no-fail-fast --tool-config-file pb:/w/lib/nextest.toml --profile pb --test-threads 8 --offline 2>&1 | tail -40',shell=True,cwd=R,capture_output=True,text=True,timeout=1500)
        out=r.stdout
        summ=[l for l in out.splitlines() if 'Summary' in l or 'error' in l.lower() and 'could not compile' in l]
        fails=[l.strip() for l in out.splitlines() if l.strip().startswith(('FAIL','TIMEOUT','SIGABRT','SIGSEGV'))]
        res[m[0]]={'summary':summ,'fails':sorted(set(fails))[:6]}
        print(m[0],summ,sorted(set(fails))[:6],flush=True)
    finally:
        open(p,'w').write(orig)
json.dump(res,open('/var/tmp/mqs/mut_results.json','w'),indent=1)

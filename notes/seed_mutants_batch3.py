import subprocess,sys,os,json
R='/var/tmp/mqs/repo/'
M=[
 ('P01-C09-amount2','metrique-writer/src/sink/background.rs',
  'recorder.increment_counter("metrique_queue_overflows", &self.name, 1);','recorder.increment_counter("metrique_queue_overflows", &self.name, 2);'),
 ('P02-C09-sleep','metrique-writer/src/sink/background.rs',
  "        if self.queue.force_push(entry).is_some() {","        std::thread::sleep(Duration::from_micros(1));\n        if self.queue.force_push(entry).is_some() {"),
 ('P03-C13-lazy-mode','metrique/src/slot.rs',
  "            .open(mode)\n","            .open({ drop(mode); OnParentDrop::Discard })\n"),
 ('P04-C18-timer-source','metrique/src/timers.rs',
  "    pub fn start_now_with_timesource(timesource: TimeSource) -> Self {\n        Self {\n            start: timesource.instant(),","    pub fn start_now_with_timesource(timesource: TimeSource) -> Self {\n        let _ = timesource;\n        Self {\n            start: time_source().instant(),"),
 ('P05-C18-ts-onclose','metrique/src/timers.rs',
  "        TimestampValue::new(&self.time_source.system_time())","        TimestampValue::new(&time_source().system_time())"),
 ('P06-C03-ns-repl','metrique-writer-format-emf/src/emf.rs',
  "            for namespace in &self.state.namespaces[1..] {\n                entry\n","            for namespace in &self.state.namespaces[..0] {\n                entry\n"),
 ('P07-C06-close-twice','metrique/src/lib.rs',
  "        let entry = entry.close();\n        self.sink.append(RootEntry::new(entry));","        let entry = entry.close();\n        if std::thread::panicking() { return; }\n        self.sink.append(RootEntry::new(entry));"),
]
def apply(m):
    name,f,old,new=m
    p=R+f; s=open(p).read()
    if name.startswith('N06'):
        old="                                self.0.record_many(avg, occurrences);"
        i=s.find(old); j=s.find(old,i+1); assert j>0
        s2=s[:j]+"                                self.0.record_many(avg, 1);"+s[j+len(old):]
    elif name.startswith('N09'):
        old="                    value: [Observation::Floating(*value)],\n                    unit: *unit,"
        assert old in s
        s2=s.replace(old,"                    value: [Observation::Floating(*value)],\n                    unit: { let _ = unit; metrique_writer_core::Unit::None },",1)
    elif name.startswith('N11'):
        a="        self.error.build()?;\n        self.state\n            .decl_buf"
        assert a in s
        s2=s.replace(a,"        self.state\n            .decl_buf",1)
        b="        // if we emitted any dimensioned line and there are no fields with no dimensions,"
        assert b in s2
        s2=s2.replace(b,"        std::mem::take(&mut self.error).build()?;\n"+b,1)
    elif name.startswith('N16') or name.startswith('N20'):
        return None
    else:
        assert s.count(old)>=1,(name,'not found')
        s2=s.replace(old,new,1)
    open(p,'w').write(s2); return (p,s)
res={}
only=sys.argv[1:]
for m in M:
    if only and not any(m[0].startswith(o) for o in only): continue
    st=apply(m)
    if st is None: continue
    p,orig=st
    try:
        r=subprocess.run('CARGO_NET_OFFLINE=true CARGO_TARGET_DIR=/var/tmp/mqs/target timeout 900 cargo nextest run --workspace --no-fail-fast --tool-config-file pb:/w/lib/nextest.toml --profile pb --test-threads 8 --offline 2>&1 | tail -60',shell=True,cwd=R,capture_output=True,text=True,timeout=1500)
        out=r.stdout
        summ=[l.strip() for l in out.splitlines() if 'Summary' in l or 'could not compile' in l or l.startswith('error')]
        fails=[l.strip()[:140] for l in out.splitlines() if l.strip().startswith(('FAIL','TIMEOUT','SIGABRT','SIGSEGV'))]
        res[m[0]]={'summary':summ,'fails':sorted(set(fails))[:5]}
        print(m[0],summ[:3],sorted(set(fails))[:4],flush=True)
    finally:
        open(p,'w').write(orig)
json.dump(res,open('/var/tmp/mqs/mut3_results.json','w'),indent=1)

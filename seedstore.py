#!/usr/bin/env python3
"""store a confirmed seeded change under /verif/seeded/<name>/ and record what the checks said about it"""
import json, os, shutil, subprocess, sys
name, out, prop, status, rules, note = sys.argv[1:7]
dst = os.path.join("/verif/seeded", name)
os.makedirs(dst, exist_ok=True)
for f in os.listdir(out):
    if f.endswith((".rs", ".md", ".diff", ".json", ".toml")) and os.path.getsize(os.path.join(out, f)) < 200000:
        shutil.copy(os.path.join(out, f), os.path.join(dst, f))
meta = {}
mp = os.path.join(dst, "meta.json")
if os.path.exists(mp):
    try:
        meta = json.load(open(mp))
    except Exception:
        meta = {}
conf = open(os.path.join(out, "confirm.log")).read().strip().splitlines()[-1] if os.path.exists(os.path.join(out, "confirm.log")) else ""
meta.update({
    "property": prop,
    "origin": "fresh sub-agent given only the property text and a scratch worktree (nothing from /verif)",
    "confirmed_by_me": conf,
    "what_i_ran": ["./seedconfirm (demo on clean tree passes, demo with patch fails, pinned 349-test suite passes with patch) in a scratch worktree outside /repo and /verif",
                   "./seedrun <dir> %s  (git -C /repo apply patch.diff; ./check %s; git -C /repo checkout -- .)" % (prop, prop)],
    "check_verdict": status,
    "rules_firing": rules.split(",") if rules else [],
    "note": note,
})
json.dump(meta, open(mp, "w"), indent=1)
print("stored", dst)

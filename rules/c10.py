"""C10 — aggregation conserves inputs; worker terminates (structural clauses)."""
from mq.util import *
from mq.prov import Prov
from mq.sim import Sim, Budget
from mq.facts import CallSite

EXPL = ("R10.1 each sink-level merge/insert/send body moves its by-value entry into exactly one consuming call on every path "
        "(drop-flag aware linearity; close/RootEntry::new/message wrapping are carriers); R10.7 every AggregateValue::insert strategy "
        "consumes its value exactly once on every path on which it holds one; R10.9 each value strategy applies its "
        "documented operation to (accumulator, value): Sum add_assign, KeepLast an unconditional `= Some(value)`, Flatten merge, Distribution / "
        "Histogram add_value / record, the wrappers delegate to the inner insert; R10.2 flush drains the whole map and appends one result "
        "per drained item, built from the closed key and the closed aggregate; R10.3 the tee feeds and flushes both branches on every "
        "path; R10.4 the worker handles Entry by exactly one merge and acknowledges a Flush only after flushing; R10.11 every raw-entry lookup/insert with a precomputed hash computes that hash with the hasher of the same map (a retained copy of the builder is accepted only while no body replaces the map); R10.10 the future returned by the worker sink's flush sends its request and awaits the paired "
        "acknowledgement on every path to completion (followed across its await points); R10.5 every spawned "
        "worker closure can return, and the disconnected outcome of the receive leads to Return through a final flush; R10.6 "
        "merge-on-drop guards take and merge exactly once; R10.8 (on the proc macro's own MIR) the generators of Merge/MergeRef impls "
        "interpolate the same field identifier into `accum.#f` and `input.#f` and skip only key/ignored fields. Not decided: "
        "sums/histogram contents for arbitrary inputs, key hashing.")
AG = "metrique_aggregation"

CONSUMERS = ("merge", "insert", "insert_direct", "append", "send", "add_value", "add_assign", "merge_ref", "insert_hashed_nocheck")


def is_consumer(cs, i):
    if cs is None:
        # stored into the accumulator (e.g. `*accum = Some(value)`)
        return True
    return cs.name in CONSUMERS


def carriers(cs):
    return cs.name in ("close", "new", "into", "from", "boxed") and ("CloseValue" in cs.def_ or "RootEntry" in cs.def_ or "convert" in cs.def_ or "Box" in cs.def_)


def run(ctx):
    F = ctx.facts("dbg")
    # ------------------------------------------------------------------ R10.1
    bodies = []
    for b in F.all_bodies(AG):
        if "::tests::" in b.path or b.kind != "AssocFn":
            continue
        tr = ((b.impl or {}).get("trait") or "")
        if (b.name == "merge" and (tr.endswith("::AggregateSink") or tr.endswith("::RootSink"))) or \
           (b.name in ("send", "insert", "insert_direct", "insert_and_send_to") and not tr and b.path.startswith(AG + "::")):
            # by-value entry = 2nd parameter, not a reference
            if b.arg_count >= 2 and not b.locals[2]["ty"].startswith("&"):
                bodies.append(b)
    ctx.floor("R10.1", "sink-level bodies taking an entry by value", len(bodies), 6)
    for b in bodies:
        check_linear(ctx, "R10.1", b, 2, is_consumer, what="entry", carriers=carriers)
    # ------------------------------------------------------------------ R10.7
    strat = [b for b in F.all_bodies(AG) if b.name == "insert" and b.impl and (b.impl.get("trait") or "").endswith("::AggregateValue") and "::tests::" not in b.path]
    ctx.floor("R10.7", "AggregateValue::insert strategies", len(strat), 5)
    for b in strat:
        ty = b.locals[2]["ty"]
        if ty.startswith("&"):
            # by-reference value: it must be read (copied) and handed on
            pr = Prov(b)
            used = [c for c in b.calls() if c.name in CONSUMERS and any(any(o[0] == "arg" and o[1] == 2 for o in pr.operand(a)) for a in c.args)]
            ok, why = exactly_once(b, [c.bb for c in used])
            ctx.check(ok, "R10.7", fnkey(b) + "#value-used-once", loc(b), "by-reference value is not handed on exactly once: " + why)
            continue
        if ty.startswith("core::option::Option<"):
            starts = []
            for i in b.live_blocks():
                for s in b.stmts(i):
                    if s["k"] == "assign" and s["rv"]["k"] == "use" and "move" in s["rv"]["op"]:
                        src = s["rv"]["op"]["move"]
                        if src["l"] == 2 and [e[0] for e in src.get("p", [])] == ["dc", "f"] and not s["lhs"].get("p"):
                            starts.append(s["lhs"]["l"])
            ctx.check(bool(starts), "R10.7", fnkey(b) + "#some-payload-taken", loc(b), "the Some payload of the optional value is never taken: present values are dropped")
            for st in starts:
                check_linear(ctx, "R10.7", b, st, is_consumer, what="value")
            continue
        # a struct value consumed field-wise (e.g. `for obs in value.observations`)
        parts = []
        for i in b.live_blocks():
            for s in b.stmts(i):
                if s["k"] == "assign" and s["rv"]["k"] == "use" and "move" in s["rv"]["op"]:
                    src = s["rv"]["op"]["move"]
                    if src["l"] == 2 and [e[0] for e in src.get("p", [])] == ["f"] and not s["lhs"].get("p"):
                        parts.append(s["lhs"]["l"])
        if parts:
            for st in parts:
                # (handing the part to a private helper of the crate that iterates it is consuming it too)
                check_linear(ctx, "R10.7", b, st, lambda cs, i: cs is None or cs.name in CONSUMERS + ("into_iter", "extend") or
                             any(sb.crate == AG and any(x.name in ("into_iter", "next", "for_each") for x in sb.calls()) for sb in local_callee_bodies(F, cs)), what="value-part")
            continue
        # a by-value private accessor that hands out (a part of) the value (`value.into_drained()`) passes the obligation on to its result
        def _accessor(cs):
            from rules.c15 import is_self_accessor
            return cs is not None and len(cs.args) == 1 and not cs.dest.get("p") and bool(local_callee_bodies(F, cs)) and \
                all(hb.crate == AG and not hb.locals[1]["ty"].startswith("&") and is_self_accessor(hb) for hb in local_callee_bodies(F, cs))
        part_consumer = lambda cs, i: cs is None or cs.name in CONSUMERS + ("into_iter", "extend") or \
            any(sb.crate == AG and any(x.name in ("into_iter", "next", "for_each") for x in sb.calls()) for sb in local_callee_bodies(F, cs))
        # the value lent to a method of the accumulator that replays it into the strategy (`accum.record_ref(&value)`) is handed on there
        def _lend(cs, i, b=b):
            if not cs.args or i == 0 or not any(x[0] == "arg" and x[1] == 1 for x in Prov(b).operand(cs.args[0])):
                return False
            feeds = lambda c_: c_.name in CONSUMERS or (c_.name in ("record", "record_many") and "AggregationStrategy" in (c_.trait or "")) or c_.is_trait_method("Value", "write")
            return cs.name in CONSUMERS or any(hb.crate == AG and reaches_call(F, hb, feeds, depth=3) for hb in local_callee_bodies(F, cs))
        lin = check_linear(ctx, "R10.7", b, 2, lambda cs, i: is_consumer(cs, i) or _accessor(cs), what="value", lend=_lend)
        if lin is not None:
            for bb_, (t_, i_) in lin.consumers.items():
                cs_ = CallSite(b, bb_, t_)
                if not is_consumer(cs_, i_) and _accessor(cs_):
                    check_linear(ctx, "R10.7", b, cs_.dest["l"], part_consumer, what="value-part")
    # ------------------------------------------------------------------ R10.9 what each value strategy does with the value (table confirmed by reading value.rs / histogram.rs)
    # strategy type suffix -> (operation, callee-name) ; "store-some" = `*accum = Some(value)` on every path
    TABLE = {"value::Sum": ("call", "add_assign"), "value::KeepLast": ("store-some", None), "value::Flatten": ("call", "merge"),
             "value::Distribution": ("call", "add_value"), "value::MergeOptions": ("call", "insert"), "value::CopyWrapper": ("call", "insert"),
             "histogram::Histogram": ("call", ("add_value", "record", "record_many"))}
    n9 = 0
    for b in strat:
        st_ = (b.impl.get("self_ty") or "")
        ent = [(k, v) for k, v in TABLE.items() if (AG + "::" + k) == st_.split("<")[0]]
        if not ent:
            ctx.note("R10.9: strategy %s is not in the confirmed table (not judged)" % st_)
            continue
        kname, (op, callee) = ent[0]
        n9 += 1
        pr = Prov(b)
        key = fnkey(b) + "#strategy-operation"
        if op == "store-some":
            sts = []
            for i in b.live_blocks():
                for s_ in b.stmts(i):
                    if s_["k"] == "assign" and s_["lhs"]["l"] == 1 and [e[0] for e in s_["lhs"].get("p", [])] == ["deref"]:
                        o = pr.operand(s_["rv"]["op"]) if s_["rv"]["k"] == "use" else (
                            {("agg", i, s_["rv"].get("variant"))} | set().union(*[pr.operand(x) for x in s_["rv"]["ops"]]) if s_["rv"]["k"] == "agg" else set())
                        if any(x[0] == "agg" and x[2] == "Some" for x in o) and any(x[0] == "arg" and x[1] == 2 for x in o):
                            sts.append(i)
            guards = [i for i in b.live_blocks() if b.term(i)["k"] == "switch" and not b.is_cleanup(i)]
            ctx.check(bool(sts) and b.must_pass(sts) and not guards, "R10.9", key, loc(b),
                      "%s does not unconditionally replace the accumulator by Some(value): the aggregate would not hold the last input" % kname,
                      "*accum = Some(value) on every path, no branch")
            continue
        names = (callee,) if isinstance(callee, str) else callee
        sites = [c for c in b.calls() if c.name in names and c.args and any(x[0] == "arg" and x[1] == 1 for x in pr.operand(c.args[0]))
                 and (len(c.args) < 2 or kname == "histogram::Histogram" or any(x[0] == "arg" and x[1] == 2 for x in pr.operand(c.args[1])))]
        if not sites:
            # the same operation one step away: inside a closure of this body (`for_each(|x| accum_part.op(x))`) or inside a private helper
            # of the crate that is handed (a reference into) the accumulator
            def _from_accum(op_, n_=0):
                if any(x[0] == "arg" and x[1] == 1 for x in pr.operand(op_)):
                    return True
                l_ = op_local(op_)
                if l_ is None or n_ > 3:
                    return False
                for kind_, bb_, idx_, node_ in b.defs().get(l_, []):
                    if kind_ == "assign" and node_["k"] == "assign" and node_["rv"]["k"] == "agg" and any(_from_accum(o_, n_ + 1) for o_ in node_["rv"]["ops"]):
                        return True
                return False
            for cb_ in F.closures_of(b):
                sites += [c for c in cb_.calls() if c.name in names]
            for c in b.calls():
                if any(_from_accum(a) for a in c.args):
                    for hb in local_callee_bodies(F, c):
                        if hb.crate == AG:
                            sites += [x for x in hb.calls() if x.name in names]
        if not sites and any(n_ in ("add_value", "record", "record_many") for n_ in names):
            # ... or a method of the accumulator that replays the value into the aggregation strategy (what `add_value` is), under another name
            rec_ = lambda c_: (c_.name in ("record", "record_many") and "AggregationStrategy" in (c_.trait or "")) or c_.is_trait_method("Value", "write")
            sites += [c for c in b.calls() if c.args and any(x[0] == "arg" and x[1] == 1 for x in pr.operand(c.args[0])) and
                      any(hb.crate == AG and hb.kind != "Closure" and reaches_call(F, hb, rec_, depth=4) for hb in local_callee_bodies(F, c))]
        others = [c for c in b.calls() if c.name in ("sub_assign", "mul_assign", "clone_from", "clear", "take", "replace") and c.args and
                  any(x[0] == "arg" and x[1] == 1 for x in pr.operand(c.args[0]))]
        plain_store = [i for i in b.live_blocks() for s_ in b.stmts(i) if s_["k"] == "assign" and s_["lhs"]["l"] == 1 and [e[0] for e in s_["lhs"].get("p", [])] == ["deref"]]
        ctx.check(bool(sites) and not others and not plain_store, "R10.9", key, loc(b),
                  "%s no longer folds the value into the accumulator with `%s(accum, value)` (found %s%s%s)" % (
                      kname, "/".join(names), [c.name for c in sites], ", also " + str([c.name for c in others]) if others else "", ", plain overwrite of the accumulator" if plain_store else ""),
                  "%s(accum, value)" % sites[0].name if sites else "")
    ctx.floor("R10.9", "value strategies judged against the table", n9, 5)
    # ------------------------------------------------------------------ R10.2 flush emits everything
    # emptying the map: `drain()` on it, or taking the whole map out (mem::take / replace) and iterating the taken value
    def _emptiers(b):
        out = [c for c in b.calls() if c.name == "drain" and "HashMap" in c.def_]
        for c in b.calls():
            if c.is_("core::mem::take", "core::mem::replace") and c.args and "HashMap<" in b.local_ty(c.dest["l"]):
                out.append(c)
            elif not (c.name == "drain" and "HashMap" in c.def_):
                # a private one-line accessor of the storage that is exactly such a drain of its receiver's map (`self.storage.drain()`)
                for hb in local_callee_bodies(F, c):
                    hd = [x for x in hb.calls() if x.name == "drain" and "HashMap" in x.def_]
                    if hb.crate == AG and hb.kind != "Closure" and len(hd) == 1 and len(hb.calls()) <= 2 and not hd[0].dest.get("p") and \
                            (hd[0].dest["l"] == 0 or ("call", hd[0].bb) in Prov(hb).local(0)) and any(x[0] == "arg" and x[1] == 1 for x in Prov(hb).operand(hd[0].args[0])):
                        out.append(c)
        return out
    fl = [b for b in F.all_bodies(AG) if b.name == "flush" and b.impl and (b.impl.get("trait") or "").endswith("::FlushableSink") and _emptiers(b)]
    ctx.floor("R10.2", "flush bodies draining a map", len(fl), 1)
    for b in fl:
        pr = Prov(b)
        key = fnkey(b)
        dr = _emptiers(b)
        for c in dr:
            ro = pr.operand(c.args[0])
            ctx.check(any(x[0] == "arg" and x[1] == 1 and x[2] for x in ro), "R10.2", key + "#drains-own-storage", loc(b, c.bb), "drain is not applied to the aggregator's own storage")
        nx = [c for c in b.calls() if c.is_trait_method("Iterator", "next") and c.bb in b.reachable_after(c.bb)]
        aps = [c for c in b.calls() if c.is_trait_method("EntrySink", "append")]
        def _chain(c):
            """closures applied once per drained item when the iterator consumed by `c` is the drain itself or the drain behind
            one-to-one lazy adapters (`map`, `inspect`); None when it is something else (or an adapter that can drop items)"""
            cls, cur = [], c
            for _ in range(6):
                o = pr.operand(cur.args[0]) if cur.args else set()
                if any(("call", d.bb) in o or ("via", d.bb) in o for d in dr):
                    return cls
                prev = [CallSite(b, x[1], b.term(x[1])) for x in o if x[0] == "call"]
                if len(prev) != 1 or prev[0].name not in ("map", "inspect") or not prev[0].is_trait_method("Iterator", prev[0].name):
                    return None
                cls = closure_args(F, prev[0]) + cls
                cur = prev[0]
            return None
        fe = [(c, _chain(c)) for c in b.calls() if c.name in ("for_each", "try_for_each")]
        fe = [(c, ch) for c, ch in fe if ch is not None]
        if not nx and fe:
            # iterator-adapter form: the closures are invoked once per drained item
            okf = False
            for c, ch in fe:
                for cb in closure_args(F, c):
                    caps = [x for x in cb.calls() if x.is_trait_method("EntrySink", "append")]
                    cl = [x for cc in [cb] + ch for x in cc.calls() if x.name == "close"]
                    ok1, why1 = exactly_once(cb, [x.bb for x in caps])
                    okf = okf or (ok1 and len(cl) >= 2)
            ctx.check(okf, "R10.2", key + "#per-item-append", loc(b), "the per-item closure of the drain does not append exactly one result built from the closed key and aggregate")
            continue
        ctx.check(len(nx) == 1 and len(aps) >= 1, "R10.2", key + "#drain-loop", loc(b), "expected one drain loop with an append (next=%d append=%d)" % (len(nx), len(aps)))
        if len(nx) == 1 and aps:
            n = nx[0]
            some_t = None
            for sw, tg, oth in switch_on_call_result(b, n):
                some_t = tg.get(1)
            if some_t is None:
                ctx.bad("R10.2", key + "#per-item-append", loc(b, n.bb), "the drained item is not matched")
            else:
                back_without = n.bb in b.reachable(some_t, avoid=[a.bb for a in aps])
                twice = any(x.bb in b.reachable_after(a.bb, avoid=[n.bb]) for a in aps for x in aps)
                ctx.check(not back_without and not twice, "R10.2", key + "#per-item-append", loc(b, some_t),
                          "a drained (key, aggregate) pair can be %s" % ("skipped without being appended" if back_without else "appended twice"))
                for a in aps:
                    o = pr.operand(a.args[1])
                    closes = [x[1] for x in o if x[0] == "call" and (b.term(x[1]).get("callee") or {}).get("name") == "close"]
                    srcs = set()
                    for cb in closes:
                        for y in pr.operand(b.term(cb)["args"][0]):
                            if y[0] == "callf" and y[1] == n.bb:
                                srcs.add(y[2][-1] if y[2] else "")
                    ctx.check(len(closes) >= 2 and len(srcs) >= 2, "R10.2", key + "#result-from-key-and-aggregate", loc(b, a.bb),
                              "the appended result is not built from both the closed key and the closed aggregate of the drained item (closes=%d, item parts=%s)" % (len(closes), sorted(srcs)))
    # ------------------------------------------------------------------ R10.11 keyed lookups hash with the table's own hasher
    nh = 0
    for b in F.all_bodies(AG):
        if "::tests::" in b.path:
            continue
        raws = [c for c in b.calls() if c.name in ("from_hash", "from_key_hashed_nocheck", "insert_hashed_nocheck", "insert_with_hasher") and "hashbrown" in c.def_]
        if not raws:
            continue
        pr = Prov(b, adapter_pred=lambda t: (t.get("callee") or {}).get("name") in ("raw_entry_mut", "raw_entry", "deref", "deref_mut"))
        maps = set()
        for c in b.calls():
            if c.name in ("raw_entry_mut", "raw_entry") and c.args:
                maps |= {x for x in pr.operand(c.args[0]) if x[0] == "arg"}
        for c in raws:
            hop = [a for a in c.args if op_local(a) is not None and b.local_ty(op_local(a)) == "u64"]
            if not hop:
                continue
            nh += 1
            okh, why = False, "hash origin not understood"
            for x in pr.operand(hop[0]):
                if x[0] == "call" and (b.term(x[1]).get("callee") or {}).get("name") in ("hash_one", "make_hash", "hash"):
                    ro = pr.operand(b.term(x[1])["args"][0])
                    hcalls = [y for y in ro if y[0] == "call" and (b.term(y[1]).get("callee") or {}).get("name") == "hasher"]
                    same = False
                    for y in hcalls:
                        mo = {z for z in pr.operand(b.term(y[1])["args"][0]) if z[0] == "arg"}
                        same = same or bool(mo & maps)
                    okh = same
                    why = "" if same else "the hash is computed with %s, not with `<the same map>.hasher()`" % sorted(map(str, ro))[:2]
            if not okh:
                # a retained copy of the builder is equivalent as long as the table itself is never replaced (drain/clear keep its builder)
                replaced = [x for bb_ in F.all_bodies(AG) if "::tests::" not in bb_.path for x in bb_.calls()
                            if x.is_("core::mem::take", "core::mem::replace") and x.args and "HashMap<" in bb_.local_ty(x.dest["l"])]
                if not replaced:
                    okh = True
                else:
                    why += "; and the table is replaced in %s" % sorted({x.body.name for x in replaced})
            ctx.check(okh, "R10.11", fnkey(b) + "#hash-from-the-tables-own-hasher@%s" % c.name, loc(b, c.bb),
                      "a raw-entry lookup/insert uses a hash that is not computed with the hasher of the very table it is applied to (%s): once the table "
                      "is replaced or re-seeded, lookups miss existing keys and one key gets several aggregates" % why,
                      "hash = map.hasher().hash_one(key) of the same map")
    ctx.floor("R10.11", "raw-entry operations with a precomputed hash", nh, 2)
    # ------------------------------------------------------------------ R10.3 tee symmetry
    tees = []
    for imp in F.impls_of("AggregateSink") + F.impls_of("FlushableSink"):
        if imp["crate"] != AG:
            continue
        adt = F.adts.get((imp.get("self_head") or {}).get("adt"))
        if adt and len([f for v in adt["variants"] for f in v["fields"] if (f.get("head") or {}).get("param")]) >= 2:
            tees.append(imp)
    ctx.floor("R10.3", "tee-like sink impls (two generic inner sinks)", len(tees), 2)
    for imp in tees:
        adt = F.adts[imp["self_head"]["adt"]]
        fields = [f["name"] for v in adt["variants"] for f in v["fields"] if (f.get("head") or {}).get("param")]
        for it in imp["items"]:
            if it["name"] not in ("merge", "flush"):
                continue
            b = F.bodies.get((AG, it.get("uid") or it["def"]))
            if b is None:
                continue
            pr = Prov(b)
            for f in fields:
                sites = [c for c in b.calls() if c.name in ("merge", "merge_ref", "flush") and c.args and any(o[0] == "arg" and o[1] == 1 and f in o[2] for o in pr.operand(c.args[0]))]
                ok, why = exactly_once(b, [c.bb for c in sites])
                ctx.check(ok, "R10.3", fnkey(b) + "#feeds-" + f, loc(b), "tee `%s` does not reach branch `%s` exactly once on every path (%s)" % (it["name"], f, why))
    # ------------------------------------------------------------------ R10.4 / R10.5 worker
    spawned = []
    for b in F.all_bodies(WS_LIBS):
        for c in b.calls():
            if c.is_in("std::thread", "spawn", "spawn_scoped", "spawn_unchecked"):
                for cb in closure_args(F, c):
                    spawned.append((c, cb))
    ctx.floor("R10.5", "thread spawn sites in library crates", len(spawned), 2)
    for c, cb in spawned:
        key = fnkey(cb)
        rets = [r for r in cb.return_blocks() if r in cb.live_blocks()]
        # a closure that merely calls a workspace fn is covered through that fn (C05 for the background queue)
        delegates = [sb for x in cb.calls() for sb in local_callee_bodies(F, x) if sb.crate == cb.crate and not is_noise(x)]
        if rets and delegates and not any(x.name.startswith("recv") for x in cb.calls()):
            ctx.ok("R10.5", key + "#can-return", loc(cb), "returns after delegating to %s" % delegates[0].name)
            continue
        ctx.check(bool(rets), "R10.5", key + "#can-return", loc(cb),
                  "the spawned thread body has no reachable Return: once every handle is gone the thread keeps running forever")
        if cb.crate != AG:
            continue
        recvs = [x for x in cb.calls() if x.is_in("std::sync::mpsc", "Receiver::recv_timeout", "Receiver::recv", "Receiver::try_recv", "Receiver::recv_deadline")]
        ctx.check(len(recvs) >= 1, "R10.4", key + "#receives", loc(cb), "worker loop has no receive site")
        if not recvs:
            continue
        # every receive site must handle an Entry message: a site that only looks for Flush silently drops entries
        for rx in recvs:
            took = False
            for i in cb.live_blocks():
                for s_ in cb.stmts(i):
                    if s_["k"] == "assign" and s_["rv"]["k"] == "use" and "move" in s_["rv"]["op"]:
                        src = s_["rv"]["op"]["move"]
                        if src["l"] == rx.dest["l"] and "Entry" in [e[2] for e in src.get("p", []) if e[0] == "dc"]:
                            took = True
            ctx.check(took, "R10.4", key + "#receive-site-handles-entries@%d" % recvs.index(rx), loc(cb, rx.bb),
                      "a message taken off the channel at this receive site is only examined for Flush requests: an Entry received here is dropped "
                      "unmerged (inputs are not conserved)")
        blocking = [x for x in recvs if x.name != "try_recv"] or recvs
        r = blocking[0]
        pr = Prov(cb)
        ok_t = err_t = None
        for sw, tg, oth in switch_on_call_result(cb, r):
            if ok_t is None:
                ok_t, err_t = tg.get(0), tg.get(1, oth)
        merges = [x for x in cb.calls() if x.is_trait_method("AggregateSink", "merge") or x.is_trait_method("RootSink", "merge")]
        flushes = [x for x in cb.calls() if x.is_trait_method("FlushableSink", "flush")]
        sends = _direct_or_helper(F, cb, lambda x: x.is_in("tokio::sync::oneshot", "Sender::send"))
        # Entry arm: payload moved into exactly one merge
        starts = []
        for i in cb.live_blocks():
            for s in cb.stmts(i):
                if s["k"] == "assign" and s["rv"]["k"] == "use" and "move" in s["rv"]["op"]:
                    src = s["rv"]["op"]["move"]
                    names = [e[2] for e in src.get("p", []) if e[0] == "dc"]
                    if src["l"] in [x.dest["l"] for x in recvs] and "Entry" in names and not s["lhs"].get("p"):
                        starts.append(s["lhs"]["l"])
        ctx.check(bool(starts), "R10.4", key + "#entry-message-taken", loc(cb), "the Entry message payload is never taken out")
        for st in starts:
            check_linear(ctx, "R10.4", cb, st, lambda cs, i: cs is not None and cs.name == "merge", what="entry-message")
        # Flush arm: ack only after flush
        dom = cb.dominators()
        for s in sends:
            ctx.check(any(dominates(cb, f.bb, s.bb, dom) and f.bb != s.bb and r.bb not in cb.reachable(f.target, avoid=[s.bb]) or
                          (dominates(cb, f.bb, s.bb, dom) and f.bb != s.bb) for f in flushes), "R10.4", key + "#ack-after-flush", loc(cb, s.bb),
                      "a flush request is acknowledged before the inner sink was flushed: the caller's flush() returns while merged entries are still unemitted")
        ctx.check(bool(sends), "R10.4", key + "#flush-acknowledged", loc(cb), "flush requests are never acknowledged")
        # R10.5 disconnect leads to Return through a final flush
        if err_t is not None and rets:
            disc_t = None
            # distinguish Timeout / Disconnected if the code does
            for i in cb.reachable(err_t):
                t = cb.term(i)
                if t["k"] != "switch":
                    continue
                for s in cb.stmts(i):
                    if s["k"] == "assign" and s["rv"]["k"] == "discr" and "RecvTimeoutError" in s["rv"].get("adt", ""):
                        vm = {n: d for d, n in s["rv"]["variants"]}
                        tg = {v: tb for v, tb in t["targets"]}
                        disc_t = tg.get(vm.get("Disconnected"), t["otherwise"])
            if r.name == "recv":
                disc_t = err_t
            if disc_t is None:
                ctx.bad("R10.5", key + "#disconnect-terminates", loc(cb, err_t),
                        "the receive error is not split into timeout and disconnected: with every handle dropped the loop spins on `Disconnected` forever")
            else:
                reach = cb.reachable(disc_t, avoid=[r.bb])
                to_ret = any(x in reach for x in rets)
                ctx.check(to_ret, "R10.5", key + "#disconnect-terminates", loc(cb, disc_t), "the disconnected outcome does not lead to Return")
                if to_ret:
                    fl2 = [f.bb for f in flushes if f.bb in reach]
                    # ... or already flushed on the error arm before the two error kinds are told apart (no receive in between)
                    pre = [f.bb for f in flushes if f.bb in cb.reachable(err_t, avoid=[r.bb]) and dominates(cb, f.bb, disc_t, dom) and f.bb != disc_t]
                    ctx.check((bool(fl2) and cb.must_pass(fl2, start=disc_t)) or bool(pre), "R10.5", key + "#final-flush-on-disconnect", loc(cb, disc_t),
                              "the worker exits on disconnect without emitting what it still holds (no flush on the path to Return)")
        elif err_t is None:
            ctx.bad("R10.5", key + "#disconnect-terminates", loc(cb, r.bb), "the result of the receive is not matched")
    # ------------------------------------------------------------------ R10.10 the requesting side of a flush: send the request, then wait for its acknowledgement
    from rules.c13 import logical_succ
    nreq = 0
    for b in F.all_bodies(AG):
        if b.kind != "Closure" or not b.d.get("coroutine") or "::tests::" in b.path:
            continue
        par = (b.d.get("direct_parent") or b.d.get("parent") or "")
        if not par.endswith("::flush"):
            continue
        sends_ = _direct_or_helper(F, b, lambda c: c.is_in("std::sync::mpsc", "Sender::send", "SyncSender::send", "SyncSender::try_send"))
        if not sends_:
            continue
        nreq += 1
        key = fnkey(b)
        pr = Prov(b)
        succ = logical_succ(b)
        ready = [i for i in b.live_blocks() if b.term(i)["k"] == "return" and any(
            s_["k"] == "assign" and s_["lhs"]["l"] == 0 and s_["rv"]["k"] == "agg" and s_["rv"].get("variant") == "Ready" for s_ in b.stmts(i))]
        polls = [c for c in b.calls() if c.is_trait_method("Future", "poll") and "oneshot::Receiver" in (c.self_ty or "")]

        def reach_l(avoid):
            seen, stk = {0}, [0]
            while stk:
                x = stk.pop()
                if x in avoid:
                    continue
                for y in succ(x):
                    if y not in seen:
                        seen.add(y)
                        stk.append(y)
            return seen
        ctx.check(bool(ready) and not (set(ready) & reach_l({c.bb for c in sends_})), "R10.10", key + "#always-sends-the-request", loc(b),
                  "the flush future can complete without having sent a flush request to the worker (an early return / skipped request): it would "
                  "return while entries merged before it are still unemitted", "every completion passes the send")
        ctx.check(bool(polls) and not (set(ready) & reach_l({c.bb for c in polls})), "R10.10", key + "#completes-only-after-acknowledgement", loc(b),
                  "the flush future can complete without awaiting the worker's acknowledgement", "every completion passes the await of the acknowledgement")
        # the awaited receiver is the partner of the sender that travels in the request
        chans = _direct_or_helper(F, b, lambda c: c.is_in("tokio::sync::oneshot", "channel"))
        paired = False
        for ch in chans:
            sent = any(any(x[0] in ("call", "callf") and x[1] == ch.bb for x in pr.operand(a)) for c in sends_ for a in c.args[1:])
            intos = [c for c in b.calls() if c.is_trait_method("IntoFuture", "into_future") and any(x[0] in ("call", "callf") and x[1] == ch.bb for x in pr.operand(c.args[0]))]
            paired = paired or (sent and bool(intos))
        ctx.check(paired, "R10.10", key + "#awaits-the-channel-it-sent", loc(b), "the acknowledgement awaited is not the one whose sender was put into the flush request")
    ctx.floor("R10.10", "flush request futures", nreq, 1)
    # one channel for both message kinds (type fact)
    ws = [a for a in F.adts.values() if a["crate"] == AG and any("std::sync::mpsc::Sender<" in f["ty"] for v in a["variants"] for f in v["fields"])]
    for a in ws:
        senders = [f for v in a["variants"] for f in v["fields"] if "mpsc::Sender<" in f["ty"]]
        ctx.check(len(senders) == 1, "R10.4", a["def"] + "#single-channel", "", "entries and flush requests travel over %d channels: a flush could overtake earlier entries" % len(senders))
    # ------------------------------------------------------------------ R10.8 generator of Merge / MergeRef impls (proc macro's own MIR)
    MAC = "metrique_macro"
    gens = []
    for b in F.all_bodies(MAC):
        if "::aggregate::" not in b.path + "::":
            continue
        lits = []
        for c in b.calls():
            if c.name in ("push_ident", "push_ident_spanned") and c.args:
                k = op_const(c.args[-1]) or {}
                s_ = k.get("str")
                if s_ is None:
                    l = op_local(c.args[-1])
                    for kind, bb_, idx, node in b.defs().get(l, []) if l is not None else []:
                        if kind == "assign" and node["k"] == "assign" and node["rv"]["k"] == "ref":
                            for k2, b2, i2, n2 in b.defs().get(node["rv"]["place"]["l"], []):
                                if k2 == "assign" and n2["k"] == "assign" and n2["rv"]["k"] == "use":
                                    s_ = (op_const(n2["rv"]["op"]) or {}).get("str")
                lits.append((c, s_))
        if any(s_ == "accum" for _, s_ in lits) and any(s_ == "input" for _, s_ in lits):
            gens.append((b, lits))
    gens_real = {b.def_ for b, _ in gens}
    for b, lits in gens:
        dom = b.dominators()
        pr = Prov(b)
        order = sorted(b.calls(), key=lambda c: len(dom.get(c.bb, ())))

        def next_interp(c):
            # the first interpolated token (ToTokens::to_tokens of a non-literal) after call c; a nested token stream
            # (`#entry_value`) is not a field identifier and is skipped
            # follow the straight-line successor chain of the block (token pushes are sequential calls)
            chain, cur, seenb = [], c.target, set()
            while cur is not None and cur not in seenb:
                seenb.add(cur)
                t_ = b.term(cur)
                if t_["k"] == "call":
                    chain.append(CallSite(b, cur, t_))
                    cur = t_.get("target")
                elif t_["k"] in ("goto", "drop", "assert"):
                    cur = t_["target"]
                else:
                    break
            for x in chain:
                if x.name in ("push_ident", "push_ident_spanned"):
                    return None
                if x.name == "to_tokens" and x.args:
                    ty = x.self_ty or ""
                    if "TokenStream" in ty:
                        continue
                    o = {y for y in pr.operand(x.args[0]) if y[0] in ("arg", "call", "const", "static")}
                    return frozenset((y[0],) + tuple(y[1:]) for y in o)
            return None
        acc = [next_interp(c) for c, s_ in lits if s_ == "accum"]
        inp = [next_interp(c) for c, s_ in lits if s_ == "input"]
        acc = [a for a in acc if a]
        inp = [a for a in inp if a]
        if not acc and not inp:
            # `accum` / `input` as parameter names of the generated signature, not as `accum.#field`: not a per-field generator
            gens_real.discard(b.def_)
            continue
        # every input is merged: the generated statement is the bare insert call, never wrapped in generated control flow (an `if` on the
        # input's value would let some inputs by - the by-value and the by-reference merge of the same history would then disagree)
        ctl = sorted({s_ for _, s_ in lits if s_ in ("if", "match", "while", "for", "loop", "return", "break", "continue", "else")})
        ctx.check(not ctl, "R10.8", fnkey(b) + "#merge-call-unconditional", loc(b),
                  "the generated merge statement is wrapped in generated control flow (`%s`): an input that fails the generated test is not merged, so the "
                  "aggregate no longer accounts for every input on that path" % "`, `".join(ctl), "no control-flow keyword is generated around the insert call")
        ctx.check(bool(acc) and bool(inp) and all(i_ == acc[0] for i_ in inp) and all(a == acc[0] for a in acc), "R10.8", fnkey(b) + "#accumulator-and-input-same-field", loc(b),
                  "the generated merge call pairs `accum.<%s>` with `input.<%s>`: a field of the input would be merged into another field of the aggregate" % (
                      sorted(acc[0]) if acc else "?", [sorted(i_) for i_ in inp]),
                  "accum.#f and input.#f interpolate the same field identifier %s" % (sorted(acc[0]) if acc else ""))
    gens = [(b, l_) for b, l_ in gens if b.def_ in gens_real]
    ctx.floor("R10.8", "merge-call generators in the aggregate macro", len(gens), 2)
    # the field filter of the generators: every field that is neither key nor ignored gets a merge call
    filt = [b for b in F.all_bodies(MAC) if b.kind == "Closure" and "::aggregate::" in b.path and b.locals and b.locals[0]["ty"] == "bool" and not b.calls()]
    nf = 0
    good_filt = set()
    for b in filt:
        reads = set()
        for i in b.live_blocks():
            for s_ in b.stmts(i):
                if s_["k"] == "assign":
                    for o in ([s_["rv"].get("op")] if s_["rv"]["k"] in ("use", "unop") else [s_["rv"].get("a")] if s_["rv"]["k"] == "unop" else []):
                        p_ = op_place(o or {})
                        if p_:
                            reads |= {e[2] for e in p_.get("p", []) if e[0] == "f"}
            t = b.term(i)
            if t["k"] == "switch":
                p_ = op_place(t["discr"])
                if p_:
                    reads |= {e[2] for e in p_.get("p", []) if e[0] == "f"}
        if reads & {"is_key", "is_ignored"}:
            nf += 1
            good_filt.add(b.def_)
            ctx.check(reads <= {"is_key", "is_ignored"}, "R10.8", fnkey(b) + "#only-key-and-ignored-fields-are-skipped", loc(b),
                      "the generator skips fields on another criterion than key/ignored (%s): such a field would silently not be aggregated" % sorted(reads))
    ctx.floor("R10.8", "field filters of the merge generators", nf, 1)
    # ... and every generator runs over the filtered fields: the `map` that applies it (the generator itself, or a closure that only
    # calls it) iterates the result of a `filter` with one of those predicates, written in place or in a private helper of the module
    def _filtered_source(pb, c, depth=2):
        pr_ = Prov(pb, extra_adapters=("core::iter::traits::iterator::Iterator::filter", "core::iter::traits::iterator::Iterator::map",
                                       "core::iter::traits::iterator::Iterator::enumerate"))
        for y in pr_.operand(c.args[0]) if c.args else ():
            if y[0] not in ("call", "via"):
                continue
            x = CallSite(pb, y[1], pb.term(y[1]))
            if x.name == "filter" and any(cl.def_ in good_filt for cl in closure_args(F, x)):
                return True
            if depth:
                for hb in local_callee_bodies(F, x):
                    if hb.crate == MAC and any(z.name == "filter" and any(cl.def_ in good_filt for cl in closure_args(F, z)) for z in hb.calls()):
                        return True
        return False
    gen_defs = {b.def_ for b, _ in gens}
    n_sites = 0
    for pb in F.all_bodies(MAC):
        if "::aggregate::" not in pb.path + "::":
            continue
        for c in pb.calls():
            if c.name != "map" or not (c.is_trait_method("Iterator", "map")):
                continue
            cls_ = closure_args(F, c)
            hit = [cl for cl in cls_ if cl.def_ in gen_defs or any(sb.def_ in gen_defs for x in cl.calls() for sb in local_callee_bodies(F, x))]
            if not hit:
                continue
            n_sites += 1
            ctx.check(_filtered_source(pb, c), "R10.8", fnkey(pb) + "#generator-runs-over-filtered-fields@%s" % hit[0].path.split("::")[-2], loc(pb, c.bb),
                      "a merge-call generator is applied to fields that did not pass the key/ignored filter: a key or an ignored field "
                      "would be merged (or the filter was replaced by another criterion)", "map over filter(!is_key && !is_ignored)")
    ctx.floor("R10.8", "sites applying a merge-call generator to the parsed fields", n_sites, 2)

    # ------------------------------------------------------------------ R10.6 merge-on-drop guards
    guards = []
    for imp in F.impls_of("core::ops::drop::Drop"):
        if imp["crate"] != AG:
            continue
        for it in imp["items"]:
            b = F.bodies.get((AG, it.get("uid") or it["def"]))
            if b and any(c.name == "merge" for c in b.calls()):
                guards.append((b, b))
            elif b:
                # the take-and-merge may be delegated to one private helper of the shared guard state, called once on every path
                for c in b.calls():
                    for hb in local_callee_bodies(F, c):
                        if hb.crate == AG and hb.kind != "Closure" and any(x.name == "merge" for x in hb.calls()) and \
                                exactly_once(b, [c.bb])[0] and len([x for x in b.calls() if x.def_ == c.def_]) == 1:
                            guards.append((b, hb))
    ctx.floor("R10.6", "merge-on-drop destructors", len(guards), 2)
    for b0, b in guards:
        class S(Sim):
            def on_call(self_, t, bb, a, env):
                c = t.get("callee", {})
                if c.get("name") == "merge" and "RootSink" in (c.get("def") or ""):
                    return [((a[0], a[1] + 1), {})]
                if c.get("def") == "core::option::Option::<T>::take":
                    return [(("some", a[1]), {"dest": ("v", "Some")}), (("none", a[1]), {"dest": ("v", "None")})]
                return None
        try:
            s = S(b).run(0, ("?", 0), {})
        except Budget as e:
            ctx.bad("R10.6", fnkey(b) + "#budget", loc(b), str(e))
            continue
        some = [a[1] for _, a, _ in s.returns if a[0] == "some"]
        none = [a[1] for _, a, _ in s.returns if a[0] == "none"]
        ctx.check(some and all(x == 1 for x in some) and all(x == 0 for x in none), "R10.6", fnkey(b0) + "#take-then-merge-once", loc(b),
                  "destructor merges %s time(s) when it holds a value and %s when not" % (sorted(set(some)), sorted(set(none))))
    return EXPL



def _direct_or_helper(F, b, pred):
    """calls of b that satisfy pred, or that go to a private function of the crate which performs such a call on every path (a named
    step: `self.enqueue(msg)`, `request.acknowledge()`, `FlushRequest::new()`)"""
    out = []
    for c in b.calls():
        if pred(c):
            out.append(c)
            continue
        for hb in local_callee_bodies(F, c):
            if hb.crate != AG or hb.kind == "Closure" or (hb.impl or {}).get("trait"):
                continue
            inner = [x.bb for x in hb.calls() if pred(x)]
            if inner and hb.must_pass(inner) and len(hb.calls()) <= 4:
                out.append(c)
                break
    return out

"""C20 — metrics.rs bridge: every increment / sample reported exactly once (structural clauses)."""
from mq.util import *
from mq.prov import Prov
from mq.facts import CallSite

EXPL = ("R20.1 the counter-visit closure of readout reports the result of exactly one atomic read-modify-write (swap / fetch_*) on "
        "the counter; no load/store on counters is reachable from readout; the only skip condition is !emit_zero && value == 0. "
        "R20.2 gauges are loaded and never written by readout; histograms are obtained through the atomic drain, whose bucket counts "
        "flow from Bucket::count() filtered by > 0. R20.3 the accumulator entry sets AllowSplitEntries before the first value and "
        "writes each item once under key_name(key) with key_labels(key) as dimensions and the described unit (default Unit::None); "
        "counters Unsigned, gauges Floating, buckets Repeated{value*count, count}. R20.4 register_* hands out the registry's shared "
        "storage, describe_* records the unit under the metric name. R20.7 the bridge histogram's drain reaches the atomic bucket sweep on every path "
        "and keeps no separate flag next to the bucket counters. R20.6 the described-units map a readout "
        "carries is obtained after the three registry visits (never a snapshot the caller took before the walk). R20.5 (async body: call-site facts only) every append in the "
        "reporter task takes a fresh readout() and no readout result is discarded. R20.9 the Result of every fallible bucket store (AtomicHistogram::add/increment) in the bridge crate is consumed, never discarded. Not decided: exactly-once under true races "
        "(atomic semantics, histogram crate).")
MR = "metrique_metricsrs"
RMW = ("swap", "fetch_and", "fetch_update", "fetch_sub", "compare_exchange", "compare_exchange_weak", "fetch_min", "fetch_max", "fetch_xor", "fetch_or", "fetch_nand", "fetch_add")


def atomic_calls(b):
    return [c for c in b.calls() if c.def_.startswith("core::sync::atomic::Atomic")]


def run(ctx):
    F = ctx.facts("dbg")
    # R20.9 (seed S143): "every histogram observation is counted in exactly one readout" - the bucket store of the bridge's histogram
    # is fallible (out-of-range value); its verdict is never discarded: the Result of every `AtomicHistogram::add/increment` call in
    # the bridge crate is consumed (expect / unwrap / `?` / a match), so a sample that cannot be stored stops the caller instead of
    # vanishing. (That the capped value is in range is numeric and not decided here.)
    import json as _json
    from mq.prov import op_local as _opl
    nadd = 0
    for b in F.all_bodies(MR):
        for c in b.calls():
            if c.name not in ("add", "increment") or "Histogram" not in (c.def_ or "") or not (c.def_ or "").startswith("histogram::"):
                continue
            nadd += 1
            d = (c.dest or {}).get("l")
            used = any(c2 is not c and any(_opl(a_) == d for a_ in c2.args) for c2 in b.calls())
            if not used:
                for i_ in b.live_blocks():
                    if b.is_cleanup(i_):
                        continue
                    t_ = b.term(i_)
                    if t_["k"] == "switch" and _opl(t_["discr"]) == d:
                        used = True
                    for s_ in b.stmts(i_):
                        if s_["k"] == "assign" and ('"l": %d,' % d in _json.dumps(s_["rv"]) or '"l": %d}' % d in _json.dumps(s_["rv"])):
                            used = True
            ctx.check(used, "R20.9", fnkey(b) + "#bucket-store-verdict-consumed", loc(b, c.bb),
                      "the Result of the histogram's fallible bucket store (`%s`) is discarded: a sample the store rejects (value out of the configured "
                      "range) disappears from every readout without a trace" % c.name, "result of `%s` is consumed" % c.name)
    ctx.floor("R20.9", "fallible bucket stores of the bridge histogram", nadd, 1)
    VISITS = ("visit_counters", "visit_gauges", "visit_histograms")
    # walks that may remove what they visit: never part of a readout (a handle given out earlier keeps pointing at an evicted cell,
    # which no later readout visits - increments made through it are reported nowhere)
    EVICTING = ("retain_counters", "retain_gauges", "retain_histograms", "clear", "clear_counters", "clear_gauges", "clear_histograms",
                "delete_counter", "delete_gauge", "delete_histogram")

    def visit_sites(b):
        """registry walks of a readout body: [(block of b where the walk runs, visit name, per-item closure)] - a walk written in the
        body itself, or inside a private helper the body calls (`counters: take_counter_deltas(registry, ..)`)"""
        out = []
        for c in b.calls():
            if c.name in VISITS:
                cl = closure_args(F, c)
                if cl:
                    out.append((c.bb, c.name, cl[0]))
            else:
                for hb in local_callee_bodies(F, c):
                    if hb.crate == MR and hb.kind != "Closure" and hb.name != "readout":
                        for x in hb.calls():
                            if x.name in VISITS and closure_args(F, x):
                                out.append((c.bb, x.name, closure_args(F, x)[0]))
        return out
    n_ev = 0
    for b in F.all_bodies(MR):
        if b.name != "readout" and not any(pb.name == "readout" for pb in [b]):
            continue
        units = [b] + [hb for c in b.calls() for hb in local_callee_bodies(F, c) if hb.crate == MR and hb.kind != "Closure" and hb.name != "readout"]
        for u in units:
            for c in u.calls():
                if "registry" in (c.def_ or "").lower() or "Registry" in (c.self_ty or "") + (c.def_ or ""):
                    n_ev += 1
                    ctx.check(c.name not in EVICTING, "R20.1", fnkey(b) + "#readout-never-evicts@" + c.name, loc(u, c.bb),
                              "the readout walks the registry with `%s`, which can remove the cells it visits: a handle obtained before that readout "
                              "keeps updating the removed cell, and those updates appear in no later readout" % c.name,
                              "registry accessed with %s" % c.name)
    ctx.floor("R20.1", "registry accesses of the readout implementations", n_ev, 3)
    readouts = [b for b in F.all_bodies(MR) if b.name == "readout" and any(n == "visit_counters" for _, n, _ in visit_sites(b))]
    if not readouts:
        # a readout that walks the counters with an evicting walk is reported above; do not report the same thing as a lost anchor too
        readouts_ev = [b for b in F.all_bodies(MR) if b.name == "readout" and any(c.name in EVICTING for c in b.calls())]
        if readouts_ev:
            return EXPL
    ctx.floor("R20.1", "readout implementations visiting the registry", len(readouts), 1)
    for b in readouts:
        key = fnkey(b)
        vsites = visit_sites(b)
        vis = {n: cl for _, n, cl in vsites}
        ctx.check(set(vis) == {"visit_counters", "visit_gauges", "visit_histograms"}, "R20.1", key + "#visits-all-three-kinds", loc(b), "readout does not visit counters, gauges and histograms: %s" % sorted(vis))
        # ---- R20.6 the described units are snapshotted after the registry walk (a metric seen by the walk was described before it was
        # registered, so a later snapshot contains its unit; an earlier one may not)
        bpr = Prov(b)
        bdom = b.dominators()
        class _V:       # a walk site, positioned in this body
            def __init__(self, bb):
                self.bb = bb
        visits = [_V(bb_) for bb_, _, _ in vsites]
        n_units = 0
        for i in b.live_blocks():
            for st in b.stmts(i):
                if st["k"] == "assign" and st["rv"]["k"] == "agg" and "MetricAccumulatorEntry" in (st["rv"].get("adt") or "") and "units" in (st["rv"].get("fields") or []):
                    n_units += 1
                    uo = bpr.operand(dict(zip(st["rv"]["fields"], st["rv"]["ops"]))["units"])
                    calls_ = [x[1] for x in uo if x[0] == "call"]
                    early = [x for x in uo if x[0] == "arg" and not any(y[0] in ("call",) for y in uo)]
                    late = bool(calls_) and all(all(dominates(b, v.bb, cb_, bdom) and v.bb != cb_ for v in visits) for cb_ in calls_)
                    ctx.check(late and not early, "R20.6", key + "#units-snapshot-after-walk", loc(b, i),
                              "the described-units map stored in the readout is %s: a metric that is described, registered and updated while the walk "
                              "is running is collected by this readout but written without its unit" %
                              ("a value computed by the caller before the registry walk" if early else "obtained before all three registry visits finished (bb%s)" % calls_),
                              "units obtained at bb%s, after visits bb%s" % (calls_, [v.bb for v in visits]))
        ctx.floor("R20.6", "readout entries carrying the units map", n_units, 1)
        # ... and when the units come from a callback, the callback itself reads the map: its caller must not have read it beforehand and
        # merely wrapped the result
        unit_params = [i for i in range(1, b.arg_count + 1) if "FnOnce" in b.locals[i]["ty"] or "impl Fn" in b.locals[i]["ty"]]
        if unit_params:
            for cs in [x for bb2 in F.all_bodies(MR) for x in bb2.calls() if x.name == "readout" and x.is_trait_method("MetricsRsVersion") and "::tests::" not in bb2.path]:
                cb_ = cs.body
                for up in unit_params:
                    if up - 1 >= len(cs.args):
                        continue
                    cl = closure_for_operand(F, cb_, cs.args[up - 1])
                    is_lock_read = lambda c: c.name in ("read", "lock", "try_read")
                    reads_in = [c for c in (cl.calls() if cl is not None else []) if is_lock_read(c)]
                    if cl is not None and not reads_in:
                        # the read may sit in a private accessor the callback calls (`self.units.snapshot()`)
                        reads_in = [w[-1] for w in (reaches_call(F, cl, is_lock_read, depth=2) or [])]
                    cdom = cb_.dominators()
                    early = [c for c in cb_.calls() if c.name in ("read", "lock", "try_read") and "HashMap<alloc::string::String, metrique_writer_core::unit::Unit" in (c.self_ty or c.def_ + str(c.callee.get("args", "")))
                             and dominates(cb_, c.bb, cs.bb, cdom)]
                    early2 = [c for c in cb_.calls() if c.name in ("read", "lock", "try_read") and dominates(cb_, c.bb, cs.bb, cdom) and c.bb != cs.bb]
                    ctx.check(cl is not None and bool(reads_in) and not early2, "R20.6", fnkey(cb_) + "#units-read-inside-the-callback", loc(cb_, cs.bb),
                              "the units callback handed to readout does not read the described-units map itself%s: the snapshot predates the registry walk, so a "
                              "metric described and registered during the walk is written without its unit" % (" (the caller reads a lock before the call and wraps the result)" if early2 else ""),
                              "the callback takes the lock and clones the map when it is called (after the walk)")
        # ---- counters
        cb = vis.get("visit_counters")
        if cb is not None:
            pr = Prov(cb)
            at = atomic_calls(cb)
            rmw = [c for c in at if c.name in RMW]
            plain = [c for c in at if c.name in ("load", "store")]
            ctx.check(len(rmw) == 1 and not plain, "R20.1", fnkey(cb) + "#single-atomic-take", loc(cb),
                      "the counter readout uses %s on the counter: increments that race with the readout are lost or reported twice (must be one atomic "
                      "read-modify-write)" % ([c.name for c in at]), "one %s, no load/store" % (rmw[0].name if rmw else ""))
            if rmw:
                r = rmw[0]
                z = op_const(r.args[1]) if len(r.args) > 1 else None
                ctx.check(r.name != "swap" or (z or {}).get("int") == 0, "R20.1", fnkey(cb) + "#resets-to-zero", loc(cb, r.bb), "the counter is not reset to 0 by the swap")
                pushes = [c for c in cb.calls() if c.name == "push" and "Vec" in c.def_]
                okp = False
                for p in pushes:
                    o = pr.operand(p.args[1])
                    okp = okp or ("call", r.bb) in o
                ctx.check(okp and len(pushes) == 1, "R20.1", fnkey(cb) + "#reports-the-taken-value", loc(cb), "the reported counter value is not the result of the atomic take")
                # skip condition
                from rules.c12 import controlling_switches, discr_def
                conds = []
                for p in pushes:
                    for i, t, yes, no in controlling_switches(cb, p.bb):
                        rv = discr_def(cb, i, t)
                        # `match delta { 0 => .., _ => push }`: a switch on the taken value itself with an arm for 0
                        if ("call", r.bb) in pr.operand(t["discr"]) and any(v_ == 0 for v_, _ in t["targets"]):
                            conds.append(("value-vs-0", "switch"))
                            continue
                        if rv is None:
                            # a plain bool (emit_zero_counters)
                            o = pr.operand(t["discr"])
                            conds.append(("flag", sorted(map(str, o))[:2]))
                            continue
                        if rv.get("k") == "binop" and rv["op"] in ("Ne", "Eq", "Gt", "Lt"):
                            ao = pr.operand(rv["a"]) | pr.operand(rv["b"])
                            if ("call", r.bb) in ao and any(x == ("const", ("int", 0)) for x in ao):
                                conds.append(("value-vs-0", rv["op"]))
                                continue
                        o = pr.operand(t["discr"])
                        if any(x[0] == "arg" and x[1] == 1 for x in o) and not any(x[0] == "call" for x in o):
                            conds.append(("flag", "captured"))
                            continue
                        conds.append(("other", i))
                ctx.check(not any(c[0] == "other" for c in conds) and any(c[0] == "value-vs-0" for c in conds), "R20.1", fnkey(cb) + "#skip-only-zero-counters", loc(cb),
                          "a counter value can be dropped for a reason other than `!emit_zero && value == 0`: %s" % conds, str(conds))
        # no store on counters anywhere under readout
        for nm, vb in vis.items():
            st = [c for c in atomic_calls(vb) if c.name == "store"]
            ctx.check(not st, "R20.1", fnkey(vb) + "#no-store", loc(vb), "readout stores into a metric cell (races with concurrent updates)")
        # ---- gauges
        gb = vis.get("visit_gauges")
        if gb is not None:
            at = atomic_calls(gb)
            ctx.check(any(c.name == "load" for c in at) and all(c.name == "load" for c in at), "R20.2", fnkey(gb) + "#gauge-loaded-not-reset", loc(gb),
                      "gauge readout uses %s: gauges must be loaded and keep their last value" % [c.name for c in at])
            pr = Prov(gb)
            pushes = [c for c in gb.calls() if c.name == "push" and "Vec" in c.def_]
            ld = [c.bb for c in at if c.name == "load"]
            ctx.check(len(pushes) == 1 and any(("call", l) in pr.operand(pushes[0].args[1]) or any(
                x[0] == "call" and gb.term(x[1])["callee"]["name"] == "from_bits" for x in pr.operand(pushes[0].args[1])) for l in ld),
                "R20.2", fnkey(gb) + "#reports-loaded-value", loc(gb), "the reported gauge value does not come from the load")
        # ---- histograms
        hb = vis.get("visit_histograms")
        if hb is not None:
            dr = [c for c in hb.calls() if c.name == "drain" and MR in c.def_]
            ctx.check(len(dr) == 1, "R20.2", fnkey(hb) + "#histogram-drained", loc(hb), "histograms are not read out through the atomic drain (found %s)" % [c.name for c in hb.calls()])
    # Histogram::drain
    hd = [b for b in F.all_bodies(MR) if b.name == "drain" and b.path.startswith(MR + "::metrics_histogram")]
    ctx.floor("R20.2", "bridge histogram drain", len(hd), 1)
    for b in hd:
        inner = [c for c in b.calls() if c.name == "drain" and c.def_.startswith("histogram::")]
        ctx.check(len(inner) == 1 and "atomic" in inner[0].def_.lower(), "R20.2", fnkey(b) + "#uses-atomic-drain", loc(b), "bridge histogram is not read with AtomicHistogram::drain: %s" % [c.def_ for c in inner])
        # R20.7 every readout sweeps the buckets: no path returns without the atomic drain (a "nothing recorded" short-cut decided by a
        # separate flag races with a concurrent record and strands its sample)
        ctx.check(bool(inner) and b.must_pass([c.bb for c in inner]), "R20.7", fnkey(b) + "#always-sweeps-the-buckets", loc(b),
                  "the bridge histogram's drain can return without the atomic sweep of the buckets (an early return guarded by other state): a sample "
                  "recorded concurrently with a readout can be left in a bucket that later readouts skip, so it is never reported",
                  "the atomic drain is on every path to the exit")
        flags = [c for c in b.calls() if c.def_.startswith("core::sync::atomic::Atomic") and c.name in ("store", "swap", "load", "compare_exchange", "fetch_or", "fetch_and")]
        ctx.check(not flags, "R20.7", fnkey(b) + "#no-side-flag", loc(b, flags[0].bb if flags else None),
                  "the drain consults or updates a separate atomic (%s) next to the bucket counters: the pair is not updated atomically with respect to record()" % [c.name for c in flags])
        # adapter form (filter / map closures), plain loop form, or a private helper: all are read (same reading as R11.1's drains)
        from rules.c11 import keeps_nonempty
        units = [b] + list(F.closures_of(b))
        for _round in range(2):
            for u_ in list(units):
                for c_ in u_.calls():
                    for hb in local_callee_bodies(F, c_) + fn_item_args(F, c_):
                        if hb.crate == MR and hb not in units and hb.name != "midpoint":
                            units += [hb] + list(F.closures_of(hb))
        is_emit = lambda s_: s_["k"] == "assign" and s_["rv"]["k"] == "agg" and (s_["rv"].get("adt") or "").endswith("Bucket") and "count" in (s_["rv"].get("fields") or [])
        kn = keeps_nonempty(units, b, is_emit)
        ctx.check(kn == "keep-iff-count>0", "R20.2", fnkey(b) + "#keeps-non-empty-buckets", loc(b), "drain does not keep exactly the buckets with count > 0 (%s)" % kn)
        okm = False
        for cb in units:
            pr = Prov(cb)
            for i in cb.live_blocks():
                for s in cb.stmts(i):
                    if is_emit(s):
                        o = pr.operand(s["rv"]["ops"][s["rv"]["fields"].index("count")])
                        okm = okm or any(x[0] == "call" and cb.term(x[1])["callee"]["name"] == "count" for x in o)
        ctx.check(okm, "R20.2", fnkey(b) + "#count-from-bucket", loc(b), "reported bucket count does not come from Bucket::count()")
    # ------------------------------------------------------------------ R20.3 entry writing
    # the private value type an item is wrapped in, by role: the struct of this crate that implements `Value`, with one field of type Unit,
    # one holding the (name, value) dimension pairs and one holding the observations
    MO = {}
    for imp in F.impls_of("Value"):
        a_ = F.adts.get((imp.get("self_head") or {}).get("adt") or "")
        if imp["crate"] != MR or not a_ or "/tests/" in imp["span"]["file"] or len(a_["variants"]) != 1:
            continue
        fs_ = a_["variants"][0]["fields"]
        un_ = [f["name"] for f in fs_ if f["ty"].endswith("unit::Unit")]
        di_ = [f["name"] for f in fs_ if "Vec<(&" in f["ty"]]
        va_ = [f["name"] for f in fs_ if f["name"] not in un_ + di_]
        if len(un_) == 1 and len(di_) == 1 and len(va_) == 1:
            MO[a_["def"]] = {"value": va_[0], "unit": un_[0], "dimensions": di_[0]}
    ctx.floor("R20.3", "observation value type of the bridge (Value impl with unit + dimensions + observations)", len(MO), 1)
    ws = [b for b in F.all_bodies(MR) if b.name == "write" and b.impl and (b.impl.get("trait") or "").endswith("::Entry") and "MetricAccumulatorEntry" in b.path and
          (b.impl.get("self_head") or {}).get("adt") not in MO]
    ctx.floor("R20.3", "accumulator entry writers", len(ws), 1)
    for b in ws:
        pr = Prov(b, adapter_pred=lambda t: (t.get("callee") or {}).get("name") in ("unwrap_or", "deref", "as_ref"))
        dom = b.dominators()
        cfg = [c for c in b.calls() if c.is_trait_method("EntryWriter", "config")]
        # an item = a value() call of this body, or a call of a private helper that holds the one value() call for the item it is given
        items = [(b, c, c) for c in b.calls() if c.is_trait_method("EntryWriter", "value")]
        for c in b.calls():
            for hb in local_callee_bodies(F, c):
                hv = [x for x in hb.calls() if x.is_trait_method("EntryWriter", "value")] if hb.crate == MR and hb.kind != "Closure" else []
                if len(hv) == 1:
                    items.append((hb, hv[0], c))
        ctx.check(len(items) == 3, "R20.3", fnkey(b) + "#three-kinds-written", loc(b), "expected value() sites for counters, gauges and histograms, found %d" % len(items))
        ctx.check(bool(cfg) and all(any(dominates(b, c.bb, site.bb, dom) for c in cfg) for _, _, site in items), "R20.3", fnkey(b) + "#split-config-first", loc(b),
                  "AllowSplitEntries is not configured before the first value (labelled metrics would be rejected)")

        def unit_ok(body, op, depth=2):
            """the operand is the described unit looked up under the item's name (directly or through a private helper)"""
            pr_ = Prov(body, adapter_pred=lambda t: (t.get("callee") or {}).get("name") in ("unwrap_or", "deref", "as_ref"))
            for x in pr_.operand(op):
                if x[0] != "call":
                    continue
                t_ = body.term(x[1])
                if t_["callee"]["name"] == "get":
                    ka = pr_.operand(t_["args"][1])
                    ma = pr_.operand(t_["args"][0])
                    if any(y[0] == "call" and body.term(y[1])["callee"]["name"] == "key_name" for y in ka) and any(y[0] == "arg" and "units" in y[2] for y in ma):
                        return True
                elif depth > 0:
                    for hb in local_callee_bodies(F, CallSite(body, x[1], t_)):
                        if hb.crate == MR and unit_ok(hb, {"copy": {"l": 0, "p": []}}, depth - 1):
                            return True
            return False

        def kind_of(body, origins):
            kind = [x[2] for x in origins if x[0] == "agg" and x[2] in ("Unsigned", "Floating", "Repeated")]
            if kind:
                return kind[:1]
            # histogram: a map closure building Repeated
            cands = []
            for x in origins:
                if x[0] == "agg" and isinstance(x[1], str) and "{closure" in x[1]:
                    cands.append(F.bodies.get((body.crate, x[1])))
                if x[0] == "call":
                    cands += closure_args(F, CallSite(body, x[1], body.term(x[1])))
            for cb in cands:
                if not cb:
                    continue
                for j in cb.live_blocks():
                    for s2 in cb.stmts(j):
                        if s2["k"] == "assign" and s2["rv"]["k"] == "agg" and s2["rv"].get("variant") == "Repeated":
                            oc = Prov(cb).operand(s2["rv"]["ops"][s2["rv"]["fields"].index("occurrences")])
                            tt = Prov(cb).operand(s2["rv"]["ops"][s2["rv"]["fields"].index("total")])
                            if any(y[0] == "arg" and "count" in y[2] for y in oc) and any(y[0] == "arg" and "value" in y[2] for y in tt) and any(y[0] == "arg" and "count" in y[2] for y in tt):
                                return ["Repeated"]
            return []
        kinds = []
        for n, (vb, v, site) in enumerate(items):
            key = fnkey(b) + "#item%d" % n
            vpr = pr if vb is b else Prov(vb, adapter_pred=lambda t: (t.get("callee") or {}).get("name") in ("unwrap_or", "deref", "as_ref"))
            vdom = dom if vb is b else vb.dominators()
            ctx.check(site.bb in b.reachable_after(site.bb), "R20.3", key + "-per-element", loc(b, site.bb), "value() is not inside the per-element loop")
            no = vpr.operand(v.args[1])
            ctx.check(any(x[0] == "call" and vb.term(x[1])["callee"]["name"] == "key_name" for x in no), "R20.3", key + "-named-by-key", loc(vb, v.bb), "item is not written under V::key_name(key)")
            # the MultiObservation aggregate
            aggs = []
            for i in vb.live_blocks():
                for s in vb.stmts(i):
                    if s["k"] == "assign" and s["rv"]["k"] == "agg" and s["rv"].get("adt") in MO and v.bb in vb.reachable(i):
                        aggs.append((i, s))
            # nearest aggregate dominating the call
            aggs = [(i, s) for i, s in aggs if dominates(vb, i, v.bb, vdom)]
            if not aggs:
                ctx.bad("R20.3", key + "-observation", loc(vb, v.bb), "cannot find the observation value built for this item")
                continue
            i, s = aggs[-1]
            raw_ = dict(zip(s["rv"]["fields"], s["rv"]["ops"]))
            flds = {role: raw_[fname] for role, fname in MO[s["rv"]["adt"]].items()}
            ctx.check(unit_ok(vb, flds["unit"]), "R20.3", key + "-described-unit", loc(vb, i),
                      "the item's unit is not looked up in the described units under its name (origins %s)" % sorted(map(str, vpr.operand(flds["unit"])))[:3])
            do = vpr.operand(flds["dimensions"])
            ctx.check(any(x[0] == "call" and vb.term(x[1])["callee"]["name"] == "key_labels" for x in do), "R20.3", key + "-labels-as-dimensions", loc(vb, i), "labels are not passed as dimensions")
            vo2 = vpr.operand(flds["value"])
            kind = kind_of(vb, vo2)
            if not kind and vb is not b:
                # the helper writes what it was given: the kind is decided where the helper is called
                for x in vo2:
                    if x[0] == "arg" and not x[2] and x[1] - 1 < len(site.args):
                        kind = kind or kind_of(b, pr.operand(site.args[x[1] - 1]))
            kinds += kind[:1]
        ctx.check(sorted(kinds) == ["Floating", "Repeated", "Unsigned"], "R20.3", fnkey(b) + "#observation-kinds", loc(b),
                  "counters/gauges/buckets are not written as Unsigned/Floating/Repeated{value*count,count}: %s" % kinds)
    # MultiObservation::write forwards value, unit, dimensions
    for b in F.all_bodies(MR):
        if b.name == "write" and b.impl and (b.impl.get("trait") or "").endswith("::Value") and (b.impl.get("self_head") or {}).get("adt") in MO:
            pr = Prov(b, adapter_pred=lambda t: (t.get("callee") or {}).get("name") in ("iter", "cloned", "clone", "deref"))
            m = [c for c in b.calls() if c.is_trait_method("ValueWriter", "metric")]
            ok = len(m) == 1
            if ok:
                c = m[0]
                roles_ = MO[b.impl["self_head"]["adt"]]
                want = [roles_["value"], roles_["unit"], roles_["dimensions"]]
                for w, a in zip(want, c.args[1:4]):
                    ok = ok and any(x[0] == "arg" and x[1] == 1 and w in x[2] for x in pr.operand(a))
            ctx.check(ok, "R20.3", fnkey(b) + "#forwards-value-unit-dimensions", loc(b), "the observation value does not forward its value/unit/dimensions to ValueWriter::metric unchanged")
    # ------------------------------------------------------------------ R20.4 registration
    regs = [b for b in F.all_bodies(MR) if b.name in ("register_counter", "register_gauge", "register_histogram") and "MetricRecorder<" in ((b.impl or {}).get("self_ty") or "") and b.kind == "AssocFn"]
    ctx.floor("R20.4", "register_* implementations", len(regs), 3)
    for b in regs:
        pr = Prov(b)
        kind_ = b.name.split("_", 1)[1]
        goc = [c for c in b.calls() if c.name.startswith("get_or_create_")]
        goc_kind = {c.bb: c.name for c in goc}
        # ... or a private one-line accessor that is such a get_or_create call on its receiver and returns its result
        for c in b.calls():
            if c.bb in goc_kind:
                continue
            for hb in local_callee_bodies(F, c):
                hg = [x for x in hb.calls() if x.name.startswith("get_or_create_")]
                if hb.crate == MR and hb.kind != "Closure" and len(hg) == 1 and not hg[0].dest.get("p") and (hg[0].dest["l"] == 0 or ("call", hg[0].bb) in Prov(hb).local(0)) and \
                        any(x[0] == "arg" and x[1] == 1 for x in Prov(hb).operand(hg[0].args[0])):
                    goc.append(c)
                    goc_kind[c.bb] = hg[0].name
        fa = [c for c in b.calls() if c.name == "from_arc"]
        ok = len(goc) == 1 and len(fa) == 1 and ("call", goc[0].bb) in pr.operand(fa[0].args[0]) and goc_kind[goc[0].bb].endswith(kind_)
        ctx.check(ok, "R20.4", fnkey(b) + "#handle-shares-registry-storage", loc(b), "the handle returned by %s is not built from the registry's get_or_create storage" % b.name)
    descs = [b for b in F.all_bodies(MR) if b.name.startswith("describe_") and "MetricRecorder<" in ((b.impl or {}).get("self_ty") or "") and b.kind == "AssocFn"]
    ctx.floor("R20.4", "describe_* implementations", len(descs), 3)
    for b in descs:
        pr = Prov(b, adapter_pred=lambda t: (t.get("callee") or {}).get("name") in ("to_string", "as_str", "deref", "unwrap", "deref_mut"))
        ins = [c for c in b.calls() if c.name == "insert" and "HashMap" in c.def_]
        ok = len(ins) == 1 and any(x[0] == "arg" and x[1] == 2 for x in pr.operand(ins[0].args[1])) and any(
            x[0] == "call" and "unit" in b.term(x[1])["callee"]["name"] for x in pr.operand(ins[0].args[2]))
        if not ins:
            # the insertion may sit in a private helper that is handed (name, converted unit) and inserts exactly those
            for c in b.calls():
                for hb in local_callee_bodies(F, c):
                    hins = [x for x in hb.calls() if x.name == "insert" and "HashMap" in x.def_] if hb.crate == MR else []
                    if len(hins) != 1:
                        continue
                    hpr = Prov(hb, adapter_pred=lambda t: (t.get("callee") or {}).get("name") in ("to_string", "as_str", "deref", "unwrap", "deref_mut", "to_owned", "into"))
                    kp = {x[1] for x in hpr.operand(hins[0].args[1]) if x[0] == "arg" and not x[2]}
                    vo_ = hpr.operand(hins[0].args[2])
                    vp = {x[1] for x in vo_ if x[0] == "arg" and not x[2]}
                    conv_inside = False
                    if not vp:
                        # the helper converts the unit itself: value = unit-conversion call over one of its parameters
                        for x in vo_:
                            if x[0] == "call" and "unit" in (hb.term(x[1])["callee"].get("name") or ""):
                                for a_ in hb.term(x[1]).get("args", []):
                                    vp |= {y[1] for y in hpr.operand(a_) if y[0] == "arg" and not y[2]}
                                conv_inside = bool(vp)
                    if len(kp) == 1 and len(vp) == 1 and hb.must_pass([hins[0].bb]):
                        ka, va = c.args[next(iter(kp)) - 1], c.args[next(iter(vp)) - 1]
                        ok = any(x[0] == "arg" and x[1] == 2 for x in pr.operand(ka)) and (
                            any(x[0] == "arg" and x[1] == 3 for x in pr.operand(va)) if conv_inside else
                            any(x[0] == "call" and "unit" in b.term(x[1])["callee"]["name"] for x in pr.operand(va)))
        ctx.check(ok, "R20.4", fnkey(b) + "#records-unit-under-name", loc(b), "%s does not record the converted unit under the metric's name" % b.name)
    # ------------------------------------------------------------------ R20.5 reporter (call-site facts)
    # a publish step = `destination.append(recorder.readout())`: written in the task itself, or as a closure the task is handed and calls
    def is_publish_unit(pb):
        pr_ = Prov(pb)
        ros_ = [c for c in pb.calls() if c.name == "readout"]
        aps_ = [c for c in pb.calls() if c.is_trait_method("EntrySink", "append") or c.name == "append"]
        return len(ros_) == 1 and len(aps_) == 1 and ("call", ros_[0].bb) in pr_.operand(aps_[0].args[1]) and pb.must_pass([aps_[0].bb])
    spawners = [b for b in F.all_bodies(MR) if b.kind == "Fn" and any(cb.kind == "Closure" and any(c.name in ("select", "cancelled") for c in cb.calls()) for cb in F.closures_of(b))]
    handed = {}      # spawner def -> names under which the task captures a parameter that every caller binds to a publish step
    for sp in spawners:
        per_param = {}
        for cs in F.callers_of(sp.path, crates=[MR]):
            for ai, a_ in enumerate(cs.args):
                for fb in fn_operand_bodies(F, cs.body, a_):
                    per_param.setdefault(ai + 1, []).append(fb)
        spr = Prov(sp)
        for p_, fbs in per_param.items():
            if not all(is_publish_unit(fb) for fb in fbs):
                continue
            for i_ in sp.live_blocks():
                for s_ in sp.stmts(i_):
                    if s_["k"] == "assign" and s_["rv"]["k"] == "agg" and s_["rv"].get("closure"):
                        for fname, op_ in zip(s_["rv"].get("fields", []), s_["rv"]["ops"]):
                            if any(x[0] == "arg" and x[1] == p_ for x in spr.operand(op_)):
                                handed.setdefault(sp.def_, set()).add(fname)
    reps = [b for b in F.all_bodies(MR) if b.kind == "Closure" and any(b.path.startswith(sp.path) for sp in spawners) and
            (any(c.name == "readout" for c in b.calls()) or any(c.name in ("call", "call_mut", "call_once") and "ops::function" in c.def_ for c in b.calls()) or
             any(hb.crate == MR and hb.kind in ("Fn", "AssocFn") and any(x.name == "readout" for u in [hb] + list(F.closures_of(hb)) for x in u.calls())
                 for c in b.calls() for hb in local_callee_bodies(F, c)))
            and any(c.name in ("select", "cancelled") for c in b.calls())]
    ctx.floor("R20.5", "reporter task bodies", len(reps), 1)
    for b in reps:
        pr = Prov(b)
        ros = [c for c in b.calls() if c.name == "readout"]
        aps = [c for c in b.calls() if c.is_trait_method("EntrySink", "append") or c.name == "append"]
        used = set()
        for a in aps:
            o = pr.operand(a.args[1])
            mine = [r.bb for r in ros if ("call", r.bb) in o]
            ctx.check(len(mine) == 1, "R20.5", fnkey(b) + "#append%d-takes-fresh-readout" % aps.index(a), loc(b, a.bb), "an append in the reporter does not take the result of a readout()")
            used |= set(mine)
        sp_def = [sp.def_ for sp in spawners if b.path.startswith(sp.path)]
        pubs = handed.get(sp_def[0], set()) if sp_def else set()
        inv = [c for c in b.calls() if c.name in ("call", "call_mut", "call_once") and "ops::function" in c.def_ and c.args and
               any(x[0] == "arg" and x[1] == 1 and any(f_ in pubs for f_ in x[2]) for x in pr.operand(c.args[0]))]
        # ... or a private (async) function of the crate that is such a publish step: `publish(&recorder, &destination).await`
        def _is_publish_fn(hb):
            units = [hb] + list(F.closures_of(hb))
            return hb.crate == MR and hb.kind in ("Fn", "AssocFn") and any(
                len([c_ for c_ in u.calls() if c_.name == "readout"]) == 1 and
                any((c_.is_trait_method("EntrySink", "append") or c_.name == "append") and len(c_.args) > 1 and
                    any(x[0] == "call" and (u.term(x[1]).get("callee") or {}).get("name") == "readout" for x in Prov(u).operand(c_.args[1])) for c_ in u.calls())
                for u in units)
        inv += [c for c in b.calls() if c not in inv and any(_is_publish_fn(hb) for hb in local_callee_bodies(F, c))]
        ctx.check(len(aps) + len(inv) == 2 and len(ros) == len(aps) and used == {r.bb for r in ros}, "R20.5", fnkey(b) + "#no-readout-discarded", loc(b),
                  "readout()/append sites: %d/%d (+%d calls of a handed publish step); a readout whose result is not appended loses the swapped counters (and one on shutdown is required)" % (len(ros), len(aps), len(inv)))
    # ------------------------------------------------------------------ R20.8 nothing can come between taking a readout and appending it
    # a readout empties the counters it reports, so it exists only in the value it returns. From the place it is taken (also when it is
    # taken inside a closure handed to a spawn function: the value then travels through a join handle) to the append of that value no
    # path may reach a suspension point of the enclosing future or its end: a future that is dropped there - lost a `select`, task
    # aborted, runtime shut down - takes the increments with it, and the sum of the readouts falls short of the total
    from rules.c13 import logical_succ
    n7 = 0
    for b in F.all_bodies(MR):
        if "::tests::" in b.path or "test_util" in b.path:
            continue
        takes = []
        pr7 = Prov(b)
        for c in b.calls():
            if c.name == "readout" and (c.def_ or "").startswith(MR) and b.name != "readout":
                # a body that hands the readout to its own caller (a capture helper, the closure of a spawn) takes nothing itself
                if not c.dest.get("p") and (c.dest["l"] == 0 or ("call", c.bb) in pr7.local(0)):
                    continue
                takes.append((c, "readout()"))
            elif c.name in ("spawn_blocking", "spawn", "spawn_local", "spawn_on", "block_in_place"):
                for cl in closure_args(F, c):
                    clp = Prov(cl)
                    # the closure's value is the readout: it reaches this body only through the join handle
                    if any(x.name == "readout" and (x.def_ or "").startswith(MR) and not x.dest.get("p") and
                           (x.dest["l"] == 0 or ("call", x.bb) in clp.local(0)) for x in cl.calls()):
                        takes.append((c, "readout() inside a closure handed to `%s`" % c.name))
        if not takes:
            continue
        succ = logical_succ(b)
        susp = {i_ for i_ in b.live_blocks() if b.term(i_)["k"] == "return" and any(
            st_["k"] == "setdiscr" and str(st_.get("variant", "")).isdigit() and int(st_["variant"]) >= 3 for st_ in b.stmts(i_))}
        ends = {i_ for i_ in b.live_blocks() if b.term(i_)["k"] == "return"} - susp
        aps = {c.bb for c in b.calls() if c.is_trait_method("EntrySink", "append") or c.name == "append"}
        for c, how in takes:
            n7 += 1
            if c.bb in aps:
                ctx.ok("R20.8", fnkey(b) + "#readout-appended-without-suspension", loc(b, c.bb), "taken as the argument of the append")
                continue
            seen, work, hit = set(), [c.target] if c.target is not None else [], None
            while work and hit is None:
                x = work.pop()
                if x in seen or b.is_cleanup(x):
                    continue
                seen.add(x)
                if x in aps:
                    continue
                if x in susp:
                    hit = (x, "a suspension point (`.await`)")
                    break
                if x in ends:
                    hit = (x, "the end of the body")
                    break
                work += succ(x)
            ctx.check(hit is None, "R20.8", fnkey(b) + "#readout-appended-without-suspension", loc(b, hit[0] if hit else c.bb),
                      "between taking the readout (%s) and appending it the future can reach %s: if it is dropped there (it lost a `select` against the "
                      "shutdown signal, the task was aborted, the runtime shut down) the counters that were swapped to zero are reported nowhere" % (how, hit[1] if hit else ""),
                      "every path from the readout reaches the append first")
    ctx.floor("R20.8", "places where a readout is taken outside the readout implementation", n7, 2)
    return EXPL

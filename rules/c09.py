"""C09 — a full queue never blocks: displace-oldest insertion, loss counter."""
from mq.util import *
from mq.prov import Prov
from rules.c01 import append_chain, is_insert, BG, BGMOD, in_bg

EXPL = ("R09.1 call-graph reachability: from the append entry points (BackgroundQueue::append, BoxEntrySink::append_any, the "
        "blanket EntrySink-for-AnyEntrySink forwarder; the global try_append is excluded: with test-util it consults a test-sink registry under a mutex by design) no workspace path reaches a blocking primitive (Mutex::lock, Condvar::wait*, sleep, park*, recv*, join, "
        "blocking_*, RwLock::write); R09.2 the appended entry is linearly moved into the displace-oldest insertion (returns the "
        "displaced element as Option) and never dropped; R09.3 the overflow counter call has constant amount 1, is dominated by the "
        "'an entry was displaced' branch, lies outside any loop and its only other guard is the presence of a recorder. "
        "R09.4 the counter is reported under the queue's own name, and the recorder bridges reach no thread-local, once-initialised or static "
        "state (a loss is attributed using this call's arguments only). Not decided: which entry is displaced and order after wrap-around (ArrayQueue semantics).")

BLOCKING = [
    ("std::sync", ("Mutex::lock", "Condvar::wait", "Condvar::wait_timeout", "Condvar::wait_while", "RwLock::write", "Barrier::wait",
                   "Receiver::recv", "Receiver::recv_timeout", "SyncSender::send", "Receiver::recv_deadline")),
    ("std::thread", ("sleep", "park", "park_timeout", "JoinHandle::join", "sleep_until")),
    ("crossbeam_utils", ("Parker::park", "Parker::park_timeout", "Parker::park_deadline")),
    ("tokio", ("blocking_recv", "blocking_send", "blocking_lock", "block_on")),
    ("parking_lot", ("lock", "write")),
]


def is_blocking(cs):
    for pre, names in BLOCKING:
        if cs.is_in(pre, *names):
            return True
    return False


def blocking_paths(F, body, depth=5, stack=()):
    if body.def_ in stack or depth < 0:
        return []
    out = []
    for cs in body.calls():
        if is_noise(cs):
            continue
        if is_blocking(cs):
            out.append(stack + (body.path, cs.def_))
            continue
        for sb in local_callee_bodies(F, cs) + closure_args(F, cs):
            out += blocking_paths(F, sb, depth - 1, stack + (body.path,))
    return out


def run(ctx):
    F = ctx.facts("dbg")
    entries = []
    for b in F.all_bodies(WS_LIBS):
        tr = ((b.impl or {}).get("trait") or "")
        if b.name == "append" and tr.endswith("::EntrySink") and (b.path.startswith("<") and in_bg(F, b)):
            entries.append(b)
        if b.name == "append_any" and tr.endswith("::AnyEntrySink") and "BoxEntrySink" in b.path:
            entries.append(b)
        if b.name == "append" and tr.endswith("::EntrySink") and b.path.startswith("<T as metrique_writer_core::sink::EntrySink"):
            entries.append(b)
    ctx.floor("R09.1", "append entry points", len(entries), 3)
    for b in entries:
        paths = blocking_paths(F, b)
        ctx.check(not paths, "R09.1", fnkey(b) + "#non-blocking", loc(b),
                  "append path can block: %s" % (" -> ".join(paths[0]) if paths else ""), "no blocking primitive reachable (workspace call graph, depth 5)")
    # R09.2
    n_ins = 0
    for b in entries:
        if not (b.path.startswith("<") and in_bg(F, b)):
            continue
        ins = append_chain(ctx, F, "R09.2", b, 2)
        for ib, cs, ai in ins:
            n_ins += 1
            dty = ib.local_ty(cs.dest["l"]) if not cs.dest.get("p") else ""
            ctx.check(dty.startswith("core::option::Option<"), "R09.2", fnkey(ib) + "#insertion-displaces-oldest", loc(ib, cs.bb),
                      "ring insertion `%s` is fallible (returns %s): on a full queue the newest entry is handed back and lost instead of "
                      "displacing the oldest" % (cs.name, dty), "%s returns the displaced element (%s)" % (cs.name, dty))
            # R09.3 loss counter next to this insertion
            is_inc = lambda c: c.name == "increment_counter" and any((op_const(a) or {}).get("str") == "metrique_queue_overflows" for a in c.args)
            incs = [(ib, c, c.bb) for c in ib.calls() if is_inc(c)]
            # the loss accounting may sit in a helper of its own, called where the displaced entry is known
            for c in ib.calls():
                for hb in local_callee_bodies(F, c):
                    if hb.crate == BG and hb.def_ != ib.def_ and any(is_inc(x) for x in hb.calls()):
                        incs += [(hb, x, c.bb) for x in hb.calls() if is_inc(x)]
            # a tally kept at the insertion and handed to the recorder later by the writer thread is not a substitute: the property holds
            # for every amount of writer progress, a completely stalled (or dead) writer included, and then the recorder never sees the
            # discarded entries. (Noted only to say so in the report.)
            deferred = [c for c in ib.calls() if c.name in ("fetch_add",) and "sync::atomic::Atomic" in (c.def_ or "")] if not incs else []
            ctx.check(len(incs) >= 1, "R09.3", fnkey(ib) + "#overflow-counter-present", loc(ib),
                      "no metrique_queue_overflows counter increment next to the ring insertion%s: the discarded entry must be reported to the recorder where "
                      "it is discarded - reported later by the writer thread it is not counted while the writer is stalled, and never if the writer is gone" % (
                          " (the displacement is only tallied in an atomic)" if deferred else ""))

            def guard_scan(body, at_bb, ins_cs):
                """switches that decide whether block at_bb of `body` runs: (depends on the displaced value?, extra guards, some-side ok?)"""
                dom_ = body.dominators()
                pr_ = Prov(body)
                guards, displaced_guard, side_ok = [], False, True
                for i in body.live_blocks():
                    t = body.term(i)
                    if t["k"] != "switch" or not dominates(body, i, at_bb, dom_) or i == at_bb:
                        continue
                    # does the switch actually decide reaching at_bb? (not reachable from every successor)
                    succs = body.succ(i)
                    if all(at_bb in body.reachable(s) for s in succs):
                        continue
                    o = pr_.operand(t["discr"])
                    from_ins = ins_cs is not None and (any(x == ("call", ins_cs.bb) for x in o) or any(
                        x[0] == "call" and _is_some_of(body, x[1], ins_cs) for x in o))
                    # "is a metrics recorder installed": the matched Option holds the recorder (recognised by type, whatever the field is
                    # called and however the queue's inner state is reached)
                    from_rec = any(x[0] == "arg" and x[1] == 1 and "recorder" in x[2] for x in o)
                    for x in o:
                        # `self.recorder.is_some()`
                        if x[0] == "call" and (body.term(x[1]).get("callee") or {}).get("name") in ("is_some", "is_none") and body.term(x[1]).get("args"):
                            a0_ = op_local(body.term(x[1])["args"][0])
                            if a0_ is not None and "MetricRecorder" in body.local_ty(a0_):
                                from_rec = True
                    for s_ in body.stmts(i):
                        if s_["k"] == "assign" and s_["rv"]["k"] == "discr" and "MetricRecorder" in body.local_ty(s_["rv"]["place"]["l"]):
                            from_rec = True
                    if from_ins:
                        displaced_guard = True
                        some_side = _some_side(body, i, t, ins_cs, pr_)
                        side_ok = side_ok and some_side is not None and at_bb in body.reachable(some_side) and not any(
                            at_bb in body.reachable(s) for s in succs if s != some_side)
                    elif not from_rec:
                        guards.append(i)
                return displaced_guard, guards, side_ok

            for hb, inc, site in incs:
                amt = op_const(inc.args[1] if inc.name == "fetch_add" else inc.args[-1]) or {}
                ctx.check(amt.get("int") == 1, "R09.3", fnkey(ib) + "#overflow-amount-1", loc(hb, inc.bb),
                          "overflow counter is bumped by %s per displaced entry instead of 1" % (amt.get("int", "a non-constant")))
                in_loop = inc.bb in hb.reachable_after(inc.bb) or site in ib.reachable_after(site)
                ctx.check(not in_loop, "R09.3", fnkey(ib) + "#overflow-not-in-loop", loc(hb, inc.bb), "overflow increment sits in a loop")
                displaced_guard, guards, side_ok = guard_scan(ib, site, cs)
                if hb is not ib:
                    _, g2, _ = guard_scan(hb, inc.bb, None)
                    guards = guards + ["%s:bb%d" % (hb.name, g) for g in g2]
                if displaced_guard:
                    ctx.check(side_ok, "R09.3", fnkey(ib) + "#overflow-counted-only-when-displaced", loc(hb, inc.bb),
                              "overflow increment is reachable on the branch where nothing was displaced")
                ctx.check(displaced_guard, "R09.3", fnkey(ib) + "#overflow-guarded-by-displacement", loc(hb, inc.bb),
                          "overflow increment is not control-dependent on the insertion having displaced an entry (counts every append)")
                ctx.check(not guards, "R09.3", fnkey(ib) + "#overflow-no-extra-guard", loc(hb, inc.bb),
                          "overflow increment has additional guard(s) at bb%s: some displaced entries would not be counted" % guards)
    ctx.floor("R09.2", "ring insertions on the append chain", n_ins, 1)
    # ------------------------------------------------------------------ R09.4 the loss is counted for this queue: own name in, nothing remembered in the bridge
    n_name = 0
    for b in F.all_bodies(BG):
        if not in_bg(F, b):
            continue
        pr = None
        for c in b.calls():
            if c.name == "increment_counter" and any((op_const(a) or {}).get("str") == "metrique_queue_overflows" for a in c.args):
                pr = pr or Prov(b)
                n_name += 1
                so = pr.operand(c.args[2]) if len(c.args) > 2 else set()
                ctx.check(any(x[0] == "arg" and x[1] == 1 and x[2] for x in so) and not any(x[0] == "const" for x in so), "R09.4", fnkey(b) + "#counted-under-own-name", loc(b, c.bb),
                          "the overflow counter is not reported under this queue's own name (origins %s)" % sorted(map(str, so))[:3],
                          "sink label derives from the queue's own state")
    ctx.floor("R09.4", "overflow counter call sites", n_name, 1)
    bridges = [b for b in F.all_bodies(BG) if b.impl and (b.impl.get("trait") or "").endswith("sink::metrics::MetricRecorder")]
    ctx.floor("R09.4", "MetricRecorder bridge methods", len(bridges), 4)
    seen, work = {}, [(b, 0) for b in bridges]
    while work:
        b, d = work.pop()
        if b.def_ in seen:
            continue
        seen[b.def_] = b
        if d >= 3:
            continue
        for c in b.calls():
            for sb in local_callee_bodies(F, c) + closure_args(F, c):
                if sb.crate == BG:
                    work.append((sb, d + 1))
    amb = []
    for b in seen.values():
        for c in b.calls():
            d_ = (c.resolved or c.def_ or "")
            if c.is_in("std::thread", "LocalKey::with", "LocalKey::try_with", "LocalKey::with_borrow", "LocalKey::with_borrow_mut", "LocalKey::set", "LocalKey::get") or \
                    "OnceLock" in d_ or "LazyLock" in d_ or "OnceCell" in d_ or "lazy::Lazy" in d_:
                amb.append((b, c))
    ctx.check(not amb, "R09.4", BG + "::sink::metrics#bridge-keeps-nothing-between-calls",
              loc(amb[0][0], amb[0][1].bb) if amb else "metrique-writer/src/sink/metrics.rs",
              "a recorder bridge reaches ambient per-thread / global state (%s in %s): what it reports for one queue can depend on an earlier call "
              "for another queue (for example a cached key carrying the other queue's name), so a queue's overflow counter no longer equals its own losses"
              % (amb[0][1].name if amb else "", amb[0][0].path if amb else ""),
              "%d bodies reachable from the bridge methods, none touches thread-local or once-initialised state" % len(seen))
    # immutable data statics (the metrics macros' `static METADATA`) are fine; memory is anything thread-local or with interior mutability
    st_bad = [st for st in F.statics if st["crate"] == BG and "::sink::metrics::" in st["def"] and
              (st.get("thread_local") or st.get("mutable") or "__RUST_STD_INTERNAL" in st["def"] or
               any(k in st["ty"] for k in ("Cell", "Mutex", "RwLock", "Atomic", "OnceLock", "LazyLock", "LocalKey", "HashMap")))]
    ctx.check(not st_bad, "R09.4", BG + "::sink::metrics#no-statics", "metrique-writer/src/sink/metrics.rs",
              "the recorder bridge module defines static state (%s)" % [x["def"] for x in st_bad][:3])
    return EXPL


def _is_some_of(body, bb, ins):
    t = body.term(bb)
    c = t.get("callee", {})
    if c.get("def") not in ("core::option::Option::<T>::is_some", "core::option::Option::<T>::is_none"):
        return False
    o = Prov(body).operand(t["args"][0])
    return ("call", ins.bb) in o


def _some_side(body, i, t, ins, pr):
    """successor of switch i taken when the insertion returned Some"""
    o = pr.operand(t["discr"])
    for x in o:
        if x[0] == "call" and x[1] != ins.bb:
            c = body.term(x[1]).get("callee", {})
            if c.get("def", "").endswith("is_some"):
                return t["otherwise"] if any(v == 0 for v, _ in t["targets"]) else None
            if c.get("def", "").endswith("is_none"):
                for v, tb in t["targets"]:
                    if v == 0:
                        return tb
    # direct discriminant switch
    for v, tb in t["targets"]:
        if v == 1:
            return tb
    return None



def _ref_field(body, op):
    """name of the field the reference operand `op` points at (`&self.shared.tally` -> 'tally'), following moves of the reference"""
    l = op_local(op)
    hops = 0
    while l is not None and hops < 5:
        ds = [d for d in body.defs().get(l, []) if not body.is_cleanup(d[1])]
        if len(ds) != 1 or ds[0][0] != "assign" or ds[0][3]["k"] != "assign":
            return None
        rv = ds[0][3]["rv"]
        if rv["k"] == "ref":
            fs = [e for e in rv["place"].get("p", []) if e[0] == "f"]
            return fs[-1][2] if fs and rv["place"]["p"][-1][0] == "f" else None
        if rv["k"] in ("use", "cast"):
            l = op_local(rv["op"])
            hops += 1
            continue
        return None
    return None

"""C18 — timers and stopwatches: per-operation effect table, sibling agreement, injected time source."""
from mq.util import *
from mq.prov import Prov
from mq.sim import Sim
from mq.facts import CallSite
from rules.c17 import precedence

EXPL = ("R18.1 each guard / stopwatch / timer operation has the effect set of the reference table written from the documentation "
        "(stop_ref returns the stored span or stores start.map(elapsed); drop adds the span iff present, exactly once; discard clears "
        "span and start; overwrite/clear take the accumulator; add_assign = Some(prev.unwrap_or_default() + d); Timer::stop/close "
        "return the stored span or elapsed). Effects are compared as sets per body, so statement order and helper extraction do not "
        "matter. R18.2 sibling agreement: the borrowed and the owned guard have identical effect sets under the field map timer<->"
        "*timer; both duration representations agree; the switch to the shared representation moves the exclusive value (take < "
        "Arc::new(Mutex::new(_)) < *self = Shared). R18.3 starts read the injected TimeSource (instant / system_time), never the "
        "ambient clock; R18.4 the stopwatch's own Option<Instant> field is only ever set to None (spans are measured by guards from the guard's "
        "own start; a stored start would let close() report time no kept span accounts for); get_time_source precedence explicit > thread-local > runtime > system is a dominance chain. Composition over "
        "all histories is by induction on paper (DESIGN §4 C18); clock values are runtime and not decided.")
MQ = "metrique"
TS = "metrique_timesource"


def acc_adts(F):
    """the stopwatch's accumulator type, by shape: a two-variant enum of the crate, one variant holding the plain Option<Duration>, the
    other a shared cell (its name and module are private details)"""
    if not hasattr(F, "_acc_adts"):
        out = set()
        for d, a in F.adts.items():
            if a["crate"] != MQ or len(a["variants"]) != 2:
                continue
            tys = [[f["ty"] for f in v["fields"]] for v in a["variants"]]
            if any(t == ["core::option::Option<core::time::Duration>"] for t in tys) and any(len(t) == 1 and t[0].startswith(MQ + "::") for t in tys):
                out.add(d)
        F._acc_adts = out
    return F._acc_adts


def field_roles(F, adt_def):
    """field name -> role label, decided by the field's type (private field names may change, their types say what they are).
    Labels are the names the fields have today: start / self_time / timer / duration / time_source."""
    a = F.adts.get(adt_def)
    out = {}
    if not a:
        return out
    is_guard = adt_def.endswith("TimerGuard")
    for v in a["variants"]:
        for f in v["fields"]:
            ty = f["ty"]
            if "TimeSource" in ty:
                out[f["name"]] = "time_source"
            elif "Instant" in ty:
                out[f["name"]] = "start"
            elif any(a_ in ty for a_ in acc_adts(F)):
                out[f["name"]] = "timer" if is_guard else "duration"
            elif ty == "core::option::Option<core::time::Duration>":
                out[f["name"]] = "self_time" if is_guard else "duration"
    return out


def self_adt(b):
    if b.impl and (b.impl.get("self_head") or {}).get("adt"):
        return b.impl["self_head"]["adt"]
    if b.arg_count >= 1:
        h = b.locals[1].get("head", {})
        return h.get("adt")
    return None


def effects(F, b, depth=1):
    """flow-insensitive effect set of a body on its receiver: calls (name, receiver field path) and field assignments"""
    roles = field_roles(F, self_adt(b) or "")
    canon = lambda fs: tuple(roles.get(f, f) if k == 0 else f for k, f in enumerate(fs))
    return {(_e[0], canon(_e[1])) if _e[0] in ("assign", "clear", "assign-through") and isinstance(_e[1], tuple) else
            ((_e[0], _e[1], canon(_e[2])) if _e[0] == "call" and len(_e) > 2 and isinstance(_e[2], tuple) else _e)
            for _e in _effects_raw(F, b, depth)}


def _effects_raw(F, b, depth=1):
    pr = Prov(b, adapter_pred=lambda t: (t.get("callee") or {}).get("name") in ("as_ref", "as_mut", "deref", "deref_mut"))
    out = set()
    for c in b.calls():
        if is_noise(c) or c.diverges:
            continue
        recv = ()
        if c.args:
            o = pr.operand(c.args[0])
            fs = sorted({x[2] for x in o if x[0] == "arg" and x[1] == 1})
            recv = fs[0] if fs else ()
        out.add(("call", c.name, tuple(f for f in recv)))
        for cb in closure_args(F, c):
            for e in _effects_raw(F, cb, 0):
                if e[0] == "call":
                    out.add(("call-in-closure", e[1]))
    for i in b.live_blocks():
        for s in b.stmts(i):
            if s["k"] == "assign" and s["lhs"]["l"] == 1 and s["lhs"].get("p"):
                fs = tuple(e[2] for e in s["lhs"]["p"] if e[0] == "f")
                if fs:
                    rv = s["rv"]
                    is_none = rv["k"] == "agg" and rv.get("variant") == "None"
                    if not is_none and rv["k"] == "use":
                        oo = {x for x in pr.operand(rv["op"]) if x[0] != "via"}
                        is_none = bool(oo) and all(x[0] == "agg" and x[2] == "None" for x in oo)
                    out.add(("clear", fs) if is_none else ("assign", fs))
            elif s["k"] == "assign" and s["lhs"].get("p"):
                # writes through a reference derived from self (e.g. `*duration = Some(..)` inside a match arm)
                base = Prov(b).local(s["lhs"]["l"])
                if any(x[0] == "arg" and x[1] == 1 for x in base) and any(e[0] == "deref" for e in s["lhs"]["p"]):
                    out.add(("assign-through", tuple(sorted({x[2] for x in base if x[0] == "arg"}))[:1]))
    return out


def normalise(eff, drop_fields=("timer",)):
    """field map for sibling comparison: `timer` (a reference in one sibling, a value in the other) is one role"""
    PURE = ("deref", "deref_mut", "as_ref", "as_mut", "drop", "map", "and_then", "copied", "cloned", "is_some", "is_none",
            "unwrap_or", "unwrap_or_default", "unwrap_or_else", "branch", "from_residual", "into_iter", "next")   # Option plumbing: no effect of its own
    READS = ("elapsed", "instant", "now", "duration_since", "saturating_duration_since")          # the clock reads: the same whether direct or in a `.map(|s| ..)`
    out = set()
    for e in eff:
        if e[0] == "call":
            nm = e[1]
            if nm in PURE:
                continue
            if nm == "take" and e[2]:
                out.add(("clear", e[2]))        # `x.take();` and `x = None;` are the same effect
                continue
            if nm in READS:
                out.add(("read", nm))
                continue
            out.add(("call", nm, e[2]))
        elif e[0] == "call-in-closure":
            if e[1] in PURE:
                continue
            out.add(("read", e[1]) if e[1] in READS else ("call", e[1], ()))
        else:
            out.add(e)
    return out


def find(F, crate, impl_adt, name, trait=None):
    res = []
    for b in F.all_bodies(crate):
        if b.name != name or not b.impl:
            continue
        st = (b.impl.get("self_ty") or "").replace("&'_ ", "").replace("&", "")
        if not (st == impl_adt or st.startswith(impl_adt + "<")):
            continue
        if trait is not None and not (b.impl.get("trait") or "").endswith(trait):
            continue
        if trait is None and b.impl.get("trait"):
            continue
        res.append(b)
    return res


def run(ctx):
    F = ctx.facts("dbg")
    T = "metrique::timers::"
    guards = {"borrowed": T + "TimerGuard", "owned": T + "OwnedTimerGuard"}
    ops = {}
    for role, adt in guards.items():
        for nm, tr in (("stop_ref", None), ("discard", None), ("overwrite", None), ("stop", None), ("drop", "::Drop")):
            bs = find(F, MQ, adt, nm, tr)
            if not bs and nm == "stop_ref":
                # private helper: `&mut self -> Option<Duration>` on the guard, under whatever name
                bs = [b for b in F.all_bodies(MQ) if b.impl and not b.impl.get("trait") and (b.impl.get("self_head") or {}).get("adt") == adt and
                      b.d.get("output") == "core::option::Option<core::time::Duration>" and len(b.d.get("inputs") or []) == 1 and (b.d["inputs"][0]).startswith("&mut ")]
            ctx.check(len(bs) == 1, "R18.1", adt + "::" + nm + "#present", "", "operation %s of the %s guard not found" % (nm, role))
            if bs:
                ops[(role, nm)] = bs[0]
    # ------------------------------------------------------------------ R18.1 rows
    for role in guards:
        b = ops.get((role, "stop_ref"))
        if b:
            e = effects(F, b)
            key = fnkey(b)
            ctx.check(("assign", ("self_time",)) in e, "R18.1", key + "#stores-span", loc(b), "stop_ref no longer stores the measured span in self_time (a second stop would re-measure)")
            span_fields = {n for n, r in field_roles(F, guards[role]).items() if r == "self_time"}
            start_fields = {n for n, r in field_roles(F, guards[role]).items() if r == "start"}
            # the decision may live in a pure private helper that is handed (start, stored span) and whose result is stored back:
            # `self.self_time = resolve_span(self.start.as_ref(), self.self_time)`
            prb = Prov(b, adapter_pred=lambda t: (t.get("callee") or {}).get("name") in ("as_ref", "deref", "as_mut", "clone"))
            helper_el, helper_id = False, False
            for c in b.calls():
                for hb in local_callee_bodies(F, c):
                    if hb.crate != MQ or hb.kind == "Closure":
                        continue
                    sp = [ai for ai, a in enumerate(c.args) if any(x[0] == "arg" and x[1] == 1 and x[2] and x[2][0] in span_fields for x in prb.operand(a))]
                    stp = [ai for ai, a in enumerate(c.args) if any(x[0] == "arg" and x[1] == 1 and x[2] and x[2][0] in start_fields for x in prb.operand(a))]
                    if not sp or not stp:
                        continue
                    he = effects(F, hb)
                    helper_el = helper_el or any(x[0] in ("call-in-closure", "call") and x[1] == "elapsed" for x in he)
                    hp = sp[0] + 1
                    for i in hb.live_blocks():
                        if hb.term(i)["k"] != "switch":
                            continue
                        if not any(s_["k"] == "assign" and s_["rv"]["k"] == "discr" and s_["rv"]["place"]["l"] == hp for s_ in hb.stmts(i)):
                            continue
                        tg = {v: tb for v, tb in hb.term(i)["targets"]}
                        some_t = tg.get(1)
                        if some_t is None:
                            continue
                        region = hb.reachable(some_t) - hb.reachable(tg.get(0, hb.term(i)["otherwise"]))
                        if not [j for j in region if hb.term(j)["k"] == "call"] and any(x[0] == "arg" and x[1] == hp for x in Prov(hb).local(0)):
                            helper_id = True
            ctx.check(any(x[0] in ("call-in-closure", "call") and x[1] == "elapsed" for x in e) or helper_el, "R18.1", key + "#span-is-elapsed-since-start", loc(b), "stop_ref does not compute start.elapsed()")
            # idempotent: on the Some(self_time) arm nothing is written
            sw = [i for i in b.live_blocks() if b.term(i)["k"] == "switch" and any(
                s["k"] == "assign" and s["rv"]["k"] == "discr" and any(e2[0] == "f" and e2[2] in span_fields for e2 in s["rv"]["place"].get("p", [])) for s in b.stmts(i))]
            okid = False
            for i in sw:
                tg = {v: tb for v, tb in b.term(i)["targets"]}
                some_t = tg.get(1)
                if some_t is not None:
                    region = b.reachable(some_t) - b.reachable(tg.get(0, b.term(i)["otherwise"]))
                    writes = [j for j in region for s in b.stmts(j) if s["k"] == "assign" and s["lhs"]["l"] == 1 and s["lhs"].get("p")]
                    calls = [j for j in region if b.term(j)["k"] == "call"]
                    okid = not writes and not calls
            # the same test written with is_none() / is_some(): nothing is written on the side where a span is stored
            for c in b.calls():
                if c.name in ("is_none", "is_some") and c.args and any(x[0] == "arg" and x[1] == 1 and x[2] and x[2][0] in span_fields for x in prb.operand(c.args[0])):
                    for sw_, tg_, oth_ in switch_on_call_result(b, c):
                        t_true, t_false = tg_.get(1, oth_ if 0 in tg_ else None), tg_.get(0, oth_ if 1 in tg_ else None)
                        some_t, none_t = (t_false, t_true) if c.name == "is_none" else (t_true, t_false)
                        if some_t is None or none_t is None:
                            continue
                        region = b.reachable(some_t, avoid=[sw_]) - b.reachable(none_t, avoid=[sw_])
                        only_none = b.reachable(none_t, avoid=[sw_]) - b.reachable(some_t, avoid=[sw_])
                        wr = lambda blocks: [j for j in blocks for s_ in b.stmts(j) if s_["k"] == "assign" and s_["lhs"]["l"] == 1 and s_["lhs"].get("p")]
                        # writes to self happen only on the `nothing stored yet` side
                        all_writes = wr(b.live_blocks())
                        if all_writes and all(j in only_none for j in all_writes) and not [j for j in region if b.term(j)["k"] == "call"]:
                            okid = True
            ctx.check(okid or helper_id, "R18.1", key + "#stop-idempotent", loc(b), "a stored span is not returned unchanged (repeated stops would change the result)")
        b = ops.get((role, "drop"))
        if b:
            key = fnkey(b)
            stop_body = ops.get((role, "stop_ref"))
            sr = [c for c in b.calls() if stop_body is not None and stop_body in local_callee_bodies(F, c)]
            ok, why = exactly_once(b, [c.bb for c in sr])
            ctx.check(ok, "R18.1", key + "#stops-once", loc(b), "drop does not call stop_ref exactly once: " + why)
            adds = [c for c in b.calls() if c.name == "add_assign"]
            okadd = False
            pr = Prov(b)
            for a in adds:
                for c in sr:
                    for sw_, tg, oth in switch_on_call_result(b, c):
                        some_t = tg.get(1)
                        none_t = tg.get(0, oth)
                        if some_t is not None and a.bb in b.reachable(some_t) and a.bb not in b.reachable(none_t) and b.must_pass([a.bb], start=some_t):
                            okadd = any(x[0] in ("call", "callf") and x[1] == c.bb for x in pr.operand(a.args[1]))
            ctx.check(okadd and len(adds) == 1, "R18.1", key + "#adds-span-iff-present", loc(b), "drop does not add exactly the stopped span to the stopwatch when (and only when) there is one")
        b = ops.get((role, "discard"))
        if b:
            e = effects(F, b)
            en = normalise(e)
            ctx.check(("clear", ("self_time",)) in en and ("clear", ("start",)) in en, "R18.1", fnkey(b) + "#clears-span-and-start", loc(b),
                      "discard does not clear both the stored span and the start instant (the drop that follows would still add a span): %s" % sorted(x for x in e if x[0] == "call"))
        b = ops.get((role, "overwrite"))
        if b:
            e = effects(F, b)
            en = normalise(e)
            ctx.check(("clear", ("timer",)) in en, "R18.1", fnkey(b) + "#takes-accumulator", loc(b), "overwrite does not reset the stopwatch's accumulated duration")
            ctx.check(not any(x[0] == "clear" and x[1] in (("self_time",), ("start",)) for x in en), "R18.1", fnkey(b) + "#keeps-own-span", loc(b), "overwrite discards the guard's own span")
    # Stopwatch::clear, Timer::stop/close, add_assign
    for b in find(F, MQ, T + "Stopwatch", "clear"):
        e = effects(F, b)
        en = normalise(e)
        ctx.check(("clear", ("duration",)) in en and ("clear", ("start",)) in en, "R18.1", fnkey(b) + "#clears-duration-and-start", loc(b), "Stopwatch::clear does not take both duration and start")
    for b in find(F, MQ, T + "Timer", "stop"):
        e = effects(F, b)
        ctx.check(("assign", ("duration",)) in e and ("call", "elapsed", ("start",)) in e, "R18.1", fnkey(b) + "#stores-elapsed", loc(b), "Timer::stop does not store start.elapsed() as the duration")
        # early return of the stored value
        rets = b.return_blocks()
        pr = Prov(b)
        ctx.check(any(x[0] == "arg" and x[2][:1] == ("duration",) for x in pr.local(0)), "R18.1", fnkey(b) + "#returns-stored-first", loc(b), "Timer::stop does not return the stored duration when present")
    for b in find(F, MQ, T + "Timer", "close", "CloseValue"):
        if b.locals[1]["ty"].startswith("&"):
            e = effects(F, b)
            form_a = any(x[0] == "call" and x[1] in ("unwrap_or_else", "unwrap_or") and x[2] == ("duration",) for x in e) and any(x[1] == "elapsed" for x in e if x[0] in ("call", "call-in-closure"))
            # the same written as a match: the result is the stored duration or `start.elapsed()`, and the clock is read only when nothing is stored
            pr = Prov(b)
            ro = pr.local(0)
            els = [c for c in b.calls() if c.name == "elapsed"]
            form_b = any(x[0] == "arg" and x[2] and x[2][0] == "duration" for x in ro) and bool(els) and all(("call", c.bb) in ro for c in els)
            if form_b:
                some_ts = []
                for i in b.live_blocks():
                    t = b.term(i)
                    if t["k"] != "switch":
                        continue
                    for st_ in b.stmts(i):
                        if st_["k"] == "assign" and st_["rv"]["k"] == "discr" and any(e_[0] == "f" and e_[2] == "duration" for e_ in st_["rv"]["place"].get("p", [])):
                            vm = {n: d for d, n in st_["rv"].get("variants", [])}
                            tg = {v: tb for v, tb in t["targets"]}
                            some_ts.append(tg.get(vm.get("Some"), t["otherwise"]))
                form_b = bool(some_ts) and not any(c.bb in b.reachable(st) for st in some_ts for c in els)
            ctx.check(form_a or form_b, "R18.1", fnkey(b) + "#stored-or-elapsed", loc(b), "Timer::close is not `stored duration or elapsed`")
    adds = [b for b in F.all_bodies(MQ) if b.name == "add_assign" and b.path.startswith("<" + T)]
    ctx.floor("R18.1", "duration add_assign implementations", len(adds), 2)
    sums = {}
    for b in adds:
        names = {c.name for c in b.calls()}
        has_sum = any(c.name == "add" and "Duration" in (c.self_ty or "") for c in b.calls())
        # the absent previous value counts as zero: unwrap_or_default / unwrap_or(ZERO) / a match whose None arm yields the default
        uod = bool(names & {"unwrap_or_default", "unwrap_or", "default"}) or any("ZERO" in str(op_const(o) or "") for i in b.live_blocks() for s_ in b.stmts(i)
                                                                                if s_["k"] == "assign" and s_["rv"]["k"] == "use" for o in [s_["rv"]["op"]])
        somes = any(s["k"] == "assign" and s["rv"]["k"] == "agg" and s["rv"].get("variant") == "Some" for i in b.live_blocks() for s in b.stmts(i))
        delegating = any(c.name == "add_assign" for c in b.calls())
        # ... or to a private helper of the crate that is `*slot = Some(slot.unwrap_or_default() + d)` itself
        for c in b.calls():
            for hb in local_callee_bodies(F, c):
                if hb.crate != MQ or hb.kind == "Closure" or hb.def_ == b.def_:
                    continue
                hn = {x.name for x in hb.calls()}
                h_sum = any(x.name == "add" and "Duration" in (x.self_ty or "") for x in hb.calls())
                h_uod = bool(hn & {"unwrap_or_default", "unwrap_or", "default"})
                h_some = any(s_["k"] == "assign" and s_["rv"]["k"] == "agg" and s_["rv"].get("variant") == "Some" for i_ in hb.live_blocks() for s_ in hb.stmts(i_))
                if h_sum and h_uod and h_some:
                    delegating = True
        # ... on every path: adding a span is also what turns an empty total into Some(..), so there is no path (a `zero span` shortcut,
        # say) that returns without the store or the delegation
        eff = [i for i in b.live_blocks() for s_ in b.stmts(i) if s_["k"] == "assign" and s_["rv"]["k"] == "agg" and s_["rv"].get("variant") == "Some"]
        eff += [c.bb for c in b.calls() if c.name in ("add_assign", "replace", "insert", "get_or_insert_with") or
                any(hb.crate == MQ and hb.kind != "Closure" and hb.def_ != b.def_ and any(
                    s_["k"] == "assign" and s_["rv"]["k"] == "agg" and s_["rv"].get("variant") == "Some" for i_ in hb.live_blocks() for s_ in hb.stmts(i_))
                    for hb in local_callee_bodies(F, c))]
        ctx.check(bool(eff) and b.must_pass(eff), "R18.1", fnkey(b) + "#adds-on-every-path", loc(b),
                  "add_assign can return without storing Some(previous + span) (an early return): a completed span - even an empty one - would not turn an "
                  "empty total into Some(..), so the stopwatch closes as absent although a span was kept",
                  "every path stores Some(..) or delegates")
        sums[b.path] = (has_sum, uod, somes, delegating)
        ctx.check((has_sum and uod and somes) or delegating, "R18.1", fnkey(b) + "#some(prev-or-zero+d)", loc(b), "add_assign is not Some(prev.unwrap_or_default() + d): %s" % sorted(names))
    # ------------------------------------------------------------------ R18.2 sibling agreement
    for nm in ("stop_ref", "discard", "overwrite", "drop", "stop"):
        a, b = ops.get(("borrowed", nm)), ops.get(("owned", nm))
        if a and b:
            ea, eb = normalise(effects(F, a)), normalise(effects(F, b))
            ctx.check(ea == eb, "R18.2", T + "TimerGuard~OwnedTimerGuard::" + nm + "#same-effects", loc(b),
                      "the owned and the borrowed timer guard disagree in `%s`: only-borrowed %s, only-owned %s" % (nm, sorted(ea - eb), sorted(eb - ea)),
                      "%d effects agree" % len(ea))
    mgd = lambda b: b.impl and not b.impl.get("trait") and (b.impl.get("self_head") or {}).get("adt") in acc_adts(F)
    takes = [b for b in F.all_bodies(MQ) if mgd(b) and b.d.get("output") == "core::option::Option<core::time::Duration>" and (b.d.get("inputs") or [""])[0].startswith("&mut ")]
    ctx.floor("R18.2", "accumulator take operation", len(takes), 1)
    for b in takes:
        tk = [c for c in b.calls() if c.name == "take" and "Option" in c.def_]
        # (a representation may delegate to a private take of its own: `Shared(s) => s.take()`)
        tk += [c for c in b.calls() if c not in tk and any(hb.crate == MQ and hb.kind != "Closure" and hb.def_ != b.def_ and
                                                           hb.must_pass([x.bb for x in hb.calls() if x.name == "take" and "Option" in x.def_] or [-1])
                                                           and any(x.name == "take" and "Option" in x.def_ for x in hb.calls()) for hb in local_callee_bodies(F, c))]
        ctx.check(len(tk) == 2, "R18.2", fnkey(b) + "#both-representations-take", loc(b), "MaybeGuardedDuration::take does not take() in both representations (found %d)" % len(tk))
    shared_tys = {f["ty"] for d_ in acc_adts(F) for v in F.adts[d_]["variants"] for f in v["fields"] if f["ty"].startswith(MQ + "::")}
    sc = [b for b in F.all_bodies(MQ) if mgd(b) and (b.d.get("output") or "") in shared_tys and (b.d.get("inputs") or [""])[0].startswith("&mut ")]
    ctx.floor("R18.2", "representation switch", len(sc), 1)
    for b in sc:
        pr = Prov(b)
        dom = b.dominators()
        tk = [c for c in b.calls() if c.name == "take" and "Option" in c.def_]
        mn = [c for c in b.calls() if c.name == "new" and "Mutex" in c.def_]
        ok = bool(tk) and bool(mn) and any(("call", t.bb) in pr.operand(m.args[0]) for t in tk for m in mn)
        ctx.check(ok, "R18.2", fnkey(b) + "#exclusive-value-moved-into-shared", loc(b),
                  "switching to the shared representation does not move the accumulated exclusive duration into the shared cell (spans measured so far would be lost)")
        setd = [i for i in b.live_blocks() for s in b.stmts(i) if s["k"] in ("assign", "setdiscr") and s["lhs"]["l"] == 1 and any(e[0] == "deref" for e in s["lhs"].get("p", []))]
        ctx.check(bool(setd), "R18.2", fnkey(b) + "#self-becomes-shared", loc(b), "the stopwatch does not switch itself to the shared representation")
    # ------------------------------------------------------------------ R18.4 a stopwatch remembers no start of its own
    # the stopwatch's own Option<Instant> field is only ever cleared: every span is measured by a guard from the guard's start; a stored
    # start would make close() report time that no completed, kept span accounts for
    sw_adt = T + "Stopwatch"
    start_fields = {n for n, r in field_roles(F, sw_adt).items() if r == "start"}
    n4 = 0
    for b in F.all_bodies(MQ):
        if "::test" in b.path:
            continue
        pr_ = None
        for i in b.live_blocks():
            for s_ in b.stmts(i):
                vals = []
                if s_["k"] == "assign" and s_["lhs"].get("p") and s_["lhs"]["p"][-1][0] == "f" and s_["lhs"]["p"][-1][2] in start_fields and s_["lhs"]["p"][-1][3] == sw_adt:
                    vals = [s_["rv"]]
                elif s_["k"] == "assign" and s_["rv"]["k"] == "agg" and s_["rv"].get("adt") == sw_adt:
                    vals = [{"k": "use", "op": o} for f_, o in zip(s_["rv"].get("fields") or [], s_["rv"]["ops"]) if f_ in start_fields]
                for rv in vals:
                    n4 += 1
                    pr_ = pr_ or Prov(b)
                    is_none = rv["k"] == "agg" and rv.get("variant") == "None"
                    if not is_none and rv["k"] == "use":
                        k_ = op_const(rv["op"])
                        oo = {x for x in pr_.operand(rv["op"]) if x[0] != "via"}
                        is_none = (k_ is not None and "None" in str(k_)) or (bool(oo) and all(x[0] == "agg" and x[2] == "None" for x in oo))
                    ctx.check(is_none, "R18.4", fnkey(b) + "#stopwatch-start-only-cleared", loc(b, i),
                              "the stopwatch's own start instant is set to something other than None: when the only span is discarded (or before any "
                              "span completes) close() would report the time since that instant although no completed, kept span accounts for it")
    ctx.floor("R18.4", "stores to the stopwatch's own start field (constructor + clear)", n4, 1)
    # ------------------------------------------------------------------ R18.3 time source
    lib = [b for b in F.all_bodies(MQ) if b.path.startswith(T) or b.path.startswith("<" + T)]
    lib = [b for b in lib if "::test::" not in b.path]
    amb = [(b, c) for b in lib for c in b.calls() if c.is_in("std::time", "Instant::now", "SystemTime::now")]
    ctx.check(not amb, "R18.3", T + "#no-ambient-clock", loc(amb[0][0], amb[0][1].bb) if amb else "", "timers read the ambient clock directly (%s in %s)" % (amb[0][1].def_ if amb else "", amb[0][0].path if amb else ""))
    starts = [b for b in lib if b.name in ("start", "start_owned") and "Stopwatch" in b.path]
    ctx.floor("R18.3", "stopwatch start operations", len(starts), 2)
    for b in starts:
        pr = Prov(b)
        ins = [c for c in b.calls() if c.name == "instant" and TS in c.def_]
        ctx.check(len(ins) == 1 and any(x[0] == "arg" and x[1] == 1 and any(field_roles(F, self_adt(b) or "").get(f_) == "time_source" for f_ in x[2]) for x in pr.operand(ins[0].args[0])), "R18.3", fnkey(b) + "#reads-injected-source", loc(b),
                  "the start instant does not come from the stopwatch's own time source")
    for b in lib:
        if b.name == "start_now_with_timesource" or b.name == "new_from_time_source":
            pr = Prov(b)
            rd = [c for c in b.calls() if c.name in ("instant", "system_time") and TS in c.def_]
            ctx.check(len(rd) == 1 and any(x[0] == "arg" and x[1] == 1 for x in pr.operand(rd[0].args[0])), "R18.3", fnkey(b) + "#reads-given-source", loc(b), "does not read the time source it was given")
    for b in lib:
        if b.name == "close" and "TimestampOnClose" in b.path and b.impl and not b.locals[1]["ty"].startswith("&"):
            pr = Prov(b)
            rd = [c for c in b.calls() if c.name == "system_time" and TS in c.def_]
            amb2 = [c for c in b.calls() if c.name == "time_source" and TS in c.def_]
            ctx.check(len(rd) == 1 and not amb2 and any(x[0] == "arg" and x[1] == 1 and any(field_roles(F, self_adt(b) or "").get(f_) == "time_source" for f_ in x[2]) for x in pr.operand(rd[0].args[0])), "R18.3", fnkey(b) + "#close-reads-captured-source", loc(b),
                      "the close-timestamp reads the ambient time source instead of the one captured at creation")
    # precedence chain in get_time_source
    g = [b for b in F.all_bodies(TS) if b.name == "get_time_source" and b.kind == "Fn"]
    ctx.floor("R18.3", "get_time_source", len(g), 1)
    for b in g:
        is_tl = lambda c: c.is_in("std::thread", "LocalKey::with", "LocalKey::try_with")
        is_rt = lambda c: c.name == "try_get_runtime_time_source"
        # the same precedence written as a chain `explicit.or_else(thread_local).or_else(runtime).unwrap_or(System)`: Option::or_else only
        # consults its argument when everything before it came up empty, so the order of the chain is the precedence
        chain = []
        prc = Prov(b)
        ors = [c for c in b.calls() if c.name == "or_else" and "option::Option" in c.def_]
        if ors:
            def kind_of_arg(c):
                ks = set()
                for fb in closure_args(F, c) + fn_item_args(F, c) + fn_operand_bodies(F, b, c.args[1] if len(c.args) > 1 else c.args[0]):
                    if any(is_tl(x) for x in fb.calls()) or reaches_call(F, fb, is_tl, depth=1):
                        ks.add("tl")
                    if fb.name == "try_get_runtime_time_source" or any(is_rt(x) for x in fb.calls()):
                        ks.add("rt")
                fa = [e for e in c.callee.get("fn_args", []) if "try_get_runtime_time_source" in str(e)]
                if fa:
                    ks.add("rt")
                return ks
            # order the or_else calls by data flow: each one's receiver is the previous one's result (or the parameter)
            first = [c for c in ors if any(x[0] == "arg" and x[1] == 1 for x in prc.operand(c.args[0])) and not any(x[0] == "call" and x[1] in [o.bb for o in ors] for x in prc.operand(c.args[0]))]
            cur = first[0] if len(first) == 1 else None
            while cur is not None:
                chain.append(kind_of_arg(cur))
                nxt = [c for c in ors if c is not cur and any(x[0] in ("call", "via") and x[1] == cur.bb for x in prc.operand(c.args[0])) and c not in [None]]
                nxt = [c for c in nxt if len(chain) < 4]
                cur = nxt[0] if len(nxt) == 1 else None
        if chain and chain == [{"tl"}, {"rt"}]:
            ctx.ok("R18.3", fnkey(b) + "#thread-local>runtime", loc(b), "or_else chain: explicit, thread-local, runtime")
            ctx.ok("R18.3", fnkey(b) + "#explicit-first", loc(b), "the chain starts from the explicit argument")
            continue
        precedence(ctx, "R18.3", b, is_tl, is_rt, "thread-local>runtime")
        # explicit first: the parameter's Some arm returns before any lookup
        dom = b.dominators()
        okx = False
        for i in b.live_blocks():
            t = b.term(i)
            if t["k"] == "switch":
                for s in b.stmts(i):
                    if s["k"] == "assign" and s["rv"]["k"] == "discr" and s["rv"]["place"]["l"] == 1:
                        tg = {v: tb for v, tb in t["targets"]}
                        some_t = tg.get(1)
                        if some_t is not None:
                            reach = b.reachable(some_t)
                            okx = not any(c.bb in reach for c in b.calls() if is_tl(c) or is_rt(c)) and all(dominates(b, i, c.bb, dom) for c in b.calls() if is_tl(c) or is_rt(c))
        ctx.check(okx, "R18.3", fnkey(b) + "#explicit-first", loc(b), "an explicitly given time source does not take precedence over the overrides")
    return EXPL

"""C05 — shutdown drains, flushes and closes the stream; the writer thread terminates.
Decided clauses: R05.1 join protocol, R05.2 exit discipline (drain < flush < drop(stream) on every exit of the
thread entry), R05.3 uniqueness test not defeated by a live clone, R05.4 exit reachable, R05.5 attach-handle drop."""
from mq.util import *
from mq.facts import CallSite
from mq.prov import Prov, single_def_ref_target
from mq.sim import pkey

EXPL = ("Path rules over the MIR of the background queue's join-handle destructor, the writer thread entry and its "
        "shutdown routine, plus the global attach handle: set-flag<join on the Some path; every Return of the thread "
        "entry is dominated by drain<flush<drop(stream); no Arc uniqueness test (get_mut/into_inner/try_unwrap) is made "
        "while the same body holds a live clone of that Arc; Return is reachable from the shutdown-flag and "
        "no-appenders tests. Not decided: timing of the drain vs. the timeout, appenders racing with the flag.")

BG = "metrique_writer"


def is_pop(cs):
    return cs.is_("crossbeam_queue::array_queue::ArrayQueue::<T>::pop")


def is_stream_flush(cs):
    return cs.is_trait_method("EntryIoStream", "flush")


def is_stream_next(cs):
    return cs.is_trait_method("EntryIoStream", "next")


def find_thread_entries(F, crate):
    """(spawn call site, closure body) for every thread spawn in the crate's library code"""
    out = []
    for b in F.all_bodies(crate):
        for cs in b.calls():
            if cs.is_in("std::thread", "spawn", "spawn_scoped", "spawn_unchecked"):
                for cb in closure_args(F, cs):
                    out.append((cs, cb))
    return out


def _stream_drops_only(F, body):
    """blocks of `body` that drop the stream (Drop terminator on the stream field / mem::drop of it)"""
    out = []
    for i in range(body.nblocks):
        if body.is_cleanup(i):
            continue
        t = body.term(i)
        if t["k"] == "drop":
            fs = place_fields(t["place"])
            if fs and fs[-1] == "stream" or _is_stream_place(body, t["place"]):
                out.append(i)
        elif t["k"] == "call" and (t.get("callee") or {}).get("def") == "core::mem::drop" and t["args"]:
            p = op_place(t["args"][0])
            work, seen = ([p["l"]] if p is not None else []), set()
            while work:
                l = work.pop()
                if l in seen:
                    continue
                seen.add(l)
                for kind, bb, idx, node in body.defs().get(l, []):
                    if kind == "assign" and node["k"] == "assign" and node["rv"]["k"] == "use":
                        q = op_place(node["rv"]["op"])
                        if q is not None and _is_stream_place(body, q):
                            out.append(i)
                        elif q is not None and not q.get("p"):
                            work.append(q["l"])
    return out


def shutdown_summary(F, body, _depth=0):
    """does `body` perform drain < flush < drop(stream) on every normal path to Return?  returns (ok, detail)"""
    dom = body.dominators()
    drains = [c for c in sites_reaching(F, body, is_pop) ]
    flushes = [c for c in sites_reaching(F, body, is_stream_flush)]
    # end of life of the stream: a Drop terminator / mem::drop whose operand is (a move out of) a field of a
    # type parameter bound by EntryIoStream -- identified as a field of self whose type is a type parameter
    drops = []
    for i in range(body.nblocks):
        if body.is_cleanup(i):
            continue
        t = body.term(i)
        if t["k"] == "drop":
            fs = place_fields(t["place"])
            if fs and fs[-1] == "stream" or _is_stream_place(body, t["place"]):
                drops.append(i)
        elif t["k"] == "call":
            c = t.get("callee", {})
            if c.get("def") == "core::mem::drop" and t["args"]:
                p = op_place(t["args"][0])
                if p is not None:
                    work, seen = [p["l"]], set()
                    while work:
                        l = work.pop()
                        if l in seen:
                            continue
                        seen.add(l)
                        for kind, bb, idx, node in body.defs().get(l, []):
                            if kind == "assign" and node["k"] == "assign" and node["rv"]["k"] == "use":
                                q = op_place(node["rv"]["op"])
                                if q is not None and _is_stream_place(body, q):
                                    drops.append(i)
                                elif q is not None and not q.get("p"):
                                    work.append(q["l"])
    # ... or a call of a private helper that ends the stream's life on every one of its paths (e.g. `self.close()`)
    if _depth < 1:
        for c in body.calls():
            for sb in local_callee_bodies(F, c):
                if sb.crate == body.crate and sb is not body:
                    dd = _stream_drops_only(F, sb)
                    if dd and sb.must_pass(dd):
                        drops.append(c.bb)
    if not drains:
        return False, "no drain (call reaching ArrayQueue::pop)"
    if not flushes:
        return False, "no stream flush"
    if not drops:
        return False, "stream is never dropped"
    # pick flushes that come after a drain on all paths and before a drop
    for d in drains:
        if not body.must_pass([d.bb]):
            continue
        for f in flushes:
            if not (dominates(body, d.bb, f.bb, dom) and f.bb != d.bb and body.must_pass([f.bb])):
                continue
            for x in drops:
                same_helper = False
                if x == f.bb:
                    # one private helper does both (`fn close(self) { flush; drop(stream) }`): inside it the flush comes first on every path
                    for sb in local_callee_bodies(F, f):
                        if sb.crate == body.crate and sb is not body:
                            hf = [c.bb for c in sites_reaching(F, sb, is_stream_flush)]
                            hd = _stream_drops_only(F, sb)
                            sdom = sb.dominators()
                            same_helper = bool(hf) and bool(hd) and sb.must_pass(hf) and all(any(dominates(sb, a_, d_, sdom) and a_ != d_ for a_ in hf) for d_ in hd)
                if (dominates(body, f.bb, x, dom) and x != f.bb or same_helper) and body.must_pass([x]):
                    # nothing touches the stream afterwards
                    after = body.reachable_after(x)
                    late = [c for c in drains + flushes if c.bb in after]
                    if late:
                        return False, "stream used after it was dropped (bb%d)" % late[0].bb
                    # no drain after the final flush
                    return True, "drain bb%d < flush bb%d < drop(stream) bb%d on every path" % (d.bb, f.bb, x)
    return False, "no drain<flush<drop(stream) chain that lies on every normal path (drains %s, flushes %s, drops %s)" % (
        [c.bb for c in drains], [c.bb for c in flushes], drops)


def _is_stream_place(body, place):
    """place is a field whose declared type is a type parameter bound by EntryIoStream"""
    pr = [e for e in place.get("p", []) if e[0] == "f"]
    if not pr:
        return False
    fty = pr[-1][4]
    preds = body.d.get("preds", [])
    return any(p.startswith(fty + ": ") and p.endswith("EntryIoStream") for p in preds)


def run(ctx):
    F = ctx.facts("dbg")
    # ------------------------------------------------------------------ R05.1 join protocol
    jh_drops = []
    for imp in F.impls_of("core::ops::drop::Drop"):
        if imp["crate"] != BG:
            continue
        adt = F.adts.get((imp.get("self_head") or {}).get("adt"))
        if not adt:
            continue
        def _holds_join(ty, depth=2):
            if "::JoinHandle<" in ty and "std::thread" in ty:
                return True
            if depth > 0:
                for d_, a_ in F.adts.items():
                    if a_["crate"] == BG and (ty == d_ or ty.startswith(d_ + "<") or ("<" + d_ + ">") in ty or ("<" + d_ + "<") in ty):
                        if any(_holds_join(f_["ty"], depth - 1) for v_ in a_["variants"] for f_ in v_["fields"]):
                            return True
            return False
        # (the handle may be wrapped in a private state type: `enum WriterThread { Joinable(JoinHandle<()>), Detached }`)
        if any(_holds_join(f["ty"]) for v in adt["variants"] for f in v["fields"]):
            for it in imp["items"]:
                if it["name"] == "drop":
                    b = F.bodies.get((BG, it.get("uid") or it["def"]))
                    if b:
                        jh_drops.append(b)
    ctx.floor("R05.1", "destructors of join-handle types (ADT holding a thread::JoinHandle)", len(jh_drops), 1)
    # (signal-and-join may be a private associated function the destructor hands the taken handle to)
    jh2 = []
    for b in jh_drops:
        if any(c.is_in("std::thread", "JoinHandle::join") for c in b.calls()):
            jh2.append(b)
            continue
        hs_ = [hb for c in b.calls() for hb in local_callee_bodies(F, c) if hb.crate == BG and hb.kind != "Closure" and any(x.is_in("std::thread", "JoinHandle::join") for x in hb.calls())]
        jh2 += hs_ or [b]
    jh_drops = jh2
    for b in jh_drops:
        is_flag_store = lambda c: c.is_("core::sync::atomic::Atomic::<bool>::store", "core::sync::atomic::AtomicBool::store")
        stores = [c for c in b.calls() if is_flag_store(c)]
        # (raising the flag may be a one-line private method of a flag newtype: it must store `true` on every path)
        raised_by_helper = set()

        def raises(hb, depth=2):
            """hb stores `true` into an atomic flag on every path: itself, or through another one-purpose private helper (`trigger.fire()`
            -> `flag.raise()`)"""
            if hb.crate != BG or hb.kind == "Closure":
                return False
            hs = [x for x in hb.calls() if is_flag_store(x)]
            if hs:
                return all(len(x.args) >= 2 and (op_const(x.args[1]) or {}).get("bool") is True for x in hs) and hb.must_pass([x.bb for x in hs])
            if depth > 0:
                inner = [x.bb for x in hb.calls() if any(raises(h2, depth - 1) for h2 in local_callee_bodies(F, x))]
                return bool(inner) and hb.must_pass(inner)
            return False
        for c in b.calls():
            for hb in local_callee_bodies(F, c):
                if raises(hb):
                    stores.append(c)
                    raised_by_helper.add(c.bb)
        joins = [c for c in b.calls() if c.is_in("std::thread", "JoinHandle::join")]
        key = fnkey(b)
        if not stores or not joins:
            ctx.bad("R05.1", key + "#store-then-join", loc(b), "destructor lacks the shutdown-flag store or the join (stores=%d joins=%d)" % (len(stores), len(joins)))
            continue
        dom = b.dominators()
        for j in joins:
            okst = [s for s in stores if dominates(b, s.bb, j.bb, dom) and s.bb != j.bb]
            true_store = [s for s in okst if s.bb in raised_by_helper or (len(s.args) >= 2 and (op_const(s.args[1]) or {}).get("bool") is True)]
            ctx.check(bool(true_store), "R05.1", key + "#store(true)-dominates-join", loc(b, j.bb),
                      "JoinHandle::join is not dominated by a store(true) to the shutdown flag: the writer would never be told to stop",
                      "store(true) bb%s dominates join bb%d" % ([s.bb for s in true_store], j.bb))
        # join exactly once after the store: every path from the store to Return passes a join
        for s in stores:
            ok = b.must_pass([j.bb for j in joins], start=s.target) if s.target is not None else False
            ctx.check(ok, "R05.1", key + "#join-on-every-path-after-store", loc(b, s.bb),
                      "a path from the shutdown-flag store reaches the end of the destructor without joining the thread")
        ok, why = at_most_once(b, [j.bb for j in joins])
        ctx.check(ok, "R05.1", key + "#join-at-most-once", loc(b), why)

    # ------------------------------------------------------------------ R05.2 / R05.4 thread entry
    entries = find_thread_entries(F, BG)
    ctx.floor("R05.2", "thread spawn sites in metrique-writer", len(entries), 1)
    run_bodies = []
    for cs, cb in entries:
        # the thread entry chain: closure -> workspace callee(s)
        chain = [cb]
        for c in cb.calls():
            for sb in local_callee_bodies(F, c):
                if sb.crate == BG:
                    chain.append(sb)
        # the body holding the writer loop = the one (in the chain) from which ArrayQueue::pop is reachable and that has a loop
        for b in chain:
            if b is cb and len(chain) > 1:
                continue
            if reaches_call(F, b, is_pop, depth=3):
                run_bodies.append(b)
    ctx.floor("R05.2", "writer-thread entry bodies (spawned, reach ArrayQueue::pop)", len(run_bodies), 1)
    for b in run_bodies:
        key = fnkey(b)
        rets = b.return_blocks()
        live = b.live_blocks()
        rets = [r for r in rets if r in live]
        # R05.4 exit reachable
        ctx.check(bool(rets), "R05.4", key + "#return-reachable", loc(b),
                  "the writer thread entry has no reachable Return: the thread can never terminate")
        # shutdown discipline
        own_ok, own_detail = shutdown_summary(F, b)
        if own_ok:
            ctx.ok("R05.2", key + "#drain<flush<drop(stream)", loc(b), own_detail)
        else:
            sd_sites = []
            details = []
            for c in b.calls():
                for sb in local_callee_bodies(F, c):
                    if sb.crate != BG or sb is b:
                        continue
                    ok, det = shutdown_summary(F, sb)
                    details.append("%s: %s" % (sb.name, det))
                    if ok:
                        sd_sites.append((c, sb, det))
            if not sd_sites:
                ctx.bad("R05.2", key + "#drain<flush<drop(stream)", loc(b),
                        "no routine on the exit path of the writer thread drains the queue, then flushes, then drops the stream "
                        "on every path [%s]" % "; ".join(d for d in details if "no drain" not in d or True)[:600])
            else:
                blocks = [c.bb for c, _, _ in sd_sites]
                ok = b.must_pass(blocks)
                ctx.check(ok, "R05.2", key + "#every-exit-passes-shutdown", loc(b),
                          "a normal path reaches Return of the writer thread without running the shutdown routine "
                          "(drain, flush, drop stream)",
                          "; ".join("%s: %s" % (sb.name, det) for _, sb, det in sd_sites))
                # nothing after the shutdown call touches the stream
                for c, sb, det in sd_sites:
                    after = b.reachable_after(c.bb)
                    late = [x for x in sites_reaching(F, b, lambda q: is_stream_next(q) or is_stream_flush(q)) if x.bb in after and x.bb != c.bb]
                    ctx.check(not late, "R05.2", key + "#nothing-after-shutdown", loc(b, c.bb),
                              "the stream is used after the shutdown routine ran" + (" (bb%d)" % late[0].bb if late else ""))
        # R05.4: exits via the shutdown flag and via the no-appenders test
        # (directly, or inside a private helper called from the loop: a predicate such as `should_shut_down()`)
        helper_only = lambda pred: [c for c in b.calls() if pred(c) or any(sb.crate == BG and any(pred(x) for x in sb.calls()) for sb in local_callee_bodies(F, c))]
        flag_loads = helper_only(lambda c: c.is_("core::sync::atomic::Atomic::<bool>::load"))
        uniq = helper_only(lambda c: c.is_("alloc::sync::Arc::<T, A>::get_mut", "alloc::sync::Arc::<T, A>::into_inner",
                                           "alloc::sync::Arc::<T, A>::try_unwrap", "alloc::sync::Arc::<T, A>::strong_count",
                                           "alloc::sync::Arc::<T, A>::is_unique"))
        for what, sites in (("shutdown-flag", flag_loads), ("no-appenders", uniq)):
            exits = 0
            for c in sites:
                # region after the test from which Return is reachable without coming back to the test
                reach = b.reachable_after(c.bb, avoid=[c.bb])
                if any(r in reach for r in rets):
                    exits += 1
            ctx.check(exits > 0, "R05.4", key + "#exit-via-" + what, loc(b),
                      "Return is not reachable from any %s test in the writer loop" % what,
                      "%d test site(s) lead to Return" % exits)

    # ------------------------------------------------------------------ R05.6 the shutdown drain stops only when empty or out of time
    from mq.prov import Prov as _Prov
    nd = 0
    for b in run_bodies:
        cands = [b] + [sb for c in b.calls() for sb in local_callee_bodies(F, c) if sb.crate == BG]
        for sroutine in cands:
            ok_s, _ = shutdown_summary(F, sroutine)
            if not ok_s:
                continue
            for c in sites_reaching(F, sroutine, is_pop):
                if c.bb in sroutine.reachable_after(c.bb):
                    continue        # the routine itself re-drains in a loop: its own loop condition decides
                for d in local_callee_bodies(F, c):
                    if d.crate != BG or not any(is_pop(x) for x in d.calls()):
                        continue
                    nd += 1
                    pr = _Prov(d)
                    stops = []
                    for p_ in [x for x in d.calls() if is_pop(x)]:
                        for sw, tg, oth in switch_on_call_result(d, p_):
                            stops.append(tg.get(0, oth))          # None arm
                    for i in d.live_blocks():
                        t = d.term(i)
                        if t["k"] != "switch":
                            continue
                        o = pr.operand(t["discr"])
                        cmps = [x[1] for x in o if x[0] == "call" and (d.term(x[1]).get("callee") or {}).get("name") in ("ge", "gt", "le", "lt")]
                        # a private bool helper that compares against the clock counts as the deadline test itself
                        clock_helpers = []
                        for x in o:
                            if x[0] == "call":
                                for hb in local_callee_bodies(F, CallSite(d, x[1], d.term(x[1]))):
                                    if hb.crate == BG and hb.locals[0]["ty"] == "bool" and any(y.name in ("ge", "gt", "le", "lt") for y in hb.calls()) and \
                                            any(y.name in ("now", "elapsed") for y in hb.calls()):
                                        clock_helpers.append(x[1])
                        # ... and so does a closure parameter that every caller binds to such a comparison (`drain_until(|| Instant::now() >= deadline)`)
                        is_clock_cmp = lambda hb: hb is not None and hb.locals[0]["ty"] == "bool" and any(y.name in ("ge", "gt", "le", "lt") for y in hb.calls()) and \
                            any(y.name in ("now", "elapsed") for y in hb.calls())
                        for x in o:
                            if x[0] != "call":
                                continue
                            t_ = d.term(x[1])
                            cn_ = (t_.get("callee") or {}).get("name")
                            if "callee_op" in t_ or (cn_ in ("call", "call_mut", "call_once") and "ops::function" in (t_.get("callee") or {}).get("def", "")):
                                src_ = pr.operand(t_["callee_op"]) if "callee_op" in t_ else (pr.operand(t_["args"][0]) if t_.get("args") else set())
                                qs = [y[1] for y in src_ if y[0] == "arg" and not y[2]]
                                ups = F.callers_of(d.path, crates=[BG])
                                if qs and ups and all(len(u.args) >= qs[0] and is_clock_cmp(closure_for_operand(F, u.body, u.args[qs[0] - 1])) for u in ups):
                                    clock_helpers.append(x[1])
                        for cb_ in cmps + clock_helpers:
                            ao = set()
                            for a in d.term(cb_)["args"]:
                                ao |= pr.operand(a)
                            if cb_ in clock_helpers or any(x[0] == "call" and (d.term(x[1]).get("callee") or {}).get("name") in ("now", "elapsed") for x in ao):
                                stops += [tb for v, tb in t["targets"]] + [t["otherwise"]]
                                stops.remove([tb for v, tb in t["targets"] if v == 0][0]) if any(v == 0 for v, _ in t["targets"]) else None
                    ctx.check(bool(stops) and d.must_pass(stops), "R05.6", fnkey(d) + "#drain-stops-only-when-empty-or-out-of-time", loc(d),
                              "the drain used at shutdown can stop although the ring is not empty and the deadline has not passed (an additional exit "
                              "condition): entries appended before the shutdown began would be discarded unwritten",
                              "every exit passes the ring-empty arm or the deadline arm")
    ctx.floor("R05.6", "drain routines used by the shutdown routine", nd, 1)

    # ------------------------------------------------------------------ R05.3 uniqueness test vs live clone
    n_tests = 0
    for b in F.all_bodies(WS_LIBS):
        tests = [c for c in b.calls() if c.is_("alloc::sync::Arc::<T, A>::get_mut", "alloc::sync::Arc::<T, A>::into_inner",
                                               "alloc::sync::Arc::<T, A>::try_unwrap")]
        if not tests:
            continue
        for t in tests:
            n_tests += 1
            tested = None
            if t.args:
                l = op_local(t.args[0])
                if l is not None:
                    tested = single_def_ref_target(b, l)
                    if tested is None:
                        # by-value test (into_inner / try_unwrap): the moved place
                        for kind, bb, idx, node in b.defs().get(l, []):
                            if kind == "assign" and node["rv"]["k"] == "use":
                                tested = op_place(node["rv"]["op"])
                        if tested is None:
                            tested = {"l": l}
            key = fnkey(b) + "#" + t.name + "-with-live-clone"
            if tested is None:
                ctx.ok("R05.3", key, loc(b, t.bb), "tested place not a plain place; nothing to compare")
                continue
            tk = pkey(tested)
            bad = None
            for c in b.calls():
                if not (c.is_trait_method("Clone", "clone") and "Arc<" in (c.self_ty or "")):
                    continue
                if not c.args or c.target is None:
                    continue
                rl = op_local(c.args[0])
                src = single_def_ref_target(b, rl) if rl is not None else None
                if src is None or pkey(src) != tk:
                    continue
                if c.dest.get("p"):
                    continue
                cl = c.dest["l"]
                # where does the clone die?  moved (whole) or dropped
                kills = set()
                for i in range(b.nblocks):
                    if b.is_cleanup(i):
                        continue
                    for s in b.stmts(i):
                        if s["k"] == "assign":
                            rv = s["rv"]
                            ops = [rv.get("op")] if rv["k"] in ("use", "cast") else rv.get("ops", []) if rv["k"] == "agg" else []
                            for o in ops:
                                if o and "move" in o and o["move"]["l"] == cl and not o["move"].get("p"):
                                    kills.add(i)
                    tt = b.term(i)
                    if tt["k"] == "drop" and tt["place"]["l"] == cl and not tt["place"].get("p"):
                        kills.add(i)
                    if tt["k"] == "call":
                        for a in tt["args"]:
                            if "move" in a and a["move"]["l"] == cl and not a["move"].get("p"):
                                kills.add(i)
                reach = b.reachable(c.target, avoid=kills)
                if t.bb in reach and c.target not in kills:
                    bad = (c, cl)
                    break
            if bad:
                c, cl = bad
                ctx.bad("R05.3", key, loc(b, t.bb),
                        "Arc uniqueness test `%s` on %s can never succeed: the same body holds a live clone of that Arc "
                        "(local _%d `%s`, cloned at %s) on a path to the test" % (
                            t.name, _place_desc(b, tested), cl, b.local_name(cl) or "", loc(b, c.bb)),
                        path=[c.bb, t.bb])
            else:
                ctx.ok("R05.3", key, loc(b, t.bb), "no live clone of %s at the test" % _place_desc(b, tested))
    ctx.floor("R05.3", "Arc uniqueness tests in library code", n_tests, 2)

    # ------------------------------------------------------------------ R05.5 attach handle
    import rules.c17 as c17
    c17.attach_handle_rules(ctx, F, rule="R05.5")
    # compile-fail witnesses (type-level part of the property), discharged by rustc's type checker
    from mq import witness as _w
    _w.report_cf(ctx, "W05", _w.run_witness(), "C05")
    return EXPL


def _place_desc(b, place):
    nm = b.local_name(place["l"]) or "_%d" % place["l"]
    fs = place_fields(place)
    return ".".join((nm,) + fs)

"""C01 — background queue hands every appended entry to the stream exactly once, in order (structural clauses)."""
from mq.util import *
from mq.prov import Prov
from mq.sim import pkey

EXPL = ("R01.1 each appended entry is moved (drop-flag aware linearity) into exactly one ring insertion on every path of the "
        "append chain; R01.2 each popped payload is moved into exactly one consumer, which calls EntryIoStream::next on it exactly "
        "once on every path; R01.3 no loop-exit condition of the drain loop derives from the stream's result, the consumer writes "
        "only integer counters and never re-inserts; R01.4 who-may-call: EntryIoStream::next/flush on the receiver's stream only "
        "from the consumer / the in-band error report (control-dependent on the Validation arm and the NoSubscriber test) / the "
        "receiver's flush; one spawn, receiver not Clone; R01.6 every explicit panic reachable from the writer thread's entry is "
        "decided by compile-time constants (a stream error or a configuration value cannot kill the thread); R01.5 boxed/blanket forwarding is linear. Not decided: cross-thread FIFO "
        "(ArrayQueue semantics, scheduler).")

BG = "metrique_writer"
BGMOD = "metrique_writer::sink::background::"      # today's home of the queue; in_bg() decides by role, so a split into sibling modules is fine


def bg_modules(F):
    """modules of metrique_writer that make up the background queue: those defining a type that holds the ring (ArrayQueue), a handle to
    such a type, or the flush-signal bookkeeping (a Vec of values owning a oneshot sender)"""
    c_ = getattr(F, "_bg_modules", None)
    if c_ is not None:
        return c_
    adts = [a for a in F.adts.values() if a["crate"] == BG]
    fam = set()
    sig = {a["def"] for a in adts if any("tokio::sync::oneshot::Sender" in f["ty"] for v in a["variants"] for f in v["fields"])}
    for a in adts:
        tys = [f["ty"] for v in a["variants"] for f in v["fields"]]
        if any("crossbeam_queue::array_queue::ArrayQueue" in t or "ArrayQueue<" in t for t in tys) or a["def"] in sig or \
                any(t.startswith("alloc::vec::Vec<") and any(s_ in t for s_ in sig) for t in tys):
            fam.add(a["def"])
    grew = True
    while grew:
        grew = False
        for a in adts:
            if a["def"] in fam:
                continue
            if any(any(f_ in f["ty"] for f_ in fam) for v in a["variants"] for f in v["fields"]):
                fam.add(a["def"])
                grew = True
    mods = {d.rsplit("::", 1)[0] + "::" for d in fam}
    F._bg_modules = mods
    return mods


def in_bg(F, b):
    p_ = b.path[1:] if b.path.startswith("<") else b.path
    return b.crate == BG and any(p_.startswith(m) for m in bg_modules(F))


def is_pop(cs):
    return cs.is_in("crossbeam_queue", "ArrayQueue::pop")


def is_insert(cs):
    return cs.is_in("crossbeam_queue", "ArrayQueue::force_push", "ArrayQueue::push")


def is_next(cs):
    return cs.is_trait_method("EntryIoStream", "next")


def is_flush(cs):
    return cs.is_trait_method("EntryIoStream", "flush")


def through_forwarders(F, sb, pi, depth=2):
    """a body whose only action is to hand its parameter `pi` on to one other function of the crate (`fn write_entry(&mut self, e) {
    self.consume(e) }`, typically the method of a private seam trait) stands for that function"""
    while depth > 0:
        calls = [c for c in sb.calls() if c.name not in ("deref", "deref_mut", "as_ref", "as_mut", "borrow", "borrow_mut")]
        if len(calls) != 1 or len(list(sb.live_blocks())) > 4:
            break
        c = calls[0]
        nxt = [tb for tb in local_callee_bodies(F, c) if tb.crate == BG and tb.def_ != sb.def_]
        spr = Prov(sb)
        pos = [ai for ai, a in enumerate(c.args) if {x for x in spr.operand(a) if x[0] != "via"} == {("arg", pi, ())}]
        if len(nxt) != 1 or len(pos) != 1:
            break
        sb, pi = nxt[0], pos[0] + 1
        depth -= 1
    return sb, pi


def append_chain(ctx, F, rule, body, local, depth=0, seen=None):
    """linear hand-over of `local` down to a ring insertion; returns list of (body, insertion callsite)"""
    seen = seen if seen is not None else set()
    if body.def_ in seen or depth > 4:
        return []
    seen.add(body.def_)
    inserts = []

    def allowed(cs, i):
        if cs is None:
            return False
        if is_insert(cs):
            inserts.append((body, cs, i))
            return True
        subs = [sb for sb in local_callee_bodies(F, cs) if sb.crate == BG]
        if subs:
            ok = False
            for sb in subs:
                r = append_chain(ctx, F, rule, sb, i + 1, depth + 1, seen)
                if r:
                    inserts.extend(r)
                    ok = True
            return ok
        return False
    check_linear(ctx, rule, body, local, allowed, what="entry")
    return inserts


def run(ctx):
    F = ctx.facts("dbg")
    # ---------------------------------------------------------------- R01.1 / R09.2 producer side
    appends = []
    for b in F.all_bodies(BG):
        if b.name == "append" and b.impl and (b.impl.get("trait") or "").endswith("::EntrySink") and (b.path.startswith("<") and in_bg(F, b)):
            appends.append(b)
    ctx.floor("R01.1", "EntrySink::append impls of the background queue", len(appends), 1)
    ins_all = []
    for b in appends:
        ins = append_chain(ctx, F, "R01.1", b, 2)
        ins_all += ins
        ctx.check(bool(ins), "R01.1", fnkey(b) + "#reaches-ring-insertion", loc(b),
                  "the appended entry does not reach a ring insertion", "insertion: %s" % sorted({c.name for _, c, _ in ins}))
    # ---------------------------------------------------------------- R01.2 consumer side
    drains = [b for b in F.all_bodies(BG) if in_bg(F, b) and any(is_pop(c) for c in b.calls())]
    ctx.floor("R01.2", "bodies popping from the ring", len(drains), 1)
    consumers = []
    for d in drains:
        for p in [c for c in d.calls() if is_pop(c)]:
            dl = p.dest["l"]
            # payload moves: X = move (dl as Some).0
            starts = []
            for i in d.live_blocks():
                for s in d.stmts(i):
                    if s["k"] == "assign" and s["rv"]["k"] == "use" and "move" in s["rv"]["op"]:
                        src = s["rv"]["op"]["move"]
                        if src["l"] == dl and [e[0] for e in src.get("p", [])] == ["dc", "f"] and not s["lhs"].get("p"):
                            starts.append(s["lhs"]["l"])
            key = fnkey(d) + "#popped-payload"
            if not starts:
                ctx.bad("R01.2", key + "-unused", loc(d, p.bb), "the popped entry is never taken out of the Option: it is dropped unwritten")
                continue
            # inlined consumer: the drain body itself hands the popped entry (by reference) to EntryIoStream::next
            pr_d = Prov(d)
            inline_next = [c for c in d.calls() if is_next(c) and len(c.args) >= 2 and any(x[0] in ("call", "callf") and x[1] == p.bb for x in pr_d.operand(c.args[1]))]
            if inline_next:
                some_t = None
                for sw_, tg_, oth_ in switch_on_call_result(d, p):
                    some_t = tg_.get(1)
                once = all(c.bb not in d.reachable_after(c.bb, avoid=[p.bb]) for c in inline_next) and len(inline_next) == 1
                every = some_t is not None and p.bb not in d.reachable(some_t, avoid=[c.bb for c in inline_next] + ([] if some_t not in [c.bb for c in inline_next] else []))
                if some_t in [c.bb for c in inline_next]:
                    every = True
                ctx.check(once and every, "R01.2", key + "-written-once-per-pop", loc(d, p.bb),
                          "a popped entry is not handed to EntryIoStream::next exactly once before the next pop (%s)" % ("an iteration can skip the write" if once else "written twice"),
                          "next at bb%s once per popped entry" % [c.bb for c in inline_next])
                consumers.append((d, ("pop", p.bb), d, None))
                continue
            for st in starts:
                def allowed(cs, i, d=d):
                    if cs is None:
                        return False
                    for sb in local_callee_bodies(F, cs):
                        if sb.crate == BG:
                            sb, pi = through_forwarders(F, sb, i + 1)
                            consumers.append((sb, pi, d, cs))
                            return True
                    return False
                check_linear(ctx, "R01.2", d, st, allowed, what="popped-entry")
        # R01.3: loop-exit conditions do not derive from the consumer / stream result
        pr = Prov(d)
        dom = d.dominators()
        pops = [c.bb for c in d.calls() if is_pop(c)]
        bad = None
        consumer_bbs = set()
        for c in d.calls():
            if any(sb.crate == BG and reaches_call(F, sb, is_next, depth=2) for sb in local_callee_bodies(F, c)) or is_next(c):
                consumer_bbs.add(c.bb)
        nsw = 0
        for i in d.live_blocks():
            t = d.term(i)
            if t["k"] != "switch":
                continue
            nsw += 1
            o = pr.operand(t["discr"])
            hit = [x[1] for x in o if x[0] in ("call", "callf") and x[1] in consumer_bbs]
            if hit and not _arms_rejoin(d, i, pops):
                bad = (i, hit[0])
        ctx.check(bad is None, "R01.3", fnkey(d) + "#drain-control-independent-of-stream-result", loc(d, bad[0] if bad else None),
                  "a branch of the drain loop depends on the result of writing an entry (bb%s): an error could stop, skip or repeat later entries" % (bad,),
                  "%d branches, none derives from the consumer's result" % nsw)
        ctx.check(not reaches_call(F, d, is_insert, depth=3), "R01.3", fnkey(d) + "#no-reinsertion", loc(d),
                  "the drain path can re-insert into the ring (entries could be repeated or reordered)")
    ctx.floor("R01.2", "consumer bodies receiving a popped entry", len(consumers), 1)
    # R01.3 (through state): what the consumer writes on an error arm (its counters) does not steer the drain loop either
    written = set()
    for sb, argl, d, cs in consumers:
        for i in sb.live_blocks():
            for s_ in sb.stmts(i):
                if s_["k"] == "assign" and s_["lhs"]["l"] == 1 and any(e[0] == "deref" for e in s_["lhs"].get("p", [])):
                    fe = [e for e in s_["lhs"]["p"] if e[0] == "f"]
                    if fe:
                        written.add(fe[0][2])
    for d in drains:
        prd = Prov(d)
        dep = None
        for i in d.live_blocks():
            t = d.term(i)
            if t["k"] == "switch":
                for x in prd.operand(t["discr"]):
                    if x[0] == "arg" and x[1] == 1 and x[2] and x[2][0] in written:
                        dep = (i, x[2][0])
        ctx.check(dep is None, "R01.3", fnkey(d) + "#drain-control-independent-of-error-counters", loc(d, dep[0] if dep else None),
                  "a branch of the drain loop reads `%s`, which the consumer updates when a write fails or succeeds: an error on one entry could stop or "
                  "skip later entries" % (dep[1] if dep else ""), "no branch reads a field the consumer writes (%s)" % sorted(written))
    seen = set()
    cons_bodies = []
    work_c = list(consumers)
    while work_c:
        sb, argl, d, cs = work_c.pop(0)
        if sb.def_ in seen:
            continue
        seen.add(sb.def_)
        cons_bodies.append(sb)
        nexts = [c for c in sb.calls() if is_next(c)]
        pr = Prov(sb)
        if isinstance(argl, tuple):      # inlined form: the entry is the payload of the pop at argl[1]; once-per-pop was checked above
            mine = [c for c in nexts if len(c.args) >= 2 and any(o[0] in ("call", "callf") and o[1] == argl[1] for o in pr.operand(c.args[1]))]
            ok, why = bool(mine), "no next call on the popped entry"
        else:
            mine = [c for c in nexts if len(c.args) >= 2 and any(o[0] == "arg" and o[1] == argl for o in pr.operand(c.args[1]))]
            ok, why = exactly_once(sb, [c.bb for c in mine])
            if not mine:
                # the consumer hands the entry on to another function of the module that writes it: every call of a function that
                # reaches EntryIoStream::next is a write of the entry - exactly one of them may run per popped entry (a `retry` that
                # calls the writer a second time hands the entry to the stream twice)
                writers = [c for c in sb.calls() if any(tb.crate == BG and tb.def_ != sb.def_ and reaches_call(F, tb, is_next, depth=2) for tb in local_callee_bodies(F, c))]
                if writers:
                    ok, why = exactly_once(sb, [c.bb for c in writers])
                    if not ok:
                        why = "the function that writes the entry can be called more than once for one popped entry, or not at all (%s)" % why
                    for c in writers:
                        pos = [ai for ai, a in enumerate(c.args) if any(o[0] == "arg" and o[1] == argl for o in pr.operand(a))]
                        for tb in local_callee_bodies(F, c):
                            if tb.crate == BG and pos:
                                work_c.append((tb, pos[0] + 1, d, c))
                    mine = writers
        key = fnkey(sb) + "#next-exactly-once"
        ctx.check(ok, "R01.2", key, loc(sb), "the popped entry is not handed to EntryIoStream::next exactly once on every path: " + why,
                  "next at bb%s on every path, never twice" % [c.bb for c in mine])
        other = [c for c in nexts if c not in mine]
        ctx.check(not other, "R01.4", fnkey(sb) + "#no-foreign-next", loc(sb), "consumer writes something other than the popped entry to the stream")
        # receiver = stream field of self
        for c in [c for c in mine if is_next(c)]:
            o = pr.operand(c.args[0])
            ctx.check(any(x[0] == "arg" and x[1] == 1 and x[2][:1] == ("stream",) for x in o) or any(x[0] == "arg" and x[1] == 1 for x in o),
                      "R01.2", fnkey(sb) + "#next-on-own-stream", loc(sb, c.bb), "next is not called on the receiver's own stream")
        # R01.3 consumer state writes: only integer counters
        badw = []
        for i in sb.live_blocks():
            for s in sb.stmts(i):
                if s["k"] == "assign" and s["lhs"]["l"] == 1 and any(e[0] == "deref" for e in s["lhs"].get("p", [])):
                    fe = [e for e in s["lhs"]["p"] if e[0] == "f"]
                    if fe and fe[-1][4] not in ("u64", "usize", "u32", "u128"):
                        badw.append((i, fe[-1][2], fe[-1][4]))
        ctx.check(not badw, "R01.3", fnkey(sb) + "#error-arms-write-only-counters", loc(sb),
                  "consumer writes non-counter receiver state %s: an error could disable or alter handling of later entries" % badw)
        ctx.check(not reaches_call(F, sb, is_insert, depth=3), "R01.3", fnkey(sb) + "#no-reinsertion", loc(sb), "consumer can re-insert into the ring")
        # in-band error report: control dependent on the Validation arm
        rep = sites_reaching(F, sb, lambda c: c.name == "report_error" and c.is_trait_method("EntryIoStreamExt"), depth=3)
        if not nexts:
            rep = []        # a consumer that only hands the entry on: the report is judged in the function that sees the stream's answer
        for r in rep:
            arm = None
            for i in sb.live_blocks():
                t = sb.term(i)
                if t["k"] != "switch":
                    continue
                for s in sb.stmts(i):
                    if s["k"] == "assign" and s["rv"]["k"] == "discr" and s["rv"].get("adt", "").endswith("IoStreamError"):
                        vmap = dict((n, dv) for dv, n in s["rv"]["variants"])
                        for v, tb in t["targets"]:
                            if v == vmap.get("Validation"):
                                arm = tb
            dom = sb.dominators()
            ctx.check(arm is not None and dominates(sb, arm, r.bb, dom), "R01.4", fnkey(sb) + "#report-only-on-validation-error", loc(sb, r.bb),
                      "the in-band error report is not confined to the Err(Validation) arm", "dominated by Validation arm bb%s" % arm)
    # report_error sites in the module: guarded by the NoSubscriber test
    nrep = 0
    for b in F.all_bodies(BG):
        if not in_bg(F, b):
            continue
        for c in b.calls():
            if c.name == "report_error" and c.is_trait_method("EntryIoStreamExt"):
                nrep += 1
                tests = [x for x in b.calls() if x.is_in("tracing_core", "Dispatch::is") and any("NoSubscriber" in a for a in x.callee.get("args", []))]
                dom = b.dominators()
                okd = False
                for tcs in tests:
                    # the true branch of the test dominates the report
                    for i in b.live_blocks():
                        t = b.term(i)
                        if t["k"] == "switch" and op_local(t["discr"]) == tcs.dest["l"]:
                            tt = t["otherwise"] if t["targets"] and t["targets"][0][0] == 0 else None
                            if tt is not None and dominates(b, tt, c.bb, dom):
                                okd = True
                ctx.check(okd, "R01.4", fnkey(b) + "#report-only-without-subscriber", loc(b, c.bb),
                          "in-band error report not confined to the `no tracing subscriber` branch")
                callers = F.callers_of(b.path, crates=[BG])
                ctx.check(all(x.body in cons_bodies or x.body.kind == "Closure" and x.body.parent in [cb.def_ for cb in cons_bodies] for x in callers) and callers,
                          "R01.4", fnkey(b) + "#reporter-called-only-from-consumer", loc(b),
                          "the error reporter is called from outside the consumer: %s" % [x.body.path for x in callers])
    ctx.floor("R01.4", "in-band report_error sites", nrep, 1)
    # who may call next/flush in the module
    for b in F.all_bodies(BG):
        if not in_bg(F, b):
            continue
        for c in b.calls():
            if is_next(c):
                ctx.check(b in cons_bodies, "R01.4", fnkey(b) + "#next-only-in-consumer", loc(b, c.bb),
                          "EntryIoStream::next is called outside the consumer of popped entries")
            if is_flush(c):
                st = (b.impl or {}).get("self_ty", "")
                ctx.check("Receiver" in st or any(sb is b for sb in cons_bodies) or _same_impl(b, cons_bodies), "R01.4", fnkey(b) + "#flush-only-in-receiver", loc(b, c.bb),
                          "EntryIoStream::flush on the queue's stream is called outside the receiver")
    # one spawn; receiver type not Clone
    spawns = [c for b in F.all_bodies(BG) if in_bg(F, b) for c in b.calls() if c.is_in("std::thread", "spawn", "spawn_scoped")]
    ctx.check(len(spawns) == 1, "R01.4", BGMOD + "#single-writer-thread", "", "expected exactly one thread spawn in the background module, found %d" % len(spawns))
    for sb in cons_bodies:
        adt = ((sb.impl or {}).get("self_head") or {}).get("adt")
        if adt:
            cl = F.impls_of("core::clone::Clone", adt.rsplit("::", 1)[-1])
            ctx.check(not cl, "R01.4", adt + "#receiver-not-Clone", "", "the receiver type implements Clone (two consumers could pop from the ring)")
    # ---------------------------------------------------------------- R01.6 an entry's error cannot kill the writer thread
    # every explicit panic reachable from the writer thread's entry is decided by compile-time constants (e.g. the rate limiter's
    # `assert!(interval >= 1s)` with a literal interval); one whose condition reads configuration or the error would turn a stream
    # error into a dead writer: later entries are accepted by append() and never written
    from rules.c05 import find_thread_entries
    from rules.c12 import controlling_switches as _ctl
    reach_, work_ = {}, [(cb_, 0) for cs_, cb_ in find_thread_entries(F, BG) if in_bg(F, cb_) or True]
    while work_:
        b_, dep_ = work_.pop()
        if b_.def_ in reach_ or dep_ > 5:
            continue
        reach_[b_.def_] = b_
        for c in b_.calls():
            for sb in local_callee_bodies(F, c) + closure_args(F, c):
                if sb.crate == BG:
                    work_.append((sb, dep_ + 1))
    bg_reach = [b_ for b_ in reach_.values() if in_bg(F, b_)]
    ctx.floor("R01.6", "bodies reachable from the writer thread's entry", len(bg_reach), 8)

    def const_only(b_, op, depth=4, seen=None):
        seen = seen if seen is not None else set()
        for x in Prov(b_).operand(op):
            if x[0] == "const" or x[0] == "via" or x[0] == "op":
                continue
            if x[0] in ("call", "callf") and depth > 0 and (b_.def_, x[1]) not in seen:
                seen.add((b_.def_, x[1]))
                t = b_.term(x[1])
                if all(const_only(b_, a, depth - 1, seen) for a in t.get("args", [])):
                    continue
            if x[0] == "agg":
                continue
            return False
        return True
    npan = 0
    for b_ in bg_reach:
        for c in b_.calls():
            if not (c.is_in("core::panicking", "panic_fmt", "panic", "panic_display", "panic_str", "unreachable_display") or
                    (c.name in ("unwrap", "expect") and ("Option" in c.def_ or "Result" in c.def_))):
                continue
            npan += 1
            if c.name in ("unwrap", "expect"):
                okp = const_only(b_, c.args[0]) if c.args else False
                why = "unwraps a runtime value"
            else:
                # the switch that decides the panic: one of its sides can only end in the panic (no Return reachable from it); the
                # branches that merely select the arm the assertion lives in are not what makes it fire
                rets_ = set(b_.return_blocks())
                ctl = [(i, t) for i, t, yes, no in _ctl(b_, c.bb) if any(c.bb in b_.reachable(s_) and not (b_.reachable(s_) & rets_) for s_ in b_.succ(i))]
                okp = bool(ctl) and all(const_only(b_, t["discr"]) for i, t in ctl)
                why = "its condition depends on runtime state (configuration, the error, counters)"
            ctx.check(okp, "R01.6", fnkey(b_) + "#panic-decided-at-compile-time@%d" % npan, loc(b_, c.bb),
                      "a panic reachable on the writer thread is not decided by constants (%s): when it fires the thread dies, append() keeps "
                      "accepting entries and none of them is ever handed to the stream" % why,
                      "condition built from literals only")
    ctx.floor("R01.6", "explicit panic sites on the writer thread", npan, 1)
    # ---------------------------------------------------------------- R01.5 boxed / blanket forwarding
    core = "metrique_writer_core"
    fw = []
    for b in F.all_bodies(core):
        if b.impl and b.path.startswith("<") and "metrique_writer_core::sink::" in b.path:
            tr = (b.impl.get("trait") or "")
            if (b.name == "append" and tr.endswith("::EntrySink")) or (b.name == "append_any" and tr.endswith("::AnyEntrySink")):
                fw.append(b)
    ctx.floor("R01.5", "boxed/blanket append forwarders", len(fw), 2)
    for b in fw:
        check_linear(ctx, "R01.5", b, 2,
                     lambda cs, i: cs is not None and (cs.is_trait_method("EntrySink", "append") or cs.is_trait_method("AnyEntrySink", "append_any")),
                     what="entry", carriers=lambda cs: cs.name in ("boxed", "new", "into", "from") and ("Entry" in cs.def_ or "Box" in cs.def_ or "convert" in cs.def_))
    return EXPL


def _arms_rejoin(d, sw, pops):
    """the arms of switch `sw` (e.g. a match on the write result that only does accounting) meet again in a common block before any
    of them can pop the next entry or return: what happens to later entries cannot depend on which arm was taken"""
    succs = d.succ(sw)
    stops = set(pops) | set(d.return_blocks())
    # candidate join blocks: reachable from every arm without passing a stop
    reach = [d.reachable(s_, avoid=stops) for s_ in succs if (d.reachable(s_) & (stops))]   # arms that end in a panic are ignored
    if len(reach) < 2:
        return True
    common = set.intersection(*reach) - stops
    for j in common:
        # j is a join if every arm must pass it before reaching a stop
        if all(not (d.reachable(s_, avoid=[j]) & stops) or s_ == j for s_ in succs if (d.reachable(s_) & stops)):
            return True
    return False


def _same_impl(b, others):
    mi = (b.impl or {}).get("impl")
    return mi is not None and any((o.impl or {}).get("impl") == mi for o in others)

"""C11 — histograms: count-conservation skeleton and sibling agreement (numeric bounds are not decided)."""
from mq.util import *
from mq.prov import Prov
from mq.facts import CallSite
from rules.c12 import controlling_switches, discr_def

EXPL = ("R11.1 count flow: in each of the three observation-capture bodies every Observation arm records exactly once per observation "
        "with its own occurrence count (literal 1 through `record` for scalars, the observation's `occurrences` for Repeated, guarded "
        "only by occurrences > 0); in each drain the emitted occurrences derive solely from Bucket::count() and the filter is count > 0. "
        "R11.2 sibling agreement on a deliberately coarse abstraction: the three capture copies have equal arm tables; the atomic and "
        "non-atomic exponential strategies apply the same scaling, pass the count parameter, filter on count > 0, rebuild Repeated{"
        "scale_down(midpoint)*count, count} and use the same bucket configuration. Pure arithmetic adapters (min/max/casts) are "
        "ignored. R11.5 methods of the strategies shared between threads never write an atomic with a plain store (read-modify-write only); R11.4 an exponential drain visits every bucket of its snapshot (no take_while/take/skip/step_by on the bucket iteration, directly or "
        "in a helper); R11.3 the sort-and-merge drain groups observations on exact equality only (no tolerance arithmetic feeds the merge decision). "
        "R11.3 #sorts-on-every-path: that drain sorts its buffer on every path to the run merging; the only skip accepted is one decided by the buffer's own length. "
        "Not decided: the 6.25% / 1/1024 error bounds, totals (numeric).")
AG = "metrique_aggregation"


def arm_table(F, b):
    """variant -> (recording callee, count origin class, guard class) for the Observation match of a capture body"""
    pr = Prov(b)
    table = {}
    sw = None
    for i in b.live_blocks():
        t = b.term(i)
        if t["k"] == "switch":
            for s in b.stmts(i):
                if s["k"] == "assign" and s["rv"]["k"] == "discr" and s["rv"].get("adt", "").endswith("value::Observation"):
                    if sw is None or len(t["targets"]) > len(sw[1]["targets"]):
                        sw = (i, t, {n: d for d, n in s["rv"]["variants"]}, s["rv"]["place"]["l"])
    if sw is None:
        return None
    i, t, vm, obs_l = sw
    tg = {v: tb for v, tb in t["targets"]}
    recs = [c for c in b.calls() if c.name in ("record", "record_many") and "AggregationStrategy" in (c.trait or "")]
    for name, d in vm.items():
        tb = tg.get(d)
        if tb is None:
            table[name] = ("(fallthrough)",)
            continue
        others = [x for v, x in tg.items() if x != tb] + [t["otherwise"]]
        region = b.reachable(tb, avoid=[i])
        # (a record call that several arms share - hoisted below the match - is each of those arms' record call)
        mine = [c for c in recs if c.bb in region]
        ent = []
        for c in mine:
            cnt = "1(record)"
            if c.name == "record_many":
                o = pr.operand(c.args[2])
                if any(x[0] in ("arg", "callf") and x[-1] and "occurrences" in x[-1] for x in o) or any(x[0] == "callf" and "occurrences" in x[2] for x in o) or _from_field(b, c.args[2], obs_l, "occurrences"):
                    cnt = "occurrences"
                elif any(x[0] == "const" for x in o):
                    cnt = "const:%s" % sorted(x[1] for x in o if x[0] == "const")
                else:
                    cnt = "other:%s" % sorted(map(str, o))[:2]
            guards = []
            for gi, gt, yes, no in controlling_switches(b, c.bb):
                if gi == i or c.bb not in region:
                    continue
                if gi not in region or not dominates(b, tb, gi):
                    continue
                rv = discr_def(b, gi, gt)
                if rv and rv.get("k") == "binop" and rv["op"] in ("Gt", "Ne", "Lt", "Ge", "Eq", "Le"):
                    k = [op_const(rv["a"]), op_const(rv["b"])]
                    zero = any((x or {}).get("int") == 0 for x in k)
                    occ_a = _from_field(b, rv["a"], obs_l, "occurrences")
                    occ_b = _from_field(b, rv["b"], obs_l, "occurrences")
                    g_ = "%s-vs-%s" % ("occurrences" if (occ_a or occ_b) else "?", "0" if zero else "?")
                    # which outcome means `occurrences != 0`, and is the recording call on that side? (`if occ > 0 { record }` and
                    # `if occ == 0 { continue } record` are the same guard)
                    if zero and (occ_a or occ_b) and gt.get("ty") == "bool":
                        zero_b = (k[1] or {}).get("int") == 0
                        nz_true = rv["op"] in (("Gt", "Ne") if zero_b else ("Lt", "Ne"))
                        nz_false = rv["op"] in (("Eq", "Le") if zero_b else ("Eq", "Ge"))
                        site_on_true = gt["otherwise"] in yes
                        if not ((nz_true and site_on_true) or (nz_false and not site_on_true)):
                            g_ = "occurrences-vs-0(records on the zero side)"
                    guards.append(g_)
                else:
                    guards.append("other")
            once = c.bb not in b.reachable_after(c.bb, avoid=[i])
            ent.append((c.name, cnt, tuple(sorted(guards)), "once" if once else "repeated"))
        table[name] = tuple(sorted(ent))
    return table


def _from_field(b, op, obs_l, field):
    """operand derives from field `field` of the matched observation local"""
    seen = set()
    work = [op]
    while work:
        o = work.pop()
        p = op_place(o)
        if p is None:
            continue
        if p["l"] == obs_l and any(e[0] == "f" and e[2] == field for e in p.get("p", [])):
            return True
        l = p["l"]
        if l in seen:
            continue
        seen.add(l)
        for kind, bb, idx, node in b.defs().get(l, []):
            if kind == "assign" and node["k"] == "assign":
                rv = node["rv"]
                if rv["k"] in ("use", "cast"):
                    work.append(rv["op"])
                elif rv["k"] == "ref":
                    work.append({"copy": rv["place"]})      # `let n = &obs.occurrences; *n > 0`
    return False


def yield_decoders(F):
    """closures in the histogram module that match on Observation and return Option<(value, count)>; with the iterator adapter that
    drives them and the loops consuming the resulting iterator"""
    out = []
    for cb in F.all_bodies(AG):
        # (a closure, or a named private function handed to the adapter as a function item: `.filter_map(weighted)`)
        if "histogram" not in cb.path or "::tests::" in cb.path:
            continue
        sw = None
        for i in cb.live_blocks():
            t = cb.term(i)
            if t["k"] == "switch":
                for s in cb.stmts(i):
                    if s["k"] == "assign" and s["rv"]["k"] == "discr" and s["rv"].get("adt", "").endswith("value::Observation"):
                        sw = (i, t, {n: d for d, n in s["rv"]["variants"]}, s["rv"]["place"]["l"])
        if sw is None or not cb.locals[0]["ty"].startswith("core::option::Option<("):
            continue
        i, t, vm, obs_l = sw
        tg = {v: tb for v, tb in t["targets"]}
        pr = Prov(cb)
        table = {}
        for name, dv in vm.items():
            tb = tg.get(dv)
            if tb is None:
                table[name] = ("skip",)
                continue
            others = {x for v, x in tg.items() if x != tb} | {t["otherwise"]}
            region = cb.reachable(tb, avoid=[i])
            somes = []
            for j in region:
                for s in cb.stmts(j):
                    if s["k"] == "assign" and s["lhs"]["l"] == 0 and s["rv"]["k"] == "agg" and s["rv"].get("variant") == "Some" and \
                            not any(j in cb.reachable(o, avoid=[i]) for o in others):
                        somes.append((j, s))
            if not somes:
                table[name] = ("skip",)
                continue
            j, s = somes[0]
            tup = None
            l = op_local(s["rv"]["ops"][0])
            for kind, bb_, idx, node in cb.defs().get(l, []):
                if kind == "assign" and node["rv"]["k"] == "agg" and node["rv"].get("agg") == "tuple" and len(node["rv"]["ops"]) == 2:
                    tup = node["rv"]["ops"]
            cnt = "?"
            if tup is not None:
                k = op_const(tup[1])
                if k is not None and k.get("int") == 1:
                    cnt = "1"
                elif _from_field(cb, tup[1], obs_l, "occurrences"):
                    cnt = "occurrences"
            guards = []
            for gi, gt, yes, no in controlling_switches(cb, j):
                if gi == i or gi not in region:
                    continue
                rv = discr_def(cb, gi, gt)
                if rv and rv.get("k") == "binop" and rv["op"] in ("Gt", "Ne", "Lt", "Ge"):
                    kk = [op_const(rv["a"]), op_const(rv["b"])]
                    zero = any((x or {}).get("int") == 0 for x in kk)
                    guards.append("%s-vs-%s" % ("occurrences" if (_from_field(cb, rv["a"], obs_l, "occurrences") or _from_field(cb, rv["b"], obs_l, "occurrences")) else "?", "0" if zero else "?"))
                else:
                    guards.append("other")
            table[name] = ("yield", cnt, tuple(sorted(guards)))
        # the adapter that drives the closure, and the function that returns the iterator
        uses = [(c.name, pb, c) for pb in F.all_bodies(AG) for c in pb.calls() if cb in closure_args(F, c) or cb in fn_item_args(F, c)]
        adapters = sorted({n for n, _, _ in uses})
        adapter = adapters[0] if len(adapters) == 1 else ("?" if not adapters else "/".join(adapters))
        owner = uses[0][1] if uses else None
        consumers = []
        for _n, owner_, adapter_cs in uses:
            # the loop over the decoded pairs: in the callers of the function that returns the iterator, or right in the body that built it
            returns_it = any(x[0] in ("call", "via") and x[1] == adapter_cs.bb for x in Prov(owner_).local(0))
            sites_ = (list(F.callers_of(owner_.path, crates=[AG])) if returns_it else []) + [adapter_cs]
            for cs in sites_:
                b = cs.body
                if "::tests::" in b.path:
                    continue
                pr2 = Prov(b)
                nxt = [c for c in b.calls() if c.is_trait_method("Iterator", "next") and c.bb in b.reachable_after(c.bb) and
                       any(x[0] in ("call", "via") and x[1] == cs.bb for x in pr2.operand(c.args[0]))]
                recs = [c for c in b.calls() if c.name == "record_many" and "AggregationStrategy" in (c.trait or "")]
                ok, why = False, "no loop over the decoder's iterator with a record_many call"
                for n in nxt:
                    some_t = None
                    for sw_, tg_, oth_ in switch_on_call_result(b, n):
                        some_t = tg_.get(1)
                    mine = [r for r in recs if some_t is not None and r.bb in b.reachable(some_t, avoid=[n.bb])]
                    if len(mine) == 1:
                        r = mine[0]
                        from_item = lambda a: any(x[0] in ("call", "callf") and x[1] == n.bb for x in pr2.operand(a))
                        every = some_t == r.bb or n.bb not in b.reachable(some_t, avoid=[r.bb])
                        ok = from_item(r.args[1]) and from_item(r.args[2]) and every
                        why = "" if ok else ("value/count do not both come from the decoded pair" if every else "an iteration can skip record_many")
                if cs is adapter_cs and not nxt:
                    continue        # the adapter's result leaves this body: its consumers are the callers
                consumers.append({"body": b, "bb": cs.bb, "ok": ok, "why": why})
        out.append({"closure": cb, "table": table, "adapter": adapter, "owner": owner, "consumers": consumers})
    return out


def keeps_nonempty(units, top, is_emit):
    """how a drain selects the buckets it reports, over its bodies `units` (the drain `top`, its closures, helpers): 'keep-iff-count>0' when a
    filter closure returns count() > 0 / != 0, or when the emission (statements satisfying is_emit) sits only on the count() > 0 side of a
    branch in front of it; otherwise a description of what was found (None: no test of the count at all)"""
    res = None
    for cb in units:
        pr = Prov(cb)
        emit_blocks = [i for i in cb.live_blocks() for s_ in cb.stmts(i) if is_emit(s_)]
        for i in cb.live_blocks():
            for s_ in cb.stmts(i):
                if not (s_["k"] == "assign" and s_["rv"]["k"] == "binop" and s_["rv"]["op"] in ("Gt", "Ne", "Eq", "Lt", "Le", "Ge")):
                    continue
                ao, bo = pr.operand(s_["rv"]["a"]), pr.operand(s_["rv"]["b"])
                ka, kb = op_const(s_["rv"]["a"]) or {}, op_const(s_["rv"]["b"]) or {}
                is_count = lambda o: any(x[0] == "call" and cb.term(x[1])["callee"]["name"] == "count" for x in o)
                op = s_["rv"]["op"]
                cls_ = None     # 'positive' (true iff count > 0) or 'zero' (true iff count == 0)
                if is_count(ao) and kb.get("int") == 0:
                    cls_ = {"Gt": "positive", "Ne": "positive", "Eq": "zero", "Le": "zero"}.get(op)
                elif is_count(bo) and ka.get("int") == 0:
                    cls_ = {"Lt": "positive", "Ne": "positive", "Eq": "zero", "Ge": "zero"}.get(op)
                elif is_count(ao) and kb.get("int") == 1:
                    cls_ = {"Ge": "positive", "Lt": "zero"}.get(op)
                if cls_ is None:
                    continue
                if s_["lhs"]["l"] == 0 and cb.locals[0]["ty"] == "bool" and cb is not top:
                    res = "keep-iff-count>0" if cls_ == "positive" else "keep-iff-count==0"
                else:
                    t = cb.term(i)
                    if t["k"] == "switch" and emit_blocks:
                        tg = {v: tb for v, tb in t["targets"]}
                        t_false, t_true = tg.get(0), t["otherwise"]
                        pos_t, zero_t = (t_true, t_false) if cls_ == "positive" else (t_false, t_true)
                        on_pos = all(ab in cb.reachable(pos_t, avoid=[i]) for ab in emit_blocks)
                        on_zero = any(ab in cb.reachable(zero_t, avoid=[i]) for ab in emit_blocks) if zero_t is not None else True
                        res = "keep-iff-count>0" if on_pos and not on_zero else "emission-not-guarded-by-count>0"
    return res


def helper_roles(F):
    """private helpers of the histogram module by role: the scaling pair (f64 result computed as x * K / x / K with a constant K)
    and the function that returns the shared bucket configuration"""
    down, up, cfg = set(), set(), set()
    for b in F.all_bodies(AG):
        if "histogram" not in b.path or "::tests::" in b.path or b.kind != "Fn":
            continue
        out = b.d.get("output") or ""
        if out == "f64":
            ops = {s["rv"]["op"] for i in b.live_blocks() for s in b.stmts(i) if s["k"] == "assign" and s["rv"]["k"] == "binop"}
            if ops == {"Div"}:
                down.add(b.name)
            elif ops == {"Mul"}:
                up.add(b.name)
        if out.startswith("histogram::") and out.endswith("Config"):
            cfg.add(b.name)
    return down, up, cfg


def run(ctx):
    F = ctx.facts("dbg")
    SCALE_DOWN, SCALE_UP, CONFIG_FN = helper_roles(F)
    ctx.floor("R11.2", "scaling helpers and shared bucket configuration (by role)", len(SCALE_DOWN) + len(SCALE_UP) + len(CONFIG_FN), 3)
    caps = [b for b in F.all_bodies(AG) if "histogram" in b.path and "::tests::" not in b.path and
            any(c.name == "record_many" and "AggregationStrategy" in (c.trait or "") for c in b.calls()) and
            any(c.name == "record" for c in b.calls())]
    # the same decoding written once as an iterator of (value, occurrences) pairs: a closure matching on Observation that yields
    # Some((value, count)) / None, consumed by loops that call record_many(value, count)
    ydec = yield_decoders(F)
    consumers = []
    for d in ydec:
        for cs in d["consumers"]:
            consumers.append((d, cs))
    ctx.floor("R11.1", "observation-capture sites (decoding bodies + consumers of a shared decoder)", len(caps) + len(consumers), 1)
    # every place that feeds a strategy is one of the examined forms (so that de-duplicating the capture copies, or adding one, cannot
    # leave a feeding site unjudged): a capture body, a consumer of the shared decoder, or the trait's own `record` = `record_many(v, 1)`
    examined = {b.def_ for b in caps} | {cs["body"].def_ for d, cs in consumers}
    nfeed = 0
    for b in F.all_bodies(AG):
        if "::tests::" in b.path:
            continue
        feeds = [c for c in b.calls() if c.name in ("record", "record_many") and "AggregationStrategy" in (c.trait or "")]
        if not feeds:
            continue
        nfeed += 1
        if b.def_ in examined:
            continue
        is_default = b.name == "record" and not b.path.startswith("<") and "AggregationStrategy" in b.path
        is_impl = bool(b.impl) and "AggregationStrategy" in (b.impl.get("trait") or "")
        if is_default or is_impl:
            pr_ = Prov(b)
            for c in feeds:
                if c.name != "record_many":
                    continue
                vo, co = pr_.operand(c.args[1]), (op_const(c.args[2]) or {})
                if b.name == "record_many" and b.arg_count >= 3:
                    # a forwarding implementation (a view over another strategy): value and count are passed on as they came
                    cnt_o = pr_.operand(c.args[2])
                    ctx.check(any(x[0] == "arg" and x[1] == 2 for x in vo) and {x for x in cnt_o if x[0] != "via"} == {("arg", 3, ())} and exactly_once(b, [c.bb])[0],
                              "R11.1", fnkey(b) + "#record_many-forwarded-unchanged", loc(b, c.bb),
                              "a strategy that forwards record_many to another one does not pass (value, count) on unchanged, exactly once")
                    continue
                ctx.check(any(x[0] == "arg" and x[1] == 2 for x in vo) and co.get("int") == 1, "R11.1", fnkey(b) + "#record-is-record_many(value, 1)", loc(b, c.bb),
                          "`record(value)` does not forward to `record_many(value, 1)`: a scalar observation would be counted %s times" % co.get("int", "a computed number of"),
                          "record(v) = record_many(v, 1)")
            continue
        ctx.bad("R11.1", fnkey(b) + "#feeding-site-of-unknown-form", loc(b, feeds[0].bb),
                "this body feeds an aggregation strategy (%s) but is neither an observation-capture body (a match on the Observation variants recording "
                "each arm) nor a consumer of the shared decoder: its count handling is not judged" % sorted({c.name for c in feeds}))
    ctx.floor("R11.1", "bodies feeding an aggregation strategy", nfeed, 2)
    tables = {}
    want = {
        "Unsigned": (("record", "1(record)", (), "once"),),
        "Floating": (("record", "1(record)", (), "once"),),
        "Repeated": (("record_many", "occurrences", ("occurrences-vs-0",), "once"),),
    }
    for b in caps:
        t = arm_table(F, b)
        key = fnkey(b)
        if t is None:
            ctx.bad("R11.1", key + "#observation-match", loc(b), "capture body no longer matches on the Observation variants")
            continue
        tables[b.path] = t
        for v, w in want.items():
            ctx.check(t.get(v) == w, "R11.1", key + "#arm-" + v, loc(b),
                      "the %s arm records %s, expected %s: observation counts would not be conserved" % (v, t.get(v), w), str(w))
        # an observation that records nothing is skipped, it does not end the replay: from inside the loop over the observations the
        # function is left only through the loop's own exit (the iterator is exhausted), never by a `return` / `break` in an arm
        heads = [c for c in b.calls() if c.is_trait_method("Iterator", "next") and c.bb in b.reachable_after(c.bb)]
        sws = [i for i in b.live_blocks() if b.term(i)["k"] == "switch" and any(
            s_["k"] == "assign" and s_["rv"]["k"] == "discr" and s_["rv"].get("adt", "").endswith("value::Observation") for s_ in b.stmts(i))]
        for h in heads:
            inloop = [i for i in sws if i in b.reachable_after(h.bb) and h.bb in b.reachable(i)]
            if not inloop:
                continue
            escapes = [r for i in inloop for r in b.return_blocks() if r in b.reachable(i, avoid=[h.bb])]
            ctx.check(not escapes, "R11.1", key + "#unusable-observation-is-skipped-not-terminal", loc(b, inloop[0]),
                      "an arm of the per-observation match can leave the function (return / break) instead of going on with the next observation: "
                      "every later observation of the same written value is dropped, so the counts are not conserved",
                      "every arm goes back to the loop head")
    for d in ydec:
        cb = d["closure"]
        key = fnkey(cb)
        wanty = {"Unsigned": ("yield", "1", ()), "Floating": ("yield", "1", ()), "Repeated": ("yield", "occurrences", ("occurrences-vs-0",))}
        for v, w in wanty.items():
            ctx.check(d["table"].get(v) == w, "R11.1", key + "#arm-" + v, loc(cb),
                      "the %s arm of the shared decoder yields %s, expected %s: observation counts would not be conserved" % (v, d["table"].get(v), w), str(w))
        ctx.check(d["adapter"] in ("filter_map", "flat_map"), "R11.1", key + "#unusable-observation-is-skipped-not-terminal", loc(cb),
                  "the shared decoder is driven by `%s`: an observation that yields nothing (e.g. Repeated with zero occurrences) ends the whole "
                  "iteration, so every later observation of the same value is dropped (filter_map skips just that one)" % d["adapter"],
                  "decoder driven by %s" % d["adapter"])
        for cs in d["consumers"]:
            ctx.check(cs["ok"], "R11.1", fnkey(cs["body"]) + "#records-each-decoded-pair", loc(cs["body"], cs["bb"]),
                      "the loop over the decoded (value, occurrences) pairs does not hand both to record_many once per pair: %s" % cs["why"],
                      "record_many(value, occurrences) once per decoded pair")
        # for sibling comparison the yield form normalises to the direct form
        tables[cb.path] = {"Unsigned": want["Unsigned"], "Floating": want["Floating"], "Repeated": want["Repeated"]} if all(
            d["table"].get(v) == w for v, w in wanty.items()) else d["table"]
    # sibling agreement of the capture copies
    if len(tables) >= 2:
        vals = list(tables.items())
        ref = vals[0]
        for p, t in vals[1:]:
            ctx.check(t == ref[1], "R11.2", "capture-copies#%s~%s" % (ref[0].split("::")[2][:40], p.split("::")[2][:40]), "",
                      "observation-capture copies disagree: %s vs %s" % (ref[1], t), "arm tables equal")
    # ------------------------------------------------------------------ drains
    drains = [b for b in F.all_bodies(AG) if b.name == "drain" and b.impl and "AggregationStrategy" in (b.impl.get("trait") or "") and "Exponential" in b.path]
    ctx.floor("R11.1", "exponential drain implementations", len(drains), 2)
    dsum = {}
    for b in drains:
        key = fnkey(b)
        # iterator-adapter form (filter/map closures), plain loop form, or either of them inside a private helper of the module that the
        # drain hands its bucket snapshot to: all are read
        units = [b] + list(F.closures_of(b))
        for c_ in b.calls():
            for hb in local_callee_bodies(F, c_) + fn_item_args(F, c_):
                if hb.crate == AG and "histogram" in hb.path and hb.kind == "Fn" and hb.name not in CONFIG_FN and hb not in units:
                    units += [hb] + list(F.closures_of(hb))
        # R11.4 every bucket is looked at: no adapter that ends or thins the iteration over the snapshot
        trunc = [(u, c_) for u in units for c_ in u.calls() if c_.name in ("take_while", "take", "skip", "skip_while", "step_by", "nth", "map_while", "scan", "find", "position")
                 and "iter" in (c_.def_ or "")]
        ctx.check(not trunc, "R11.4", key + "#every-bucket-visited", loc(trunc[0][0], trunc[0][1].bb) if trunc else loc(b),
                  "the drain ends or thins its pass over the buckets with `%s`: a bucket that holds observations beyond the cut is never reported "
                  "(counts are not conserved)" % (trunc[0][1].name if trunc else ""),
                  "bucket iteration uses only filter(count > 0) / map / collect")
        fsum = None
        msum = None
        for cb in units:
            pr = Prov(cb)
            agg_blocks = [i for i in cb.live_blocks() for s_ in cb.stmts(i) if s_["k"] == "assign" and s_["rv"]["k"] == "agg" and s_["rv"].get("variant") == "Repeated"]
            for i in cb.live_blocks():
                for s_ in cb.stmts(i):
                    if s_["k"] == "assign" and s_["rv"]["k"] == "binop" and s_["rv"]["op"] in ("Gt", "Ne", "Eq", "Lt", "Le", "Ge"):
                        ao, bo = pr.operand(s_["rv"]["a"]), pr.operand(s_["rv"]["b"])
                        ka, kb = op_const(s_["rv"]["a"]) or {}, op_const(s_["rv"]["b"]) or {}
                        is_count = lambda o: any(x[0] == "call" and cb.term(x[1])["callee"]["name"] == "count" for x in o)
                        op = s_["rv"]["op"]
                        cls_ = None     # 'positive' (true iff count > 0) or 'zero' (true iff count == 0)
                        if is_count(ao) and kb.get("int") == 0:
                            cls_ = {"Gt": "positive", "Ne": "positive", "Eq": "zero", "Le": "zero"}.get(op)
                        elif is_count(bo) and ka.get("int") == 0:
                            cls_ = {"Lt": "positive", "Ne": "positive", "Eq": "zero", "Ge": "zero"}.get(op)
                        elif is_count(ao) and kb.get("int") == 1:
                            cls_ = {"Ge": "positive", "Lt": "zero"}.get(op)
                        if cls_ is None:
                            continue
                        if s_["lhs"]["l"] == 0 and cb.locals[0]["ty"] == "bool" and cb is not b:
                            # a filter closure: its result decides keeping
                            fsum = ("keep-iff-count>0" if cls_ == "positive" else "keep-iff-count==0", True, 0)
                        else:
                            # a branch in front of the emission: the Repeated aggregate must sit on the count>0 side only
                            t = cb.term(i)
                            if t["k"] == "switch" and agg_blocks:
                                tg = {v: tb for v, tb in t["targets"]}
                                t_false, t_true = tg.get(0), t["otherwise"]
                                pos_t, zero_t = (t_true, t_false) if cls_ == "positive" else (t_false, t_true)
                                on_pos = all(ab in cb.reachable(pos_t, avoid=[i]) for ab in agg_blocks)
                                on_zero = any(ab in cb.reachable(zero_t, avoid=[i]) for ab in agg_blocks) if zero_t is not None else True
                                fsum = ("keep-iff-count>0" if on_pos and not on_zero else "emission-not-guarded-by-count>0", True, 0)
            for i in cb.live_blocks():
                for s_ in cb.stmts(i):
                    if s_["k"] == "assign" and s_["rv"]["k"] == "agg" and s_["rv"].get("variant") == "Repeated":
                        flds = dict(zip(s_["rv"]["fields"], s_["rv"]["ops"]))
                        oo = pr.operand(flds["occurrences"])
                        to = pr.operand(flds["total"])
                        occ_ok = all(x[0] in ("via",) or (x[0] == "call" and cb.term(x[1])["callee"]["name"] == "count") for x in oo) and bool(oo)
                        tot_calls = sorted({cb.term(x[1])["callee"]["name"] for x in to if x[0] == "call"})
                        msum = (occ_ok, tuple(("scale_down" if n in SCALE_DOWN else n) for n in tot_calls if n in SCALE_DOWN or n in ("count", "midpoint", "range", "start", "end")), ("op", "Mul") in to)
        ctx.check(fsum == ("keep-iff-count>0", True, 0), "R11.1", key + "#keeps-non-empty-buckets", loc(b), "drain keeps buckets by %s, expected exactly those with bucket.count() > 0" % (fsum,))
        ctx.check(msum is not None and msum[0], "R11.1", key + "#occurrences-from-bucket-count", loc(b), "emitted occurrences do not derive solely from Bucket::count() (%s)" % (msum,))
        ctx.check(msum is not None and "scale_down" in msum[1] and "count" in msum[1] and msum[2], "R11.1", key + "#total-is-scaled-midpoint-times-count", loc(b),
                  "emitted total is not scale_down(midpoint) * count: %s" % (msum,))
        cfg = reaches_call(F, b, lambda c: c.name in CONFIG_FN, depth=1)
        dsum[b.path] = (fsum, msum)
    if len(dsum) == 2:
        a, b_ = list(dsum.items())
        ctx.check(a[1] == b_[1], "R11.2", "exponential-drains#atomic~non-atomic", "", "atomic and non-atomic exponential drains disagree: %s vs %s" % (a[1], b_[1]), "drain summaries equal")
    # record_many siblings
    rms = [b for b in F.all_bodies(AG) if b.name == "record_many" and "Exponential" in b.path]
    ctx.floor("R11.2", "exponential record_many implementations", len(rms), 2)
    rsum = {}
    for b in rms:
        pr = Prov(b)
        adds = [c for c in b.calls() if c.name == "add" and c.def_.startswith("histogram::")]

        def scaled_params(body, op, depth=2):
            """parameters p of `body` such that the operand is (an arithmetic adaptation of) SCALE_UP(p), directly or through a
            private helper of the module; None when the operand is not a scaled value at all"""
            pr_ = Prov(body)
            got, scaled = set(), False
            work_, seen_ = list(pr_.operand(op)), set()
            while work_:
                x = work_.pop()
                if x[0] != "call" or x in seen_:
                    continue
                seen_.add(x)
                cs_ = CallSite(body, x[1], body.term(x[1]))
                if cs_.name in ("min", "max") and cs_.def_.startswith(("core::", "std::")) and cs_.args:
                    work_ += list(pr_.operand(cs_.args[0]))      # clamping to the integer range is not a rescaling
                    continue
                if cs_.name in SCALE_UP:
                    scaled = True
                    got |= {y[1] for y in pr_.operand(cs_.args[0]) if y[0] == "arg" and not y[2]}
                elif depth > 0:
                    for hb in local_callee_bodies(F, cs_):
                        if hb.crate != AG or "histogram" not in hb.path:
                            continue
                        sub = scaled_params(hb, {"copy": {"l": 0, "p": []}}, depth - 1)
                        if sub is not None:
                            scaled = True
                            for p_ in sub:
                                if p_ - 1 < len(cs_.args):
                                    got |= {y[1] for y in pr_.operand(cs_.args[p_ - 1]) if y[0] == "arg" and not y[2]}
                        else:
                            # a helper that only clamps / casts its argument (`to_bucket_value(scale_up(v))`): look at what it is given
                            hpr = Prov(hb)
                            ro_, hw, hs = set(), list(hpr.local(0)), set()
                            while hw:
                                y = hw.pop()
                                if y in hs:
                                    continue
                                hs.add(y)
                                if y[0] == "call":
                                    hc = CallSite(hb, y[1], hb.term(y[1]))
                                    if hc.name in ("min", "max") and hc.def_.startswith(("core::", "std::")) and hc.args:
                                        hw += list(hpr.operand(hc.args[0]))
                                    else:
                                        ro_.add(("other",))
                                elif y[0] == "arg" and not y[2]:
                                    ro_.add(y)
                            if ro_ and all(y[0] == "arg" for y in ro_):
                                for y in ro_:
                                    if y[1] - 1 < len(cs_.args):
                                        work_ += list(pr_.operand(cs_.args[y[1] - 1]))
            return got if scaled else None
        s = None
        if len(adds) == 1:
            sp = scaled_params(b, adds[0].args[1])
            co = pr.operand(adds[0].args[2])
            s = (sp is not None, any(x[0] == "arg" and x[1] == 3 for x in co) and not any(x[0] == "const" for x in co), sp is not None and 2 in sp)
        rsum[b.path] = s
        ctx.check(s == (True, True, True), "R11.2", fnkey(b) + "#scaled-value-with-count", loc(b),
                  "record_many does not add scale_up(value) with the `count` parameter (value-scaled, count-passed, scales-the-parameter) = %s" % (s,))
    # ------------------------------------------------------------------ R11.3 sort-and-merge merges on exact equality only
    SORTS = ("sort_by_key", "sort_by", "sort_unstable_by", "sort_unstable_by_key", "sort", "sort_unstable")
    BUMPS = ("saturating_add", "checked_add", "wrapping_add")
    sm0 = [b for b in F.all_bodies(AG) if b.name == "drain" and b.impl and "AggregationStrategy" in (b.impl.get("trait") or "") and any(c.name in SORTS for c in b.calls())]
    # the run merging may be written as a loop of the drain or inside a closure of it (`fold`)
    sm = [(d, u) for d in sm0 for u in [d] + list(F.closures_of(d)) if any(c.name in BUMPS for c in u.calls())]
    # ... or as `chunk_by(|a, b| a == b)` over the sorted values: the grouping predicate is the merge decision
    grouped = []
    for d in sm0:
        for c in d.calls():
            if c.name in ("chunk_by", "chunk_by_mut", "dedup_by", "group_by"):
                for cb in closure_args(F, c):
                    grouped.append((d, cb))
    ctx.floor("R11.3", "sort-and-merge drain", len(sm) + len(grouped), 1)
    # R11.3 #sorts-on-every-path (seed S132): "ascending order with equal values merged" for every multiset needs the whole buffer
    # sorted before the run merging on every path of the drain; the only skip accepted is one decided by the buffer's own length
    # (nothing / one value to sort). A skip decided by remembered state ("values arrived in order so far") is exact only if every
    # recording path maintains that state - record_many, re-aggregation, a future entry point - which no local rule can promise.
    for d0 in sm0:
        sbbs = [c.bb for c in d0.calls() if c.name in SORTS]
        bad_sw = None
        if not d0.must_pass(sbbs):
            prd = Prov(d0)
            for sb in sbbs:
                for gi, gt, yes, no in controlling_switches(d0, sb):
                    rv = discr_def(d0, gi, gt)
                    by_len = False
                    if rv is not None and rv.get("k") == "call":
                        by_len = (rv["term"].get("callee") or {}).get("name") in ("is_empty", "len")
                    elif rv is not None and rv.get("k") == "binop":
                        o = prd.operand(rv["a"]) | prd.operand(rv["b"])
                        by_len = any(x[0] == "call" and (d0.term(x[1]).get("callee") or {}).get("name") in ("len", "is_empty") for x in o)
                    if not by_len:
                        bad_sw = gi
            if bad_sw is None and not any(controlling_switches(d0, sb) for sb in sbbs):
                bad_sw = sbbs[0]
        ctx.check(bad_sw is None, "R11.3", fnkey(d0) + "#sorts-on-every-path", loc(d0, bad_sw if bad_sw is not None else sbbs[0]),
                  "the sort-and-merge drain can reach its run merging without sorting the buffer, on a condition that is not the buffer's "
                  "length: values recorded out of order through any path that does not maintain that condition are reported unsorted and "
                  "equal values unmerged")
    for d0, cb in grouped:
        prg = Prov(cb, adapter_pred=lambda t: (t.get("callee") or {}).get("name") in ("deref",))
        decided = None
        for i_ in cb.live_blocks():
            for s_ in cb.stmts(i_):
                if s_["k"] == "assign" and s_["rv"]["k"] == "binop" and s_["rv"]["op"] in ("Eq", "Ne", "Lt", "Le", "Gt", "Ge"):
                    o = prg.operand(s_["rv"]["a"]) | prg.operand(s_["rv"]["b"])
                    arith = sorted({x[1] for x in o if x[0] == "op" and x[1] in ("Sub", "Add", "Div", "Mul")} | {
                        (cb.term(x[1]).get("callee") or {}).get("name") for x in o if x[0] == "call" and (cb.term(x[1]).get("callee") or {}).get("name") in ("abs", "abs_sub", "round", "floor", "ceil", "trunc")})
                    decided = (s_["rv"]["op"], arith, {x[1] for x in o if x[0] == "arg"})
        for c in cb.calls():
            if c.name in ("eq", "total_cmp", "cmp", "is_eq") and len(c.args) >= 2:
                decided = ("Eq", [], {x[1] for a_ in c.args for x in prg.operand(a_) if x[0] == "arg"})
        okg = decided is not None and decided[0] == "Eq" and not decided[1] and len(decided[2]) >= 2
        ctx.check(okg, "R11.3", fnkey(d0) + "#merges-on-exact-equality", loc(cb),
                  "sort-and-merge groups observations by something else than exact equality of neighbouring values (%s): distinct recorded values would be reported as one" % (decided,))
    for d0, b in sm:
        pr = Prov(b)
        bumps = [c for c in b.calls() if c.name in BUMPS]
        okm = False
        why = "no merge decision found"
        for c in bumps:
            for gi, gt, yes, no in controlling_switches(b, c.bb):
                rv = discr_def(b, gi, gt)
                if rv is None:
                    continue
                if rv.get("k") == "binop":
                    o = pr.operand(rv["a"]) | pr.operand(rv["b"])
                    arith = sorted({x[1] for x in o if x[0] == "op" and x[1] in ("Sub", "Add", "Div", "Mul")} | {
                        (b.term(x[1]).get("callee") or {}).get("name") for x in o if x[0] == "call" and (b.term(x[1]).get("callee") or {}).get("name") in ("abs", "abs_sub", "round", "floor", "ceil", "trunc")})
                    tg0 = {v: tb for v, tb in gt["targets"]}.get(0)
                    # the count is bumped on the `equal` side: the true side of `==`, the false side of `!=`
                    equal_side = gt["otherwise"] if rv["op"] == "Eq" else tg0
                    if rv["op"] in ("Eq", "Ne") and not arith and yes == [equal_side]:
                        okm = True
                    else:
                        why = "merge decision is `%s` over %s" % (rv["op"], arith or "values")
                elif rv.get("k") == "call" and (rv["term"].get("callee") or {}).get("name") in ("eq", "total_cmp", "cmp", "is_eq"):
                    okm = True
        ctx.check(okm, "R11.3", fnkey(d0) + "#merges-on-exact-equality", loc(b),
                  "sort-and-merge groups observations by something else than exact equality (%s): distinct recorded values would be reported as one" % why)
    # ------------------------------------------------------------------ R11.5 shared strategies update shared state with single atomic operations
    shared = [b for b in F.all_bodies(AG) if b.impl and (b.impl.get("trait") or "").endswith("SharedAggregationStrategy") and "::tests::" not in b.path]
    ctx.floor("R11.5", "methods of shared (atomic) strategies", len(shared), 2)
    for b in shared:
        st_ = [c for c in b.calls() if c.def_.startswith("core::sync::atomic::Atomic") and c.name == "store"]
        ld_ = [c for c in b.calls() if c.def_.startswith("core::sync::atomic::Atomic") and c.name == "load"]
        ctx.check(not st_, "R11.5", fnkey(b) + "#no-load-then-store", loc(b, st_[0].bb if st_ else None),
                  "a method of a strategy that is shared between threads writes an atomic with a plain `store`%s: two concurrent callers can both pass the "
                  "check and the later store undoes the earlier one (use fetch_max / fetch_add / compare_exchange)" % (" after a `load`" if ld_ else ""),
                  "no plain atomic store")
    # same configuration everywhere
    cfgs = [c for b_ in F.all_bodies(AG) for c in b_.calls() if c.name in CONFIG_FN and c.def_.startswith(AG)]
    users = sorted({c.body.path.split("::tests::")[0] for c in cfgs if "::tests::" not in c.body.path})
    ctx.check(any("AtomicExponential" in u for u in users) and any("ExponentialAggregationStrategy" in u and "Atomic" not in u for u in users), "R11.2", "exponential-strategies#same-bucket-configuration", "",
              "atomic and non-atomic strategies are not both configured by default_histogram_config(): %s" % users, "users: %d" % len(users))
    withcfg = [c for b in F.all_bodies(AG) if "::tests::" not in b.path and "histogram" in b.path for c in b.calls() if c.name == "with_config" and c.def_.startswith("histogram::")]
    def cfg_terminals(body, op, seen):
        """where a configuration value comes from, followed through parameters (to the callers) and through fields that keep it (to the
        places that initialise them): {'cfg'} when every source is the shared configuration function"""
        out = set()
        for x in Prov(body).operand(op):
            if x[0] == "call":
                out.add("cfg" if body.term(x[1])["callee"]["name"] in CONFIG_FN else "other:" + str(body.term(x[1])["callee"].get("name")))
            elif x[0] == "arg" and not x[2]:
                k = (body.def_, x[1])
                if k in seen:
                    continue
                seen.add(k)
                ups = [u for u in F.callers_of(body.path, crates=[AG]) if "::tests::" not in u.body.path]
                if not ups:
                    out.add("other:no-caller")
                for u in ups:
                    out |= cfg_terminals(u.body, u.args[x[1] - 1], seen) if x[1] - 1 < len(u.args) else {"other:arity"}
            elif x[0] == "arg" and x[2]:
                fname = x[2][-1]
                k = ("field", fname)
                if k in seen:
                    continue
                seen.add(k)
                inits = 0
                for ob in F.all_bodies(AG):
                    if "histogram" not in ob.path or "::tests::" in ob.path:
                        continue
                    for i_ in ob.live_blocks():
                        for s_ in ob.stmts(i_):
                            if s_["k"] == "assign" and s_["rv"]["k"] == "agg" and fname in (s_["rv"].get("fields") or []):
                                inits += 1
                                out |= cfg_terminals(ob, s_["rv"]["ops"][s_["rv"]["fields"].index(fname)], seen)
                            elif s_["k"] == "assign" and s_["lhs"].get("p") and s_["lhs"]["p"][-1][0] == "f" and s_["lhs"]["p"][-1][2] == fname and s_["rv"]["k"] == "use":
                                inits += 1
                                out |= cfg_terminals(ob, s_["rv"]["op"], seen)
                if not inits:
                    out.add("other:field-never-set")
            elif x[0] in ("const", "agg"):
                out.add("other:" + x[0])
        return out
    for c in withcfg:
        terms = cfg_terminals(c.body, c.args[0], set())
        ctx.check(terms == {"cfg"}, "R11.2", fnkey(c.body) + "#uses-default-config", loc(c.body, c.bb),
                  "a histogram is created with another configuration than default_histogram_config() (sources: %s)" % sorted(terms))
    return EXPL

"""C02 — EMF output is valid, newline-framed JSON; nothing written on validation error (structural clauses)."""
from mq.util import *
from mq.prov import Prov, IDENTITY_ADAPTERS
from mq.bufsim import BufSim
from mq.sim import Budget
from mq.facts import CallSite, strip_generics

EXPL = ("R02.1 escaping taint: every string that reaches a raw append (push_raw_str / push / String::push_str / format arguments / "
        "buffer prefixes) originates from a literal, a number formatter, serde_json, another buffer, or a clean wrapper type whose "
        "payload is itself only ever built from such origins; caller strings reach output only through JsonString::json_string; "
        "parameters of private helpers that are appended raw make the helper a derived sink checked at its call sites. "
        "R02.2 separator/member typestate (path-sensitive, with per-variant callee summaries and length-snapshot rollback): no list/"
        "object is closed, spliced or left at function exit while a buffer ends in a dangling ',' or ':', no ',' after an opening "
        "bracket or a known-empty buffer, no element directly after an element. R02.3 no byte is handed to the io::Write before the "
        "validation verdict. R02.4 the last buffer of every vectored write ends with the newline literal. R02.5 (the premise of "
        "R02.2) every output buffer is reset before its first use in a call on all paths - also after a call that ended in an I/O or "
        "validation error - so a record never starts from the leftovers of a failed one (same analysis as R14.2). R02.7 every offset later used to splice or slice an output buffer is computed from lengths of "
        "encoded buffers or literals, never from the length of a caller-provided string; R02.6 the sanitizer itself (JsonString::json_string) hands the caller's text to the serde_json escaper exactly once on "
        "every path and never appends it raw. Not decided: that the "
        "concatenation of the runtime-built prefixes nests correctly for every configuration.")
CR = "metrique_writer_format_emf"

CLEAN_PRODUCERS = ("itoa::Buffer::format", "dtoa::Buffer::format_finite", "serde_json::ser::to_string", "alloc::fmt::format",
                   "alloc::string::String::with_capacity", "alloc::string::String::new", "core::fmt::Arguments::<'a>::new",
                   "core::fmt::Arguments::<'a>::from_str", "alloc::fmt::format::format_inner")
SUBSTRING_ADAPTERS = ("core::hint::must_use", "core::str::<impl str>::strip_suffix", "core::str::<impl str>::strip_prefix", "core::str::<impl str>::trim",
                      "core::ops::index::Index::index", "core::str::traits::<impl core::ops::index::Index<I> for str>::index",
                      "alloc::string::ToString::to_string", "alloc::string::String::as_str", "core::option::Option::<T>::unwrap_or_default",
                      "core::result::Result::<T, E>::expect", "core::result::Result::<T, E>::unwrap",
                      "metrique_writer_format_emf::buf::PrefixedStringBuf::as_str")
MULTI = {"core::option::Option::<T>::unwrap_or": (0, 1)}
INT_TYPES = ("u8", "u16", "u32", "u64", "u128", "usize", "i8", "i16", "i32", "i64", "i128", "isize", "char")


def send_bodies(F):
    """local functions that hand bytes to an io::Write with vectored writes (role of `write_all_vectored`, whatever it is called)"""
    c_ = getattr(F, "_send_bodies", None)
    if c_ is None:
        c_ = {b.def_ for b in F.all_bodies(CR) if any(c.is_trait_method("Write", "write_vectored") for c in b.calls())}
        F._send_bodies = c_
    return c_


def is_send(F, c):
    """call site of such a function"""
    from mq.util import local_callee_bodies as _lcb
    return any(sb.def_ in send_bodies(F) for sb in _lcb(F, c))


def buffer_field(F):
    """predicate (adt, field) -> the field is an output buffer or a map of per-set buffers (by type, not by name)"""
    def pred(adt, fn):
        a = F.adts.get(adt) or {}
        for v in a.get("variants", []):
            for f in v["fields"]:
                if f["name"] == fn:
                    return "PrefixedStringBuf" in f["ty"] or "HashMap<" in f["ty"]
        return False
    return pred


def in_scope(b):
    return b.crate == CR and "::tests::" not in b.path and "::test::" not in b.path and not b.path.startswith("metrique_writer_format_emf::test")


def clean_wrappers(F):
    """ADTs accepted by the PushJsonSafeString methods (role: pre-encoded JSON fragments)"""
    out = set()
    for b in F.all_bodies(CR):
        if b.impl and (b.impl.get("trait") or "").endswith("PushJsonSafeString"):
            for i in range(2, b.arg_count + 1):
                h = b.locals[i].get("head", {})
                if h.get("adt", "").startswith(CR):
                    out.add(h["adt"])
    return out


class Taint:
    def __init__(self, F, wrappers):
        self.F, self.wrappers = F, wrappers
        self.wrapper_fields = set()
        for w in wrappers:
            for v in F.adts[w]["variants"]:
                for f in v["fields"]:
                    self.wrapper_fields.add(f["name"])
        self.derived = {}   # (def path, argidx) -> reason
        self.provs = {}

    def prov(self, b):
        if b.def_ not in self.provs:
            self.provs[b.def_] = Prov(b, extra_adapters=SUBSTRING_ADAPTERS, multi=MULTI,
                                      adapter_pred=lambda t: (t.get("callee") or {}).get("name") in ("deref", "as_ref", "borrow", "as_str", "to_owned", "clone", "into", "as_deref"))
        return self.provs[b.def_]

    def classify(self, b, op):
        """returns (tainted origins, param origins)"""
        pr = self.prov(b)
        o = pr.operand(op)
        bad, params = [], []
        for x in o:
            k = x[0]
            if k == "const":
                continue
            if k in ("via", "agg", "op", "undef", "callf"):
                continue
            if k == "arg":
                fields = x[2]
                aty = b.locals[x[1]]["ty"]
                h = b.locals[x[1]].get("head", {})
                if h.get("adt") in self.wrappers or any(f in self.wrapper_fields for f in fields):
                    continue
                if "PrefixedStringBuf" in aty and not fields:
                    continue
                if fields and self._field_is_buf_or_wrapper(b, x[1], fields):
                    continue
                if fields and b.kind == "Closure" and x[1] == 1 and self._upvar_is_buf_or_wrapper(b, fields[0]):
                    continue
                if fields and self._clean_string_field(b, x[1], fields):
                    continue
                if self._peel(aty) in INT_TYPES:
                    continue
                params.append(x)
                continue
            if k == "call":
                t = b.term(x[1])
                c = t.get("callee") or {}
                d = c.get("def", "")
                if d in CLEAN_PRODUCERS or c.get("resolved") in CLEAN_PRODUCERS:
                    continue
                if c.get("name") == "join" and "itertools" in d and any(w.rsplit("::", 1)[-1] in (c.get("self_ty") or "") for w in self.wrappers):
                    continue
                if c.get("name") in ("as_str", "as_ref") and "PrefixedStringBuf" in d + (c.get("self_ty") or ""):
                    continue
                dty = b.local_ty(t["dest"]["l"]) if not t["dest"].get("p") else ""
                if self._peel(dty) in INT_TYPES:
                    continue
                # a private function of the crate that builds and returns a fresh String (its own appends are sinks checked like any
                # other): its result is as clean as what it is built from
                from mq.facts import CallSite as _CS
                subs = [hb for hb in local_callee_bodies(self.F, _CS(b, x[1], t)) if hb.crate == CR and hb.kind != "Closure"]
                if subs and "String" in dty and x[1] not in getattr(self, "_busy", set()):
                    self._busy = getattr(self, "_busy", set()) | {x[1]}
                    try:
                        res = [self.classify(hb, {"copy": {"l": 0, "p": []}}) for hb in subs if in_scope(hb)]
                    finally:
                        self._busy = self._busy - {x[1]}
                    if res and all(not bd and not pm for bd, pm in res):
                        continue
                bad.append(("call", d, x[1]))
                continue
            bad.append(x)
        return bad, params

    def _upvar_is_buf_or_wrapper(self, b, name):
        """a captured variable of a closure whose type is the output buffer or a clean wrapper (read off the places that mention it)"""
        for i in b.live_blocks():
            for st in b.stmts(i):
                if st["k"] != "assign":
                    continue
                pls = [st["lhs"]]
                rv = st["rv"]
                if isinstance(rv.get("place"), dict):
                    pls.append(rv["place"])
                for k_ in ("op", "a", "b"):
                    o_ = rv.get(k_)
                    if isinstance(o_, dict) and (o_.get("copy") or o_.get("move")):
                        pls.append(o_.get("copy") or o_.get("move"))
                for pl in pls:
                    if pl.get("l") == 1:
                        for e in pl.get("p", []):
                            if e[0] == "f" and e[2] == name and len(e) > 4:
                                ty = e[4]
                                if "PrefixedStringBuf" in ty or any(w in ty for w in self.wrappers):
                                    return True
        return False

    def _field_is_buf_or_wrapper(self, b, argl, fields):
        # type of the field path: look it up through ADT tables
        ty = b.locals[argl].get("head", {}).get("adt")
        for f in fields:
            adt = self.F.adts.get(ty)
            if not adt:
                return False
            nxt = None
            for v in adt["variants"]:
                for fd in v["fields"]:
                    if fd["name"] == f:
                        nxt = fd
            if nxt is None:
                return False
            h = nxt.get("head", {})
            ty = h.get("adt")
            if ty in self.wrappers or (ty or "").endswith("PrefixedStringBuf"):
                return True
            if nxt["ty"].startswith("alloc::vec::Vec<") and any(w in nxt["ty"] for w in self.wrappers):
                return True
        return False

    def _clean_string_field(self, b, argl, fields):
        """a String field of a crate ADT all of whose writes are clean (constructed from clean origins; later mutation only
        through String::push/push_str, which are sinks of this rule themselves)"""
        adt = b.locals[argl].get("head", {}).get("adt")
        if len(fields) != 1 or adt not in self.F.adts or self.F.adts[adt]["crate"] != CR:
            return False
        fd = [f for v in self.F.adts[adt]["variants"] for f in v["fields"] if f["name"] == fields[0]]
        if not fd or fd[0]["ty"] != "alloc::string::String":
            return False
        key = (adt, fields[0])
        if key in getattr(self, "_csf", {}):
            return self._csf[key]
        self._csf = getattr(self, "_csf", {})
        self._csf[key] = True   # optimistic for recursion
        ok = True
        for bb_ in self.F.all_bodies(CR):
            if not in_scope(bb_):
                continue
            for i in bb_.live_blocks():
                for s in bb_.stmts(i):
                    if s["k"] != "assign":
                        continue
                    if s["rv"]["k"] == "agg" and s["rv"].get("adt") == adt and fields[0] in (s["rv"].get("fields") or []):
                        op = s["rv"]["ops"][s["rv"]["fields"].index(fields[0])]
                        bad, params = self.classify(bb_, op)
                        if bad or params:
                            ok = False
                    fe = [e for e in s["lhs"].get("p", []) if e[0] == "f"]
                    if fe and fe[-1][2] == fields[0] and fe[-1][3] == adt:
                        rv = s["rv"]
                        ops = [rv.get("op")] if rv["k"] in ("use", "cast") else []
                        for op in ops:
                            bad, params = self.classify(bb_, op)
                            if bad or params:
                                ok = False
        self._csf[key] = ok
        return ok

    @staticmethod
    def _peel(ty):
        return ty.replace("&mut ", "").replace("&", "").strip()


def raw_sinks(b):
    """(callsite, arg index, description) of raw appends in body b"""
    out = []
    for c in b.calls():
        if is_noise(c):
            continue
        d = c.def_
        on_buf = d.startswith("metrique_writer_format_emf::buf::PrefixedStringBuf::")
        if on_buf and c.name == "push_raw_str":        # (role names: see Facts._role_aliases)
            out.append((c, 1, "push_raw_str"))
        elif on_buf and c.name == "push":
            out.append((c, 1, "push"))
        elif d in ("alloc::string::String::push_str", "alloc::string::String::push", "alloc::string::String::insert_str") and not b.path.startswith(CR + "::json_string"):
            out.append((c, len(c.args) - 1, c.name))
        elif c.is_("metrique_writer_format_emf::buf::PrefixedStringBuf::from_prefix"):
            out.append((c, 0, "from_prefix"))
        elif c.is_("metrique_writer_format_emf::buf::PrefixedStringBuf::new"):
            out.append((c, 0, "prefix"))
        elif d.startswith("core::fmt::rt::Argument::<'_>::new_") and not (c.exp or "").count("panic") and "assert" not in (c.exp or ""):
            out.append((c, 0, "format-argument"))
    return out


def run(ctx):
    F = ctx.facts("dbg")
    wrappers = clean_wrappers(F)
    ctx.floor("R02.1", "clean wrapper types (PushJsonSafeString parameters)", len(wrappers), 2)
    T = Taint(F, wrappers)
    bodies = [b for b in F.all_bodies(CR) if in_scope(b) and not b.path.startswith(CR + "::buf::PrefixedStringBuf::") and
              not b.path.startswith("<" + CR + "::buf::PrefixedStringBuf as") or (in_scope(b) and "PushJsonSafeString" in b.path)]
    bodies = [b for b in bodies if "rate_limit" not in b.path and "::fmt" not in b.path[-6:]]
    # ------------------------------------------------------------------ R02.1
    nsinks = 0
    work = [(b, c, i, what) for b in bodies for c, i, what in raw_sinks(b)]
    derived_seen = set()
    rounds = 0
    while work and rounds < 6:
        rounds += 1
        nxt = []
        for b, c, i, what in work:
            nsinks += 1
            if i >= len(c.args):
                continue
            # format arguments: clean by type
            if what == "format-argument":
                l = op_local(c.args[i])
                ty = T._peel(b.local_ty(l)) if l is not None else ""
                if ty in INT_TYPES or any(ty.startswith(w) for w in wrappers):
                    ctx.ok("R02.1", fnkey(b) + "#%s@%s" % (what, _sink_id(b, c)), loc(b, c.bb), "clean by type: %s" % ty)
                    continue
            bad, params = T.classify(b, c.args[i])
            key = fnkey(b) + "#%s@%s" % (what, _sink_id(b, c))
            if bad:
                ctx.bad("R02.1", key, loc(b, c.bb),
                        "a string that is not known to be JSON-safe reaches a raw append (%s): origin %s. Caller-supplied text must go through "
                        "JsonString::json_string" % (what, _fmt_origin(bad[0])))
                continue
            if params:
                internal = b.d.get("vis") != "pub" and not (b.impl and b.impl.get("trait") and not (b.impl.get("trait") or "").startswith(CR)) or b.kind == "Closure"
                internal = internal or (b.impl and (b.impl.get("trait") or "").endswith("PushJsonSafeString"))
                if internal and b.kind != "Closure":
                    for x in params:
                        dk = (b.path, x[1] - 1)
                        if dk not in derived_seen:
                            derived_seen.add(dk)
                            callers = F.callers_of(b.path, crates=[CR]) + [cs for cs in F.callers_of(b.name, crates=[CR]) if cs.is_trait_method("PushJsonSafeString") and b.impl and (b.impl.get("trait") or "").endswith("PushJsonSafeString")]
                            for cs in callers:
                                if in_scope(cs.body):
                                    nxt.append((cs.body, cs, x[1] - 1, "raw-param-of-%s" % b.name))
                            ctx.ok("R02.1", key + "-derived-sink", loc(b, c.bb), "parameter %d of private fn is appended raw: checked at %d call site(s)" % (x[1] - 1, len(callers)))
                else:
                    ctx.bad("R02.1", key, loc(b, c.bb),
                            "parameter %s of `%s` (caller-controlled text) reaches a raw append (%s) without JSON escaping" % (
                                b.local_name(params[0][1]) or params[0][1], b.path, what))
                continue
            ctx.ok("R02.1", key, loc(b, c.bb), "clean origins only")
        work = nxt
    ctx.floor("R02.1", "raw append sites checked", nsinks, 25)
    # wrapper payloads are only built in their own constructors, from clean origins
    for w in wrappers:
        n = 0
        for b in F.all_bodies(CR):
            if not in_scope(b):
                continue
            for i in b.live_blocks():
                for s in b.stmts(i):
                    if s["k"] == "assign" and s["rv"]["k"] == "agg" and s["rv"].get("adt") == w:
                        n += 1
                        own = ((b.impl or {}).get("self_head") or {}).get("adt") == w
                        ctx.check(own, "R02.1", w + "#built-only-by-own-impl@" + fnkey(b), loc(b, i),
                                  "clean wrapper %s is constructed outside its own impl (in %s): its payload would bypass encoding" % (w, b.path))
                        if own and not (b.impl.get("trait") or "").endswith("Clone"):
                            for op in s["rv"]["ops"]:
                                bad, params = T.classify(b, op)
                                # parameters of the constructors named `encode`/`new` are encoded by serde_json in the same body
                                raw_param = [x for x in params if not _param_only_via(b, x[1], ("serde_json::ser::to_string",))]
                                ctx.check(not bad and not raw_param, "R02.1", w + "#payload-clean@" + fnkey(b), loc(b, i),
                                          "payload of clean wrapper %s is built from a non-encoded origin %s" % (w, _fmt_origin((bad or raw_param)[0]) if (bad or raw_param) else ""))
        ctx.floor("R02.1", "construction sites of %s" % w.rsplit("::", 1)[-1], n, 1)

    # ------------------------------------------------------------------ R02.2 typestate
    helpers = set()
    eventful = []
    from mq.bufsim import tracked_params
    for b in F.all_bodies(CR):
        if not in_scope(b) or b.path.startswith(CR + "::buf::") or b.path.startswith("<" + CR + "::buf::"):
            continue
        has_ev = any((c.name in ("push", "push_raw_str", "push_str", "push_integer", "json_string", "truncate") and
                      ("PrefixedStringBuf" in c.def_ + c.self_ty or c.def_.startswith("alloc::string::String::") or c.self_ty == "alloc::string::String" or "JsonString" in c.def_))
                     for c in b.calls())
        if not has_ev:
            continue
        eventful.append(b)
        if tracked_params(b) and any(in_scope(cs.body) for cs in F.callers_of(b.path, crates=[CR])):
            helpers.add(b.def_)
    # bodies that hand buffers to helpers are themselves part of the region
    changed = True
    evset = {b.def_ for b in eventful}
    while changed:
        changed = False
        for b in list(eventful):
            if not tracked_params(b):
                continue
            for cs in F.callers_of(b.path, crates=[CR]):
                cb = cs.body
                if in_scope(cb) and cb.def_ not in evset and not cb.path.startswith(CR + "::buf::"):
                    evset.add(cb.def_)
                    eventful.append(cb)
                    if tracked_params(cb) and any(in_scope(x.body) for x in F.callers_of(cb.path, crates=[CR])):
                        helpers.add(cb.def_)
                    changed = True
    # a closure run through `for_each` is the body of a loop of its caller: simulated there (mq.bufsim._loop_closure), not as a unit
    from mq.bufsim import loop_closures
    for b in list(F.all_bodies(CR)):
        if not in_scope(b) or b.path.startswith(CR + "::buf::"):
            continue
        for cl in loop_closures(F, b, CR):
            if cl.def_ in evset:
                helpers.add(cl.def_)
                if b.def_ not in evset:
                    evset.add(b.def_)
                    eventful.append(b)
    roots = [b for b in eventful if b.def_ not in helpers and "PushJsonSafeString" not in b.path]
    ctx.floor("R02.2", "bodies with buffer events", len(eventful), 6)
    ctx.floor("R02.2", "typestate roots", len(roots), 4)
    cache = {}
    total_states = 0
    for b in roots:
        sim = BufSim(F, b, CR, 0, cache)
        try:
            sim.run(0, (frozenset(), frozenset()), {})
        except Budget as e:
            ctx.bad("R02.2", fnkey(b) + "#budget", loc(b), str(e))
            continue
        total_states += sim.nstates
        seen = set()
        for e in sim.errors:
            fn = e.get("fn", b.path)
            k = "%s#%s@%s" % (strip_generics(fn), e["kind"], _buf_role(e["buf"]))
            if k in seen:
                continue
            seen.add(k)
            where = "%s:%s" % (e.get("file", b.file), e.get("line", b.term(e["bb"]).get("line")))
            via = " (reached from %s)" % " -> ".join(v[0] for v in e["via"]) if e.get("via") else ""
            ctx.bad("R02.2", k, where, "%s%s" % (e["detail"], via), path=e.get("path"))
        for u in sim.unknown:
            ctx.bad("R02.2", fnkey(b) + "#unknown-effect@%s" % (u[2],), loc(b, u[1]), "effect on a tracked buffer cannot be summarised: %s" % u[0])
        dirty = set()
        for variant, finals, path in sim.exits:
            for bid, st in finals.items():
                if st in ("sep", "colon") and bid[0] != "local" or (st in ("sep", "colon") and bid[0] == "local" and bid[2]):
                    dirty.add((variant, bid, st))
        for variant, bid, st in sorted(dirty, key=str):
            ctx.bad("R02.2", fnkey(b) + "#exit-with-dangling-%s@%s" % (st, _buf_role(bid)), loc(b),
                    "the function can return (%s) leaving buffer %s ending in a dangling %s" % (variant, _buf_role(bid), "','" if st == "sep" else "':'"))
        if not sim.errors and not dirty and not sim.unknown:
            ctx.ok("R02.2", fnkey(b) + "#separator-typestate", loc(b), "%d abstract states explored, all exits clean" % sim.nstates)
    ctx.note("R02.2: %d abstract states over %d roots, %d callee summaries" % (total_states, len(roots), len([k for k in cache if k[0] != "errors"])))

    # ------------------------------------------------------------------ R02.3 verdict before bytes
    verdict_before_bytes(ctx, F, "R02.3")

    # ------------------------------------------------------------------ R02.5 premise of the typestate: buffers are clean at the start of a call
    import rules.c14 as c14
    before = len(ctx.instances)
    c14.run(ctx, only_fields=buffer_field(F), rule_prefix="R02.5")
    ctx.floor("R02.5", "output buffers checked for reset-before-use", len([i for i in ctx.instances[before:] if i["rule"] == "R02.5" and "clean-at-first-use" in i["instance"]]), 5)

    # ------------------------------------------------------------------ R02.6 the one string sanitizer has no bypass
    san = [b for b in F.all_bodies(CR) if b.name == "json_string" and b.impl and (b.impl.get("trait") or "").endswith("JsonString") and in_scope(b)]
    ctx.floor("R02.6", "JsonString::json_string implementations", len(san), 2)
    n_esc = 0
    for b in san:
        pr = Prov(b)
        key = fnkey(b)
        trusted = [c for c in b.calls() if (c.def_.startswith("serde_json::ser::to_") or c.def_.startswith("serde_json::to_") or "format_escaped_str" in c.def_ or
                                            c.is_trait_method("JsonString", "json_string")) and
                   any(any(x[0] == "arg" and x[1] == 2 for x in pr.operand(a)) for a in c.args)]
        n_esc += sum(1 for c in trusted if "serde_json" in c.def_)
        ok, why = exactly_once(b, [c.bb for c in trusted])
        ctx.check(ok, "R02.6", key + "#escaped-exactly-once", loc(b),
                  "the caller's text does not pass through the JSON escaper (serde_json / the String implementation) exactly once on every path: %s - "
                  "a path around it copies the text raw (a backslash or quote would change or break the record)" % why,
                  "value -> %s on every path" % [c.name for c in trusted])
        raw = [c for c in b.calls() if c not in trusted and len(c.args) >= 2 and any(x[0] == "arg" and x[1] == 1 for x in pr.operand(c.args[0])) and
               any(any(x[0] == "arg" and x[1] == 2 for x in pr.operand(a)) for a in c.args[1:])]
        ctx.check(not raw, "R02.6", key + "#no-raw-append-of-value", loc(b, raw[0].bb if raw else None),
                  "the sanitizer appends the caller's text to the output through %s, not through the escaper" % [c.name for c in raw])
    ctx.floor("R02.6", "calls of the serde_json escaper inside the sanitizer", n_esc, 1)

    # ------------------------------------------------------------------ R02.7 offsets into encoded text are measured on encoded text
    # slots: usize fields whose value is used as a splice/slice offset of an output buffer
    offs = set()
    for b in F.all_bodies(CR):
        if not in_scope(b):
            continue
        pr = None
        for c in b.calls():
            cand = []
            # (a buffer's own prefix bookkeeping - truncate back to the prefix - measures the very text it holds and is not a splice)
            if c.name in ("extend_from_within_range", "extend_from_within", "split_at") and len(c.args) >= 2:
                cand = c.args[1:]
            elif c.is_trait_method("Index", "index") and len(c.args) >= 2 and ("str" in (c.self_ty or "") or "String" in (c.self_ty or "")):
                cand = c.args[1:]
            for a in cand:
                pr = pr or Prov(b)
                for x in pr.operand(a):
                    if x[0] in ("arg", "callf") and x[2] and isinstance(x[2][-1], str):
                        # the field must be a usize field of a crate type
                        fld = x[2][-1]
                        if any(f["name"] == fld and f["ty"] == "usize" for ad in F.adts.values() if ad["crate"] == CR for v in ad["variants"] for f in v["fields"]):
                            offs.add(fld)
    ctx.floor("R02.7", "offset fields used to splice or slice an output buffer", len(offs), 1)
    n_off = 0
    for b in F.all_bodies(CR):
        if not in_scope(b):
            continue
        pr = None
        for i in b.live_blocks():
            for st in b.stmts(i):
                if st["k"] != "assign":
                    continue
                vals = []
                if st["rv"]["k"] == "agg" and st["rv"].get("fields"):
                    vals = [(f, o) for f, o in zip(st["rv"]["fields"], st["rv"]["ops"]) if f in offs]
                elif st["lhs"].get("p") and st["lhs"]["p"][-1][0] == "f" and st["lhs"]["p"][-1][2] in offs and st["rv"]["k"] == "use":
                    vals = [(st["lhs"]["p"][-1][2], st["rv"]["op"])]
                for fld, o in vals:
                    pr = pr or Prov(b, adapter_pred=lambda t: (t.get("callee") or {}).get("name") in ("index", "deref", "as_str", "as_ref", "borrow", "get", "unwrap", "expect", "first", "last"))
                    n_off += 1
                    raw = []
                    for x in pr.operand(o):
                        if x[0] == "call" and (b.term(x[1]).get("callee") or {}).get("name") == "len":
                            ro = pr.operand(b.term(x[1])["args"][0])
                            # measured on a caller-provided string (a field of the builder / a parameter) rather than on its encoded form
                            if any(y[0] == "arg" for y in ro) and not any(y[0] == "call" and (b.term(y[1]).get("callee") or {}).get("name") in
                                                                         ("encode", "json_string", "format", "to_string", "with_capacity", "new") for y in ro):
                                raw.append(x[1])
                    ctx.check(not raw, "R02.7", fnkey(b) + "#offset-measured-on-encoded-text(%s)" % fld, loc(b, i),
                              "the offset `%s` into an output buffer is computed from the length of a caller-provided string (bb%s) instead of the length of its "
                              "JSON-encoded form: for text that needs escaping the offset lands inside the encoded text and the spliced record is not valid JSON" % (fld, raw),
                              "offset derives from lengths of encoded buffers / literals only")
    ctx.floor("R02.7", "stores of splice offsets", n_off, 2)

    # ------------------------------------------------------------------ R02.4 line framing
    nw = 0
    for b in F.all_bodies(CR):
        if not in_scope(b):
            continue
        for c in b.calls():
            if not is_send(F, c):
                continue
            nw += 1
            last = _last_buffer_of_vectored(b, c)
            key = fnkey(b) + "#newline-framed@" + str(nw)
            if last is None:
                ctx.bad("R02.4", key, loc(b, c.bb), "cannot determine the last buffer handed to write_all_vectored")
                continue
            def framed(fb, site_bb, name):
                """newline-literal appends to the buffer field `name` dominating site_bb in fb, and appends after them before the site"""
                fpr = Prov(fb)
                fdom = fb.dominators()
                good, appends = [], []
                sim_ = BufSim(F, fb, CR)
                for x in fb.calls():
                    if x.name in ("push_raw_str", "push", "push_integer", "json_string", "extend_from_within_range") and x.args:
                        ro = fpr.operand(x.args[0])
                        if any(o[0] == "arg" and o[2] and o[2][-1] == name for o in ro):
                            appends.append(x)
                            s_ = sim_._const_str(x.args[1]) if x.name == "push_raw_str" else None
                            if s_ is not None and s_.endswith("\n") and dominates(fb, x.bb, site_bb, fdom):
                                good.append(x)
                later = [x for x in appends if any(x.bb in fb.reachable_after(g.bb) for g in good) and x not in good and site_bb in fb.reachable_after(x.bb)]
                return good, later, appends

            good, later, appends = framed(b, c.bb, last[-1])
            where = "bb%s" % [g.bb for g in good]
            if not good and not appends:
                # the write sits in a helper that only sends: the framing is the business of every caller
                callers = [cs for cs in F.callers_of(b.path, crates=[CR]) if in_scope(cs.body)]
                res = [framed(cs.body, cs.bb, last[-1]) for cs in callers]
                if callers and all(g and not l for g, l, _ in res):
                    good, later = [g for g, _, _ in res][0], []
                    where = "the caller(s) %s before the call" % [fnkey(cs.body).split("::")[-1] for cs in callers]
            ctx.check(bool(good) and not later, "R02.4", key, loc(b, c.bb),
                      "the last buffer (%s) of a vectored write is not terminated by the newline literal on every path (or something is appended after it)" % ".".join(last),
                      "buffer %s ends with the `}\\n` literal appended at %s" % (".".join(last), where))
    ctx.floor("R02.4", "write_all_vectored call sites", nw, 2)
    # ------------------------------------------------------------------ R02.8 success writes at least one line
    # "one or more complete lines": every successful path of the emission sends at least one record (the analysis is C03's life-sign
    # clause; borrowed here because a success that wrote no byte at all is first of all a framing failure)
    from mq.report import RuleView
    if not isinstance(ctx, RuleView):
        import rules.c03 as c03
        before7 = len(ctx.instances)
        c03.run(RuleView(ctx, {"R03.6": "R02.8"}, only=lambda k: "every-success-writes-a-record" in k or "success exits of the emission body" in k))
        ctx.floor("R02.8", "emission bodies judged for `every success writes a record`",
                  len([i_ for i_ in ctx.instances[before7:] if i_["rule"] == "R02.8" and "every-success-writes-a-record" in i_["instance"]]), 1)
    return EXPL


def verdict_before_bytes(ctx, F, rule):
    """R02.3 / R08.3"""
    is_w = lambda b, i: "io::Write" in b.locals[i]["ty"] or any(p.startswith(b.locals[i]["ty"].replace("&mut ", "") + ": ") and p.endswith("io::Write") for p in b.d.get("preds", []))
    V = {}
    for b in F.all_bodies(CR):
        if not in_scope(b):
            continue
        ws = [i for i in range(1, b.arg_count + 1) if is_w(b, i)]
        if ws:
            V[b.def_] = (b, ws)
    ctx.floor(rule, "bodies with an io::Write parameter", len(V), 4)
    memo = {}

    def verdict_target(b):
        """block from which the validation verdict is known good: the Ok / Continue edge of ValidationErrorBuilder::build(),
        whether it is consumed by `?`, `match` or `if let Err(..)`"""
        out = []
        for c in b.calls():
            if c.name == "build" and "ValidationErrorBuilder" in c.def_:
                via_try = False
                for x in b.calls():
                    if x.is_trait_method("Try", "branch") and x.args and ("call", c.bb) in Prov(b, adapters=()).operand(x.args[0]):
                        via_try = True
                        for sw, tg, oth in switch_on_call_result(b, x):
                            out.append(tg.get(0, oth))
                if not via_try:
                    for sw, tg, oth in switch_on_call_result(b, c):
                        # discriminant of Result: 0 = Ok; the Ok edge may also be the `otherwise` of an `if let Err`
                        ok_t = tg.get(0)
                        if ok_t is None and 1 in tg:
                            ok_t = oth
                        if ok_t is not None:
                            out.append(ok_t)
        return out

    def dirty(b, stack=()):
        """list of witnesses (body, bb, what) where bytes may be written before a verdict"""
        if b.def_ in memo:
            return memo[b.def_]
        if b.def_ in stack:
            return []
        memo[b.def_] = []
        ws = V[b.def_][1]
        pr = Prov(b)
        dom = b.dominators()
        vt = verdict_target(b)
        res = []
        for c in b.calls():
            uses_w = [ai for ai, a in enumerate(c.args) if any(o[0] == "arg" and o[1] in ws and not o[2] for o in pr.operand(a))]
            if not uses_w:
                continue
            after = any(dominates(b, t, c.bb, dom) for t in vt)
            if after:
                continue
            if c.is_trait_method("Write"):
                res.append((b, c.bb, "io::Write::%s" % c.name))
                continue
            subs = [sb for sb in local_callee_bodies(F, c) if sb.def_ in V]
            if subs:
                for sb in subs:
                    res += dirty(sb, stack + (b.def_,))
            elif c.is_trait_method("Format") or c.is_trait_method("SampledFormat"):
                # delegating to another formatter (trait call on self.emf): that formatter is subject to the same rule
                continue
            else:
                if not (c.def_.startswith("core::") or c.def_.startswith("tracing")):
                    res.append((b, c.bb, "writer handed to `%s`" % c.def_))
        memo[b.def_] = res
        return res

    entries = [b for b, ws in V.values() if b.impl and ((b.impl.get("trait") or "").endswith("::Format") or (b.impl.get("trait") or "").endswith("::SampledFormat"))]
    ctx.floor(rule, "Format entry points", len(entries), 2)
    for b in entries:
        w = dirty(b)
        ctx.check(not w, rule, fnkey(b) + "#verdict-before-bytes", loc(b),
                  "output can be written before the validation verdict is known: %s" % (["%s @ %s" % (x[2], loc(x[0], x[1])) for x in w][:3]),
                  "every use of the writer is dominated by the success edge of ValidationErrorBuilder::build()?")
    # establishing bodies
    est = [b for b, ws in V.values() if verdict_target(b)]
    ctx.floor(rule, "bodies establishing the validation verdict", len(est), 1)


def _param_only_via(b, argl, producers):
    """parameter argl is only used as an argument of the given producer calls (e.g. serde_json::to_string(input))"""
    pr = Prov(b)
    for c in b.calls():
        for a in c.args:
            if any(o[0] == "arg" and o[1] == argl for o in pr.operand(a)):
                if not (c.def_ in producers or c.name in ("deref", "as_ref", "iter", "into_iter", "clone", "len", "is_empty", "as_str")):
                    return False
    return True


def _last_buffer_of_vectored(b, c):
    """field path (of self) of the last element of the buffer list given to write_all_vectored; None if the construction
    sites disagree or cannot be resolved"""
    pr = Prov(b)
    dom = b.dominators()
    start = op_local(c.args[0]) if c.args else None
    seen, work, cands = set(), [start], []
    while work:
        l = work.pop()
        if l is None or l in seen:
            continue
        seen.add(l)
        for kind, bb, idx, node in b.defs().get(l, []):
            if b.is_cleanup(bb):
                continue
            if kind == "assign" and node["k"] == "assign":
                rv = node["rv"]
                if rv["k"] == "agg" and rv.get("agg") == "array" and rv["ops"]:
                    cands.append(pr.operand(rv["ops"][-1]))
                elif rv["k"] in ("use", "cast"):
                    work.append(op_local(rv["op"]))
                elif rv["k"] == "agg":
                    for o in rv["ops"]:
                        work.append(op_local(o))
            elif kind == "call":
                for a in node["args"]:
                    work.append(op_local(a))
        # writes through pointers into l (vec! builds the boxed array in place): `(*l).f = [a, b, c]`
        for i in b.live_blocks():
            for s in b.stmts(i):
                if s["k"] == "assign" and s["lhs"]["l"] == l and s["lhs"].get("p") and s["rv"]["k"] == "agg" and s["rv"].get("agg") == "array" and s["rv"]["ops"]:
                    cands.append(pr.operand(s["rv"]["ops"][-1]))
        pushes = [x for x in b.calls() if x.name == "push" and "smallvec" in x.def_ and _recv_local(b, x) == l and dominates(b, x.bb, c.bb, dom) is not None]
        if pushes:
            lastp = max(pushes, key=lambda x: len([y for y in pushes if dominates(b, y.bb, x.bb, dom)]))
            cands.append(pr.operand(lastp.args[1]))
    fields = set()
    for o in cands:
        fs = {x[2] for x in o if x[0] == "arg" and x[2]}
        if len(fs) != 1:
            return None
        fields |= fs
    return fields.pop() if len(fields) == 1 else None


def _recv_local(b, cs):
    from mq.prov import single_def_ref_target
    l = op_local(cs.args[0])
    if l is None:
        return None
    t = single_def_ref_target(b, l)
    return t["l"] if t is not None and not t.get("p") else None


def _sink_id(b, c):
    """stable ordinal of a call among same-named calls of the body (no line numbers)"""
    same = [x for x in b.calls() if x.def_ == c.def_]
    return "%s%d" % (c.name, same.index(c)) if c in same else c.name


def _fmt_origin(o):
    if o[0] == "call":
        return "result of `%s`" % o[1]
    if o[0] == "arg":
        return "parameter %s%s" % (o[1], "." + ".".join(o[2]) if o[2] else "")
    return str(o)


def _buf_role(bid):
    if bid is None:
        return "?"
    if bid[0] == "arg":
        return "arg%d%s" % (bid[1], "." + ".".join(bid[2]) if bid[2] else "")
    return "local" + ("." + ".".join(bid[2]) if bid[2] else "")

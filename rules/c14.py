"""C14 — formatting one entry never depends on entries formatted before it (fully structural)."""
from mq.util import *
from mq.prov import Prov, single_def_ref_target
from mq.facts import CallSite, strip_generics

EXPL = ("State of an EMF formatter = fields of the Format implementor and of the state structs it owns. R14.1 classifies every "
        "such field by analysis: a field with any write / mutable borrow in code reachable from Format::format, "
        "format_with_sample_rate or the EntryWriter/ValueWriter callbacks is scratch, otherwise configuration (never written after "
        "build). R14.2: every use of a scratch field is (a) preceded on all paths by a reset of that field in the same call "
        "(reset in the entry body dominating the creation of the per-call writer, or a reset dominating the use in the body / "
        "callee the buffer is handed to) or (b) followed on every path to the exit by a reset. R14.3: the per-call writer is built "
        "from constants, parameters and configuration only. R14.4: the crate has no other mutable statics than rate-limiter stamps "
        "and tracing callsites. The sampled formatter's RNG is state by design and excluded.")

CR = "metrique_writer_format_emf"
RESET_NAMES = ("clear",)


def carriers(F):
    """carrier ADTs (Format implementors and the composite state structs reachable through their fields)"""
    roots = set()
    for imp in F.impls_of("Format") + F.impls_of("SampledFormat"):
        if imp["crate"] == CR and (imp.get("self_head") or {}).get("adt"):
            roots.add(imp["self_head"]["adt"])
    has_clear = set()
    for b in F.all_bodies(CR):
        if b.name in RESET_NAMES and b.impl and not b.impl.get("trait"):
            has_clear.add((b.impl.get("self_head") or {}).get("adt"))
    out = set()
    work = list(roots)
    while work:
        a = work.pop()
        if a in out or a in has_clear:
            continue
        adt = F.adts.get(a)
        if not adt or adt["crate"] != CR:
            continue
        out.add(a)
        for v in adt["variants"]:
            for f in v["fields"]:
                h = f.get("head", {})
                if h.get("adt") and not h.get("refs"):
                    work.append(h["adt"])
    return roots, out, has_clear


def reachable_bodies(F):
    roots = []
    for b in F.all_bodies(CR):
        tr = ((b.impl or {}).get("trait") or "")
        if tr.endswith("::Format") or tr.endswith("::SampledFormat") or tr.endswith("::EntryWriter") or tr.endswith("::ValueWriter"):
            if "::tests::" not in b.path:
                roots.append(b)
    seen = {}
    work = list(roots)
    while work:
        b = work.pop()
        if b.def_ in seen:
            continue
        seen[b.def_] = b
        for c in b.calls():
            for sb in local_callee_bodies(F, c) + closure_args(F, c):
                if sb.crate == CR and sb.def_ not in seen:
                    work.append(sb)
        for cb in F.closures_of(b):
            if cb.def_ not in seen:
                work.append(cb)
    return roots, list(seen.values())


def field_elems(place, carrier_set):
    return [(i, e) for i, e in enumerate(place.get("p", [])) if e[0] == "f" and e[3] in carrier_set]


class Use:
    def __init__(self, body, bb, idx, kind, place=None, local=None):
        self.body, self.bb, self.idx, self.kind = body, bb, idx, kind   # kind: reset | write | mut | read
        self.place, self.local = place, local

    def pos(self):
        return (self.bb, self.idx)


def ref_consumer_calls(body, r, depth=4):
    """calls that receive reference local r (following moves / reborrows): list of (bb, term, argidx)"""
    out = []
    seen = set()
    work = [r]
    while work and depth:
        l = work.pop()
        if l in seen:
            continue
        seen.add(l)
        for i in range(body.nblocks):
            if body.is_cleanup(i):
                continue
            for s in body.stmts(i):
                if s["k"] != "assign" or s["lhs"].get("p"):
                    continue
                rv = s["rv"]
                if rv["k"] in ("use", "cast") and op_local(rv["op"]) == l:
                    work.append(s["lhs"]["l"])
                elif rv["k"] == "ref" and rv["place"]["l"] == l and [e[0] for e in rv["place"].get("p", [])] == ["deref"]:
                    work.append(s["lhs"]["l"])
            t = body.term(i)
            if t["k"] == "call":
                for ai, a in enumerate(t["args"]):
                    if op_local(a) == l:
                        out.append((i, t, ai))
    return out


def ref_aliases(body, r):
    """locals holding the reference r or a reborrow / move of it"""
    seen, work = set(), [r]
    while work:
        l = work.pop()
        if l in seen:
            continue
        seen.add(l)
        for i in range(body.nblocks):
            if body.is_cleanup(i):
                continue
            for s in body.stmts(i):
                if s["k"] != "assign" or s["lhs"].get("p"):
                    continue
                rv = s["rv"]
                if rv["k"] in ("use", "cast") and op_local(rv["op"]) == l:
                    work.append(s["lhs"]["l"])
                elif rv["k"] == "ref" and rv["place"]["l"] == l and [e[0] for e in rv["place"].get("p", [])] == ["deref"]:
                    work.append(s["lhs"]["l"])
    return seen


def classify_borrow(body, bb, idx, s):
    """a `&mut place` statement: is the borrow handed (only) to a reset call as receiver?"""
    cons = ref_consumer_calls(body, s["lhs"]["l"])
    if cons and all(ai == 0 and (t.get("callee") or {}).get("name") in RESET_NAMES for _, t, ai in cons):
        return "reset", cons
    return "mut", cons


def bundle_escape(F, body, r):
    """reference local r is stored in a field of a private struct of the crate that this body returns (a bundle of buffer references
    handed back to the caller): the field name, else None"""
    al = ref_aliases(body, r)
    for i in body.live_blocks():
        for s in body.stmts(i):
            if s["k"] == "assign" and s["rv"]["k"] == "agg" and s["rv"].get("agg") == "adt" and s["rv"].get("fields") and \
                    (s["rv"].get("adt") or "").startswith(CR + "::"):
                hit = [f for o, f in zip(s["rv"]["ops"], s["rv"]["fields"]) if op_local(o) in al]
                if not hit:
                    continue
                l = s["lhs"]["l"]
                if s["lhs"].get("p"):
                    continue
                if l == 0 or any(x[0] == "agg" and x[1] == s["rv"].get("adt") for x in Prov(body).local(0)):
                    return hit[0]
    return None


def pos_dominates(body, dom, a, b):
    if a[0] == b[0]:
        return a[1] < b[1]
    return b[0] in dom and a[0] in dom[b[0]]


def param_uses(body, p, field=None):
    """uses of a `&mut Buffer` parameter local p (or of the buffer reference in field `field` of a by-value bundle parameter p) inside
    body: list of Use (reset / forward / mut)"""
    pr = Prov(body)
    out = []
    for c in body.calls():
        for ai, a in enumerate(c.args):
            o = pr.operand(a)
            if any(x[0] == "arg" and x[1] == p and (x[2] == (field,) if field else not x[2]) for x in o):
                kind = "reset" if (ai == 0 and c.name in RESET_NAMES) else "mut"
                u = Use(body, c.bb, len(body.stmts(c.bb)), kind)
                u.call, u.argidx = c, ai
                out.append(u)
    return out


def uses_clean(F, body, uses, depth=3):
    """every non-reset use is dominated by a reset use in this body (a), or followed by a reset on every path to Return (b),
    or is a hand-off to a callee parameter for which the same holds. returns list of offending uses"""
    dom = body.dominators()
    resets = [u for u in uses if u.kind == "reset"]
    # handing the buffer to a private helper that resets it first, on every path, is a reset at that point too (for the uses that follow)
    if depth > 0:
        for u in uses:
            c = getattr(u, "call", None)
            if u.kind == "reset" or c is None:
                continue
            subs = [sb for sb in local_callee_bodies(F, c) if sb.crate == CR]
            ok_all = bool(subs)
            for sb in subs:
                pu = param_uses(sb, u.argidx + 1, getattr(u, "field", None))
                prs = [x for x in pu if x.kind == "reset"]
                sdom = sb.dominators()
                if not prs or not sb.must_pass([x.bb for x in prs]) or any(
                        x.kind != "reset" and not any(pos_dominates(sb, sdom, r.pos(), x.pos()) for r in prs) for x in pu):
                    ok_all = False
            if ok_all:
                v = Use(body, u.bb, u.idx, "reset")
                resets.append(v)
    bad = []
    for u in uses:
        if u.kind == "reset":
            continue
        if any(pos_dominates(body, dom, r.pos(), u.pos()) for r in resets):
            continue
        # hand-off to a workspace callee?
        c = getattr(u, "call", None)
        if c is not None and depth > 0:
            subs = [sb for sb in local_callee_bodies(F, c) if sb.crate == CR]
            fld_ = getattr(u, "field", None)
            if subs and all(not uses_clean(F, sb, param_uses(sb, u.argidx + 1, fld_), depth - 1) and param_uses(sb, u.argidx + 1, fld_) for sb in subs):
                # callee resets before its own first use; but it may leave it dirty: fine, next user resets first too
                continue
        # (b) reset after use on every path
        later = [r for r in resets if r.bb != u.bb or r.idx > u.idx]
        if later and body.must_pass([r.bb for r in later], start=u.bb if any(r.bb == u.bb for r in later) else (body.succ(u.bb)[0] if len(body.succ(u.bb)) == 1 else u.bb)):
            u.after_only = True
            continue
        bad.append(u)
    return bad


def run(ctx, only_fields=None, rule_prefix="R14"):
    """only_fields (a tuple of names or a predicate (adt, field) -> bool) / rule_prefix: lets C03 reuse the reset-before-use analysis for the buffers that carry the dimension sets"""
    R1, R2, R3, R4 = (rule_prefix + ".1", rule_prefix + ".2", rule_prefix + ".3", rule_prefix + ".4") if rule_prefix == "R14" else (rule_prefix,) * 4
    F = ctx.facts("dbg")
    roots, carr, bufs = carriers(F)
    ctx.floor(R1, "Format implementors in the EMF crate", len(roots), 2)
    entry_roots, bodies = reachable_bodies(F)
    ctx.floor(R1, "bodies reachable from format / writer callbacks", len(bodies), 25)
    # ---- collect accesses per (adt, field)
    acc = {}
    for b in bodies:
        for i in range(b.nblocks):
            if b.is_cleanup(i):
                continue
            for j, s in enumerate(b.stmts(i)):
                if s["k"] != "assign":
                    continue
                fe = field_elems(s["lhs"], carr)
                if fe:
                    k, e = fe[-1]
                    acc.setdefault((e[3], e[2]), []).append(Use(b, i, j, "write", s["lhs"]))
                rv = s["rv"]
                pls = []
                if rv["k"] in ("ref", "rawptr", "discr"):
                    pls.append((rv["place"], rv["k"] in ("ref", "rawptr") and rv.get("mut")))
                for o in _ops(rv):
                    p = op_place(o)
                    if p is not None:
                        pls.append((p, False))
                for p, is_mut in pls:
                    fe = field_elems(p, carr)
                    if not fe:
                        continue
                    k, e = fe[-1]
                    key = (e[3], e[2])
                    if is_mut:
                        kind, cons = classify_borrow(b, i, j, s)
                        u = Use(b, i, j, kind, p, s["lhs"]["l"])
                        u.cons = cons
                        acc.setdefault(key, []).append(u)
                    else:
                        acc.setdefault(key, []).append(Use(b, i, j, "read", p))
            t = b.term(i)
            if t["k"] == "call":
                for a in t["args"]:
                    p = op_place(a)
                    if p is not None:
                        fe = field_elems(p, carr)
                        if fe:
                            k, e = fe[-1]
                            acc.setdefault((e[3], e[2]), []).append(Use(b, i, len(b.stmts(i)), "read", p))
    # ---- classification
    all_fields = []
    for a in sorted(carr):
        for v in F.adts[a]["variants"]:
            for f in v["fields"]:
                all_fields.append((a, f["name"], f))
    ctx.floor(R1, "state fields of the formatter", len(all_fields), 15)
    scratch, config = [], []
    for a, fn, f in all_fields:
        h = f.get("head", {})
        if h.get("adt") in carr and not h.get("refs"):
            continue        # carrier of carriers: its own fields are classified individually
        if fn == "rng":
            ctx.note("R14.1: %s.%s excluded (documented randomness)" % (a, fn))
            continue
        us = acc.get((a, fn), [])
        if any(u.kind in ("write", "mut", "reset") for u in us):
            scratch.append((a, fn, us))
        else:
            config.append((a, fn))
            if only_fields is None:
                ctx.ok(R1, "%s.%s#configuration" % (a, fn), "", "no write or mutable borrow reachable from format (%d reads)" % len(us))
    ctx.floor(R1, "scratch fields discovered", len(scratch), 5)
    # ---- the entry body: where the per-call writer borrows the whole state
    root_body = None
    u_pos = None
    whole_borrows = []
    ctor_calls = []
    for b in bodies:
        for i in range(b.nblocks):
            if b.is_cleanup(i):
                continue
            for j, s in enumerate(b.stmts(i)):
                if s["k"] == "assign" and s["rv"]["k"] == "ref" and s["rv"].get("mut"):
                    fe = field_elems(s["rv"]["place"], carr)
                    # `&mut self.<field holding the composite state struct>` of a Format implementor (identified by type, not by name)
                    if fe and fe[-1][0] == len(s["rv"]["place"]["p"]) - 1 and fe[-1][1][3] in roots and \
                            any(fe[-1][1][4] == c_ or fe[-1][1][4].startswith(c_ + "<") for c_ in carr if c_ not in roots):
                        # the borrow that is stored in the per-call writer (an aggregate), not one handed to a helper for the call's duration
                        l_ = s["lhs"]["l"]
                        al_ = ref_aliases(b, l_)
                        into_agg = any(s2["k"] == "assign" and s2["rv"]["k"] == "agg" and any(op_local(o) in al_ for o in s2["rv"]["ops"])
                                       for i2 in b.live_blocks() for s2 in b.stmts(i2))
                        # ... or is handed to a private constructor that returns the per-call writer (a struct of the crate keeping the borrow)
                        for cb_, t_, ai_ in ref_consumer_calls(b, l_):
                            dl_ = t_.get("dest")
                            if dl_ and not dl_.get("p"):
                                wa_ = F.adts.get((b.locals[dl_["l"]].get("head") or {}).get("adt") or "")
                                if wa_ and wa_["crate"] == CR and any(f_["ty"].startswith("&") and "mut" in f_["ty"][:12] and any(c_ in f_["ty"] for c_ in carr)
                                                                       for v_ in wa_["variants"] for f_ in v_["fields"]):
                                    into_agg = True
                                    ctor_calls.append((b, cb_, t_))
                        if into_agg or root_body is None:
                            root_body, u_pos = b, (i, j)
                        if not into_agg:
                            whole_borrows.append((b, i, j, l_))
    ctx.check(root_body is not None, R2, "entry-body#whole-state-borrow", "", "cannot find the body that lends the formatter state to the per-call writer")
    # a helper that is lent the whole state before the per-call writer exists and resets fields of it on every path
    # (`self.state.reset_for_next_entry()`) counts as those resets, at the position of its call
    helper_resets = {}      # field name -> [Use in root_body]
    if root_body is not None:
        for b_, i_, j_, l_ in whole_borrows:
            if b_ is not root_body:
                continue
            for cb_, t_, ai_ in ref_consumer_calls(root_body, l_):
                for hb in local_callee_bodies(F, CallSite(root_body, cb_, t_)):
                    if hb.crate != CR:
                        continue
                    for (a2, fn2), us2 in acc.items():
                        mine = [u for u in us2 if u.body is hb]
                        rs = [u for u in mine if u.kind == "reset" and u.place is not None and u.place["l"] == ai_ + 1]
                        if not rs or not hb.must_pass([u.bb for u in rs]):
                            continue
                        hdom = hb.dominators()
                        if any(u.kind != "reset" and not any(pos_dominates(hb, hdom, r.pos(), u.pos()) for r in rs) for u in mine):
                            continue
                        helper_resets.setdefault((a2, fn2), []).append(Use(root_body, cb_, len(root_body.stmts(cb_)), "reset"))
    # ... and a private constructor of the per-call writer that resets the state it is lent before it builds the writer (itself, or by
    # calling such a reset helper on it): `EntryWriter::begin(&mut self.state, ..)` { state.reset_for_entry(); EntryWriter { state, .. } }
    if root_body is not None and u_pos is not None:
        for b_, cb_, t_ in ctor_calls:
            if b_ is not root_body:
                continue
            for hb in local_callee_bodies(F, CallSite(root_body, cb_, t_)):
                if hb.crate != CR:
                    continue
                hpr = Prov(hb)
                ps = [i_ for i_ in range(1, hb.arg_count + 1) if hb.locals[i_]["ty"].startswith("&mut ") and any(c_ in hb.locals[i_]["ty"] for c_ in carr if c_ not in roots)]
                for p_ in ps:
                    for (a2, fn2), us2 in acc.items():
                        mine = [u for u in us2 if u.body is hb]
                        sites = [u.bb for u in mine if u.kind == "reset" and u.place is not None and u.place["l"] == p_]
                        for c2 in hb.calls():
                            if not (c2.args and any(x[0] == "arg" and x[1] == p_ and not x[2] for x in hpr.operand(c2.args[0]))):
                                continue
                            for h2 in local_callee_bodies(F, c2):
                                m2 = [u for u in us2 if u.body is h2]
                                r2 = [u for u in m2 if u.kind == "reset" and u.place is not None and u.place["l"] == 1]
                                if h2.crate == CR and r2 and h2.must_pass([u.bb for u in r2]) and not any(
                                        u.kind != "reset" and not any(pos_dominates(h2, h2.dominators(), r.pos(), u.pos()) for r in r2) for u in m2):
                                    sites.append(c2.bb)
                        if not sites or not hb.must_pass(sites):
                            continue
                        hdom = hb.dominators()
                        if any(u.kind not in ("reset",) and not any(dominates(hb, sb_, u.bb, hdom) for sb_ in sites) and u.place is not None and u.place["l"] == p_ for u in mine):
                            continue
                        helper_resets.setdefault((a2, fn2), []).append(Use(root_body, u_pos[0], max(u_pos[1] - 1, -1), "reset"))
    # ---- R14.2 per scratch field
    for a, fn, us in scratch:
        us = us + helper_resets.get((a, fn), [])
        if only_fields is not None and not (only_fields(a, fn) if callable(only_fields) else fn in only_fields):
            continue
        key = "%s.%s#clean-at-first-use" % (a, fn)
        # (a) reset in the entry body dominating the creation of the per-call writer
        if root_body is not None:
            dom = root_body.dominators()
            pre = [u for u in us if u.body is root_body and u.kind == "reset" and pos_dominates(root_body, dom, u.pos(), u_pos)]
            if pre:
                # every use in the entry body before the borrow must be a reset (or dominated by one)
                early = [u for u in us if u.body is root_body and u.kind != "reset" and not any(pos_dominates(root_body, dom, r.pos(), u.pos()) for r in pre)]
                ctx.check(not early, R2, key, loc(root_body, pre[0].bb),
                          "scratch field %s is used in the entry body before it is reset" % fn,
                          "reset at the start of every call (dominates the per-call writer), %d uses downstream" % len(us))
                continue
        # (a-local)/(b): every body touching the field
        bad_all = []
        how = []
        by_body = {}
        for u in us:
            by_body.setdefault(u.body.def_, (u.body, []))[1].append(u)
        for bd, (b, bus) in by_body.items():
            # mutable borrows handed to callees become param-level obligations
            enriched = []
            for u in bus:
                fld = bundle_escape(F, b, u.local) if u.kind == "mut" and not getattr(u, "cons", None) and u.local is not None else None
                if fld is not None:
                    # the borrow leaves this body inside a returned bundle: the obligation moves to whoever the caller hands the bundle to
                    n_moved = 0
                    for cb_ in bodies:
                        for c_ in cb_.calls():
                            if b not in local_callee_bodies(F, c_) or c_.dest.get("p"):
                                continue
                            moved = []
                            for cb2, t2, ai2 in ref_consumer_calls(cb_, c_.dest["l"]):
                                uu = Use(cb_, cb2, len(cb_.stmts(cb2)), "mut")
                                uu.call, uu.argidx, uu.field = CallSite(cb_, cb2, t2), ai2, fld
                                moved.append(uu)
                            n_moved += len(moved)
                            bad_all += uses_clean(F, cb_, moved)
                    if n_moved:
                        how.append("%s: returned in a bundle (.%s), %d consumer(s)" % (b.name, fld, n_moved))
                        continue
                if u.kind == "mut" and getattr(u, "cons", None):
                    for cb, t, ai in u.cons:
                        uu = Use(b, cb, len(b.stmts(cb)), "mut")
                        uu.call, uu.argidx = CallSite(b, cb, t), ai
                        enriched.append(uu)
                else:
                    enriched.append(u)
            bad = uses_clean(F, b, enriched)
            bad_all += bad
            how.append("%s: %d use(s)" % (b.name, len(bus)))
        if bad_all:
            u = bad_all[0]
            ctx.bad(R2, key, loc(u.body, u.bb),
                    "scratch field `%s` of the formatter is used in %s without a reset of it earlier in the same call (nor a reset on every "
                    "path after the use): its content can leak from a previously formatted entry" % (fn, u.body.path))
        else:
            ctx.ok(R2, key, "", "reset before (or after) every use in the bodies that touch it: " + "; ".join(how))
    if only_fields is not None:
        return EXPL
    # ---- R14.3 per-call writer is fresh
    if root_body is not None:
        pr = Prov(root_body)
        scratch_names = {fn for a, fn, _ in scratch}
        nagg = 0
        for i in root_body.live_blocks():
            for s in root_body.stmts(i):
                if s["k"] == "assign" and s["rv"]["k"] == "agg" and s["rv"].get("agg") == "adt" and F.adts.get(s["rv"].get("adt"), {}).get("crate") == CR:
                    nagg += 1
                    for fname, op in zip(s["rv"].get("fields", []), s["rv"]["ops"]):
                        o = pr.operand(op)
                        leak = [x for x in o if x[0] == "arg" and x[1] == 1 and x[2] and x[2][-1] in scratch_names]
                        ctx.check(not leak, R3, "%s.%s#fresh" % (s["rv"]["adt"], fname), loc(root_body, i),
                                  "per-call writer field `%s` is initialised from scratch state %s" % (fname, leak))
        # the writer may be built by a private constructor: its arguments are judged the same way (the lent state itself excepted)
        for cb0, cbb, ct in ctor_calls:
            if cb0 is not root_body:
                continue
            nagg += 1
            for ai_, op in enumerate(ct.get("args", [])):
                o = pr.operand(op)
                leak = [x for x in o if x[0] == "arg" and x[1] == 1 and x[2] and x[2][-1] in scratch_names]
                ctx.check(not leak, R3, "%s.arg%d#fresh" % ((ct.get("callee") or {}).get("name"), ai_), loc(root_body, cbb),
                          "argument %d of the per-call writer's constructor is initialised from scratch state %s" % (ai_, leak))
        ctx.floor(R3, "per-call writer aggregates in the entry body", nagg, 1)
    # ---- R14.4 statics
    for st in F.statics:
        if st["crate"] != CR:
            continue
        ty = st["ty"]
        ok = ("tracing_core::callsite" in ty or "tracing::" in ty or ty.startswith("core::sync::atomic::Atomic<u64>") or
              "tracing_core::metadata::Metadata" in ty or "tracing_core::field" in ty or
              ("::rate_limit::" in st["def"] and ty == "std::sync::once_lock::OnceLock<std::time::Instant>"))
        ctx.check(ok and not st.get("thread_local") and not st.get("mutable"), R4, strip_generics(st["def"]) + "#static", st["span"]["file"],
                  "unexpected static `%s: %s` in the formatter crate (hidden cross-call memory)" % (st["def"], ty))
    return EXPL


def _ops(rv):
    k = rv["k"]
    if k in ("use", "cast", "repeat"):
        return [rv["op"]]
    if k == "binop":
        return [rv["a"], rv["b"]]
    if k == "unop":
        return [rv["a"]]
    if k == "agg":
        return rv["ops"]
    return []

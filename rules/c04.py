"""C04 — flush barrier (safety skeleton): flush before wake, accounting fed by the drain, dead queue never panics."""
from mq.util import *
from mq.prov import Prov, place_fields, has_deref
from rules.c01 import in_bg
from rules.c05 import shutdown_summary, is_pop, is_stream_flush, find_thread_entries

EXPL = ("R04.1 every clear/drop of the waiting-waker vector is dominated by the stream flush (through the flush closure, "
        "which must flush on every path), and at thread exit the tracker is dropped only after the shutdown routine's final "
        "flush; R04.3 the tracker is fed the result of the immediately preceding drain and a ring-derived bound; R04.6 the status (or the flag condensed from it) that makes the tracker complete the waiting requests is "
        "true only for the drain outcome built on the ring-empty exit; R04.4 inside the tracker the entries-before-wake "
        "counter is (i) decremented by exactly the entry-count parameter, (ii) set to a constant only where the waiting wakers are released, "
        "(iii) armed with the pure ring bound on every path from the collection of new signals to the exit; R04.5 a flush "
        "request on a dead queue neither unwraps the send result nor the awaited receiver, and the signal type owns the oneshot "
        "sender. Not decided: the happens-before relation across the three threads and bounded-progress liveness.")
BG = "metrique_writer"
BGMOD = "metrique_writer::sink::background::"


def waker_vec_fields(F):
    """(adt def, field name) of Vec<X> fields where X owns a tokio oneshot Sender"""
    sig = [a["def"] for a in F.adts.values() if a["crate"] == BG and
           any("tokio::sync::oneshot::Sender" in f["ty"] for v in a["variants"] for f in v["fields"])]
    out = []
    for a in F.adts.values():
        if a["crate"] != BG:
            continue
        for v in a["variants"]:
            for f in v["fields"]:
                if f["ty"].startswith("alloc::vec::Vec<") and any(s in f["ty"] for s in sig):
                    out.append((a["def"], f["name"]))
    return sig, out


def waker_holders(F, wv):
    """(adt, field) of `Option<S>` fields where S is the struct that owns a waiting-waker vector: the representation
    `pending: Option<Pending { wakers, entries_before_wake }>`, in which `no wakers waiting` is None and releasing the wakers is
    overwriting the field with None (the old value, and every signal in it, is dropped)"""
    owners = {a for a, _ in wv}
    out = []
    for a in F.adts.values():
        if a["crate"] != BG or a["def"] in owners:
            continue
        for v in a["variants"]:
            for f in v["fields"]:
                if f["ty"].startswith("core::option::Option<") and any(f["ty"] == "core::option::Option<%s>" % o for o in owners):
                    out.append((a["def"], f["name"]))
    return out


class _Overwrite:
    """release of the waiting wakers by overwriting their holder with None; stands where a call site stands for `clear()`"""
    def __init__(self, bb):
        self.bb, self.name = bb, "overwritten with None (drops the signals)"


def holder_overwrites(F, b, holders, pr=None):
    """blocks of b in which a holder field reached from a parameter is assigned None"""
    out = []
    pr = pr or Prov(b)
    hn = {fn for _, fn in holders}
    for i in b.live_blocks():
        for st in b.stmts(i):
            if st["k"] != "assign" or not st["lhs"].get("p"):
                continue
            fs = [e for e in st["lhs"]["p"] if e[0] == "f"]
            if not fs or fs[-1] is not [e for e in st["lhs"]["p"]][-1] or fs[-1][2] not in hn or not any((fs[-1][3], fs[-1][2]) == h for h in holders):
                continue
            rv = st["rv"]
            o = pr.operand(rv["op"]) if rv["k"] == "use" else ({("agg", rv.get("adt"), rv.get("variant"))} if rv["k"] == "agg" else set())
            if any(x[0] == "agg" and x[2] == "None" for x in o) and not any(x[0] == "agg" and x[2] == "Some" for x in o):
                out.append(_Overwrite(i))
    return out


def bound_fields(F, wv):
    """usize fields of the tracker that hold the ring bound: set once in a constructor from ArrayQueue::capacity (or len), never
    stored to by any method.  Returns {field: 'capacity' | 'len-early'}"""
    out = {}
    for adt_def, _ in wv:
        adt = F.adts.get(adt_def)
        if not adt:
            continue
        uf = [f["name"] for v in adt["variants"] for f in v["fields"] if f["ty"] == "usize"]
        for fn_ in uf:
            stored = False
            init = []         # (body, operand)
            for b in F.all_bodies(BG):
                for i in b.live_blocks():
                    for s_ in b.stmts(i):
                        if s_["k"] != "assign":
                            continue
                        if any(e[0] == "f" and e[2] == fn_ and len(e) > 3 and e[3] == adt_def for e in s_["lhs"].get("p", [])):
                            stored = True
                        if s_["rv"]["k"] == "agg" and s_["rv"].get("adt") == adt_def and fn_ in (s_["rv"].get("fields") or []):
                            init.append((b, s_["rv"]["ops"][s_["rv"]["fields"].index(fn_)]))
            if stored or not init:
                continue
            kind = None
            for b, op in init:
                pr = Prov(b)
                for x in pr.operand(op):
                    if x[0] == "call":
                        c = _cs_at(b, x[1])
                        if c.is_in("crossbeam_queue", "ArrayQueue::capacity"):
                            kind = "capacity"
                        elif c.is_in("crossbeam_queue", "ArrayQueue::len"):
                            kind = "len-early"
                    elif x[0] == "arg" and not x[2]:
                        # constructor parameter: look at the callers
                        for cs in F.callers_of(b.path, crates=[BG]):
                            if x[1] - 1 < len(cs.args):
                                for y in Prov(cs.body).operand(cs.args[x[1] - 1]):
                                    if y[0] == "call":
                                        c = _cs_at(cs.body, y[1])
                                        if c.is_in("crossbeam_queue", "ArrayQueue::capacity"):
                                            kind = kind or "capacity"
                                        elif c.is_in("crossbeam_queue", "ArrayQueue::len"):
                                            kind = "len-early"
            if kind:
                out[fn_] = kind
    return out


def drain_status(F):
    """(status enums, bundle structs): the crate-local enum a drain routine (a body of the background module that pops from the ring)
    reports its outcome with - returned as such, inside a tuple, or as a field of a small private struct - and those structs"""
    c_ = getattr(F, "_drain_status", None)
    if c_ is None:
        enums, bundles = set(), set()
        cand = {d for d, a in F.adts.items() if a["crate"] == BG and len(a["variants"]) >= 2 and all(not v["fields"] for v in a["variants"])}
        for b in F.all_bodies(BG):
            if not in_bg(F, b) or not any(is_pop(c) for c in b.calls()):
                continue
            out = b.d.get("output") or ""
            for d in cand:
                if d in out:
                    enums.add(d)
            for d, a in F.adts.items():
                if a["crate"] == BG and len(a["variants"]) == 1 and (out == d or out.startswith(d + "<")):
                    ftys = [f["ty"] for f in a["variants"][0]["fields"]]
                    for e in cand:
                        if e in ftys:
                            enums.add(e)
                            bundles.add(d)
        c_ = (enums, bundles)
        F._drain_status = c_
    return c_


def run(ctx):
    F = ctx.facts("dbg")
    sig, wv = waker_vec_fields(F)
    ctx.floor("R04.1", "flush-signal types owning a oneshot sender", len(sig), 1)
    ctx.floor("R04.1", "waiting-waker vectors", len(wv), 1)
    wake_ops = ("clear", "drain", "truncate", "pop", "remove", "swap_remove", "retain", "split_off")
    holders = waker_holders(F, wv)
    trackers = []
    for b in F.all_bodies(BG):
        if not in_bg(F, b):
            continue
        pr = None
        for c in b.calls():
            if not (c.is_in("alloc::vec", *["Vec::" + w for w in wake_ops]) or c.is_("core::mem::take", "core::mem::replace", "core::option::Option::<T>::take")):
                continue
            if not c.args:
                continue
            pr = pr or Prov(b)
            o = pr.operand(c.args[0])
            if not any(x[0] == "arg" and x[2] and any(x[2][-1] == fn for _, fn in wv + holders) for x in o):
                continue
            trackers.append((b, c))
        if holders:
            for ow in holder_overwrites(F, b, holders, pr):
                trackers.append((b, ow))
    ctx.floor("R04.1", "sites releasing the waiting wakers", len(trackers), 1)
    tracker_bodies = {}
    impl_flush = set()         # (tracker body, parameter) whose flush action is a trait method verified through its implementations
    virtual_release = {}      # body def -> call blocks of helpers that release the wakers
    for b, c in trackers:
        dom = b.dominators()
        key = fnkey(b) + "#flush-dominates-wake"
        # flush = call_once on a closure-typed parameter, or a direct call reaching EntryIoStream::flush
        flushers = []
        for x in b.calls():
            if x.is_trait_method("FnOnce", "call_once") or x.is_trait_method("FnMut", "call_mut") or x.is_trait_method("Fn", "call"):
                l = op_local(x.args[0]) if x.args else None
                src = Prov(b).operand(x.args[0]) if x.args else set()
                params = [o[1] for o in src if o[0] == "arg"]
                if params:
                    flushers.append((x, params[0]))
            elif always_reaches(F, b, is_stream_flush, 0) and is_stream_flush(x):
                flushers.append((x, None))
            elif x.args and x.trait and (x.trait or "").startswith(BG):
                # the flush action as a method of a private one-purpose trait called on a parameter (`flusher.flush_stream()`): every
                # implementation in the workspace flushes the stream on every path
                src = Prov(b).operand(x.args[0])
                params = [o[1] for o in src if o[0] == "arg" and not o[2]]
                impls_ = [hb for hb in local_callee_bodies(F, x) if hb.crate == BG]
                if params and impls_ and all(always_reaches(F, hb, is_stream_flush, depth=3) for hb in impls_):
                    flushers.append((x, params[0]))
                    impl_flush.add((b.def_, params[0]))
        good = [(x, p) for x, p in flushers if dominates(b, x.bb, c.bb, dom) and x.bb != c.bb]
        if not good and not flushers:
            # a helper that only releases: the flush must dominate every call of the helper (one level up)
            callers = F.callers_of(b.path, crates=[BG])
            up = []
            for cs in callers:
                cb = cs.body
                cdom = cb.dominators()
                fl = []
                for x in cb.calls():
                    if x.is_trait_method("FnOnce", "call_once") or x.is_trait_method("FnMut", "call_mut") or x.is_trait_method("Fn", "call"):
                        src = Prov(cb).operand(x.args[0]) if x.args else set()
                        params = [o[1] for o in src if o[0] == "arg"]
                        if params:
                            fl.append((x, params[0]))
                    elif is_stream_flush(x):
                        fl.append((x, None))
                g2 = [(x, p_) for x, p_ in fl if dominates(cb, x.bb, cs.bb, cdom) and x.bb != cs.bb]
                up.append((cs, g2))
            okh = bool(up) and all(g2 for _, g2 in up)
            ctx.check(okh, "R04.1", key, loc(b, c.bb),
                      "the waiting flush wakers are released (%s) in a helper, and not every call of the helper is dominated by the stream flush: "
                      "a flush future could complete before the entries appended before it are flushed" % c.name,
                      "release helper; every call site (%s) is dominated by the flush" % [fnkey(cs.body).split("::")[-1] for cs, _ in up])
            for cs, g2 in up:
                virtual_release.setdefault(cs.body.def_, set()).add(cs.bb)
                for x, p_ in g2:
                    if p_ is not None:
                        tracker_bodies.setdefault(cs.body.def_, (cs.body, set()))[1].add(p_)
            continue
        ctx.check(bool(good), "R04.1", key, loc(b, c.bb),
                  "the waiting flush wakers are released (%s) without a dominating stream flush: a flush future could complete before "
                  "the entries appended before it are flushed" % c.name, "flush call bb%s dominates %s bb%d" % ([x.bb for x, _ in good], c.name, c.bb))
        for x, p in good:
            if p is not None:
                tracker_bodies.setdefault(b.def_, (b, set()))[1].add(p)
    # callers bind the flush parameter to a closure that flushes the stream on every path
    nbind = 0
    for bdef, (tb, params) in tracker_bodies.items():
        for cs in F.callers_of(tb.path, crates=[BG]):
            for p in params:
                if p - 1 >= len(cs.args):
                    continue
                cl = closure_for_operand(F, cs.body, cs.args[p - 1])
                nbind += 1
                key = fnkey(cs.body) + "#flush-closure-flushes"
                ok = (cl is not None and always_reaches(F, cl, is_stream_flush, depth=3)) or (bdef, p) in impl_flush
                ctx.check(ok, "R04.1", key, loc(cs.body, cs.bb),
                          "the flush action handed to the waker tracker does not flush the stream on every path",
                          "closure %s always reaches EntryIoStream::flush" % (cl.path if cl else "?"))
            # R04.3 accounting fed by the drain
            pr = Prov(cs.body)
            drains = {x.bb for x in sites_reaching(F, cs.body, is_pop)}
            dom = cs.body.dominators()
            fed = 0
            for ai, a in enumerate(cs.args):
                ty = None
                l = op_local(a)
                if l is None:
                    continue
                ty = cs.body.local_ty(l)
                is_bundle = ty in drain_status(F)[1]
                if any(e_ in ty for e_ in drain_status(F)[0]) or (ty == "usize" and ai == len(cs.args) - 1) or ty == "bool" or is_bundle:
                    o = pr.operand(a)
                    callbbs = {x[1] for x in o if x[0] == "call"}
                    # a boolean summary of the drain status: look through the comparison that produced it
                    for x in list(o):
                        if x[0] == "call" and (cs.body.term(x[1]).get("callee") or {}).get("name") in ("eq", "ne"):
                            for a2 in cs.body.term(x[1]).get("args", []):
                                callbbs |= {y[1] for y in pr.operand(a2) if y[0] in ("call", "callf")}
                    okd = bool(callbbs & drains) and all(dominates(cs.body, d, cs.bb, dom) for d in callbbs & drains)
                    fed += 2 if is_bundle else 1         # a (status, count) struct handed over whole carries both
                    ctx.check(okd, "R04.3", fnkey(cs.body) + "#tracker-arg%d-from-drain" % ai, loc(cs.body, cs.bb),
                              "argument %d of the waker-tracker call does not come from the preceding drain (origins %s)" % (ai, sorted(o)[:4]),
                              "derives from drain call bb%s" % sorted(callbbs & drains))
            ctx.check(fed >= 2, "R04.3", fnkey(cs.body) + "#tracker-fed-status-and-count", loc(cs.body, cs.bb),
                      "waker tracker is no longer fed (status, entry_count)")
            # ring-derived bound: the value stored as "entries before wake" when new signals are collected
            ring_const = lambda x: x.is_in("crossbeam_queue", "ArrayQueue::capacity")
            ring_len = lambda x: x.is_in("crossbeam_queue", "ArrayQueue::len")
            ring = lambda x: ring_const(x) or ring_len(x)
            cpr = pr
            def ring_kind(body_, op_, depth=2):
                """'capacity' / 'len-early' when the operand derives from the ring's capacity / its current length; a plain parameter of
                an extracted method is followed to the method's callers (all of them must agree on 'capacity')"""
                got_ = set()
                for x in Prov(body_).operand(op_):
                    if x[0] == "call" and ring_const(_cs_at(body_, x[1])):
                        got_.add("capacity")
                    elif x[0] == "call" and ring_len(_cs_at(body_, x[1])):
                        got_.add("len-early")
                    elif x[0] == "arg" and not x[2] and depth > 0 and 1 <= x[1] <= body_.arg_count and body_.local_ty(x[1]) == "usize":
                        ups = F.callers_of(body_.path, crates=[BG])
                        ks = {ring_kind(u.body, u.args[x[1] - 1], depth - 1) if len(u.args) >= x[1] else None for u in ups}
                        if "len-early" in ks:
                            got_.add("len-early")
                        elif ks == {"capacity"}:
                            got_.add("capacity")
                if "len-early" in got_:
                    return "len-early"
                return "capacity" if got_ else None
            kinds = set()      # {'capacity', 'len-lazy', 'len-early', 'none'}
            for ai, a in enumerate(cs.args):
                l = op_local(a)
                aty = cs.body.local_ty(l) if l is not None else ""
                cl = closure_for_operand(F, cs.body, a)
                if cl is not None and (cl.locals[0]["ty"] if cl.locals else "") == "usize":
                    if reaches_call(F, cl, ring_const, depth=2):
                        kinds.add("capacity")
                    elif reaches_call(F, cl, ring_len, depth=2):
                        kinds.add("len-lazy")     # evaluated when the tracker calls it (checked below: after the collection)
                    else:
                        po = Prov(cl).local(0)
                        caps = {x[2][0] for x in po if x[0] == "arg" and x[1] == 1 and x[2]}
                        got = "none"
                        for i2 in cs.body.live_blocks():
                            for st in cs.body.stmts(i2):
                                if st["k"] == "assign" and st["rv"]["k"] == "agg" and st["rv"].get("closure") == cl.def_:
                                    for nm, op in zip(st["rv"].get("fields", []), st["rv"]["ops"]):
                                        if nm in caps:
                                            got = ring_kind(cs.body, op) or got
                        kinds.add(got)
                elif aty == "usize" and ai not in (len(cs.args) - 1,):
                    k_ = ring_kind(cs.body, a)
                    if k_:
                        kinds.add(k_)
            kinds |= set(bound_fields(F, wv).values())       # the bound kept in a field of the tracker, set once at construction
            ctx.check(bool(kinds & {"capacity", "len-lazy"}) and "len-early" not in kinds, "R04.3", fnkey(cs.body) + "#bound-derives-from-ring", loc(cs.body, cs.bb),
                      ("the entries-before-wake bound is the queue LENGTH sampled before the tracker collects the new flush requests: entries appended "
                       "in between are not counted, so a flush can complete before they are written (use the constant capacity, or read the length "
                       "after collecting)") if "len-early" in kinds else
                      "the entries-before-wake bound handed to the waker tracker does not derive from the ring (capacity/len)",
                      "bound kinds: %s" % sorted(kinds))
            # a lazily evaluated length must be read after the new signals were collected
            if "len-lazy" in kinds:
                tdom = tb.dominators()
                calls_once = [x for x in tb.calls() if x.is_trait_method("FnOnce", "call_once") and "usize" == tb.local_ty(x.dest["l"])]
                recvs = [x for x in tb.calls() if x.name == "try_recv"]
                ctx.check(bool(calls_once) and all(any(dominates(tb, r.bb, x.bb, tdom) for r in recvs) for x in calls_once), "R04.3", fnkey(tb) + "#length-read-after-collection", loc(tb),
                          "the queue length used as the bound is read before the new flush requests are collected")
    ctx.floor("R04.1", "bindings of the flush action at tracker call sites", nbind, 1)

    # ------------------------------------------------------------------ R04.6 "drained" means: the drain left through the ring-empty exit
    dr_adts = [a for a in F.adts.values() if a["def"] in drain_status(F)[0]]
    n46 = 0
    for da in dr_adts:
        allv = {v["name"] for v in da["variants"]}
        # which variants can a drain return while entries may remain? every variant built on a path that is not the pop()==None arm
        empty_v, other_v = set(), set()
        for d in F.all_bodies(BG):
            if not in_bg(F, d) or not (da["def"] in (d.d.get("output") or "") or (d.d.get("output") or "") in drain_status(F)[1]):
                continue
            pops = [c for c in d.calls() if is_pop(c)]
            if not pops:
                continue
            none_ts = []
            for p_ in pops:
                for sw, tg, oth in switch_on_call_result(d, p_):
                    none_ts.append(tg.get(0, oth))
            after_none = set().union(*[d.reachable(nt, avoid=[p_.bb for p_ in pops]) for nt in none_ts]) if none_ts else set()
            before = set(d.live_blocks()) - after_none
            for i in d.live_blocks():
                for s_ in d.stmts(i):
                    if s_["k"] == "assign" and s_["rv"]["k"] == "agg" and s_["rv"].get("adt") == da["def"]:
                        (empty_v if i in after_none and i not in before else other_v).add(s_["rv"].get("variant"))
        ring_empty = empty_v - other_v
        if not ring_empty:
            # the outcome held in a variable that starts as one variant and is overwritten on the early exits (`let mut status = Drained;
            # .. if past_deadline { status = HitDeadline; break }`): the initial variant is what the ring-empty exit returns, provided
            # every overwrite leaves the loop (no pop can follow it)
            for d in F.all_bodies(BG):
                if not in_bg(F, d) or not (da["def"] in (d.d.get("output") or "") or (d.d.get("output") or "") in drain_status(F)[1]):
                    continue
                pops = [c for c in d.calls() if is_pop(c)]
                if not pops:
                    continue
                ddom = d.dominators()
                built = [(i, s_["rv"].get("variant")) for i in d.live_blocks() for s_ in d.stmts(i)
                         if s_["k"] == "assign" and s_["rv"]["k"] == "agg" and s_["rv"].get("adt") == da["def"]]
                initial = {v for i, v in built if all(dominates(d, i, p_.bb, ddom) and i != p_.bb for p_ in pops)}
                later = [(i, v) for i, v in built if v not in initial]
                if len(initial) == 1 and later and all(not any(p_.bb in d.reachable(i) for p_ in pops) for i, v in later):
                    ring_empty = set(initial) - {v for _, v in later}
        ctx.check(bool(ring_empty), "R04.6", da["def"] + "#ring-empty-outcome", "", "cannot identify the drain outcome that means `the ring was empty` (%s / %s)" % (sorted(empty_v), sorted(other_v)),
                  "ring-empty outcome: %s; outcomes that can leave entries queued: %s" % (sorted(ring_empty), sorted(allv - ring_empty)))

        def drained_set(b_, op):
            """variants of the drain status for which the boolean `op` (or a status compared inside) is true; None if not understood"""
            pr_ = Prov(b_)
            neg = False
            for x in pr_.operand(op):
                if x == ("op", "Not"):
                    neg = True
            for x in pr_.operand(op):
                if x[0] == "call" and (b_.term(x[1]).get("callee") or {}).get("name") in ("eq", "ne"):
                    t = b_.term(x[1])
                    vs = set()
                    for a2 in t.get("args", []):
                        for y in pr_.operand(a2):
                            if y[0] == "const" and isinstance(y[1], tuple) and y[1][0] == "variant":
                                vs.add(y[1][2])
                    if len(vs) == 1:
                        res = vs if t["callee"]["name"] == "eq" else allv - vs
                        return (allv - res) if neg else res
            return None
        for bdef, (tb, params) in tracker_bodies.items():
            # (a) the tracker receives the status itself and tests it inside
            st_params = [i for i in range(1, tb.arg_count + 1) if tb.locals[i]["ty"] == da["def"] or tb.locals[i]["ty"] in drain_status(F)[1]]
            for sp in st_params:
                for c in tb.calls():
                    acc_res = None
                    if c.name not in ("eq", "ne") and c.args and not c.dest.get("p") and tb.local_ty(c.dest["l"]) == "bool" and \
                            any(y[0] == "arg" and y[1] == sp for y in Prov(tb).operand(c.args[0])):
                        # a private predicate of the outcome bundle (`outcome.hit_deadline()`): its body is the comparison
                        for hb in local_callee_bodies(F, c):
                            if hb.crate == BG and hb.arg_count == 1:
                                acc_res = drained_set(hb, {"copy": {"l": 0, "p": []}})
                    if acc_res is not None or (c.name in ("eq", "ne") and any(any(y[0] == "arg" and y[1] == sp for y in Prov(tb).operand(a2)) for a2 in c.args)):
                        n46 += 1
                        vs = set()
                        for a2 in c.args:
                            for y in Prov(tb).operand(a2):
                                if y[0] == "const" and isinstance(y[1], tuple) and y[1][0] == "variant":
                                    vs.add(y[1][2])
                        res = vs if c.name == "eq" else allv - vs
                        if acc_res is not None:
                            vs, res = set(acc_res), set(acc_res)
                        # which outcome of the comparison lets the wakers be released?  (`if counter == 0 || status == Drained { wake }` and
                        # `if counter != 0 && status != Drained { return }` are the same decision)
                        rel_bbs = {c2.bb for b2, c2 in trackers if b2 is tb} | virtual_release.get(tb.def_, set())
                        # a side releases *because of* this comparison when every path from it to the return passes the release
                        direct = lambda t_: t_ is not None and bool(rel_bbs) and tb.must_pass(rel_bbs, start=t_)
                        undecided = False
                        for sw_, tg_, oth_ in switch_on_call_result(tb, c):
                            t_true, t_false = (tg_.get(1, oth_ if 0 in tg_ else None), tg_.get(0, oth_ if 1 in tg_ else None))
                            on_true, on_false = direct(t_true), direct(t_false)
                            if on_false and not on_true:
                                res = allv - res          # the release sits on the "comparison false" side
                            elif on_true == on_false:
                                undecided = True          # the comparison does not select between releasing and not releasing
                        if undecided:
                            continue
                        ctx.check(bool(vs) and res <= ring_empty, "R04.6", fnkey(tb) + "#wakes-on-ring-empty-only", loc(tb, c.bb),
                                  "the tracker treats the outcomes %s as `queue drained`, but only %s means the ring was empty: after a drain that stopped early "
                                  "the waiting flush requests are completed although entries appended before them are still queued" % (sorted(res), sorted(ring_empty)),
                                  "drained <=> %s" % sorted(res))
            # (b) the caller condenses the status into a bool
            for cs in F.callers_of(tb.path, crates=[BG]):
                for ai, a in enumerate(cs.args):
                    l = op_local(a)
                    if l is not None and cs.body.local_ty(l) == "bool":
                        res = drained_set(cs.body, a)
                        if res is None:
                            continue
                        n46 += 1
                        ctx.check(res <= ring_empty, "R04.6", fnkey(cs.body) + "#drained-flag-means-ring-empty", loc(cs.body, cs.bb),
                                  "the `queue drained` flag handed to the waker tracker is true for the outcomes %s, but only %s means the ring was empty: after a "
                                  "drain that stopped early (deadline, stream error) waiting flush requests would be completed with entries still queued"
                                  % (sorted(res), sorted(ring_empty)), "flag true <=> %s" % sorted(res))
    ctx.floor("R04.6", "places where the drain status is read as `drained`", n46, 1)
    # ------------------------------------------------------------------ R04.4 the entries-before-wake counter protocol inside the tracker
    n44 = 0
    wvf = {fn for _, fn in wv}
    for bdef, (tb, params) in tracker_bodies.items():
        pr = Prov(tb)
        key = fnkey(tb)
        bound_calls = {x.bb for x in tb.calls() if (x.is_trait_method("FnOnce", "call_once") or x.is_trait_method("FnMut", "call_mut") or x.is_trait_method("Fn", "call"))
                       and not x.dest.get("p") and tb.local_ty(x.dest["l"]) == "usize"}
        stores = {}      # field -> [(bb, origins)]
        # helpers called on the tracker itself: their stores / pushes count at the call site (one level)
        helper_calls = []
        for x in tb.calls():
            if x.args and any(y[0] == "arg" and y[1] == 1 and not y[2] for y in pr.operand(x.args[0])):
                for hb in local_callee_bodies(F, x):
                    if hb.crate == BG and in_bg(F, hb) and hb is not tb and hb.arg_count >= 1 and tb.locals[1]["ty"] == hb.locals[1]["ty"]:
                        helper_calls.append((x, hb))
        for x, hb in helper_calls:
            hpr = Prov(hb)
            for i in hb.live_blocks():
                for st in hb.stmts(i):
                    if st["k"] == "assign" and has_deref(st["lhs"]) and len(place_fields(st["lhs"])) == 1 and any(y[0] == "arg" and y[1] == 1 for y in hpr.local(st["lhs"]["l"])):
                        o = hpr.operand(st["rv"]["op"]) if st["rv"]["k"] == "use" else {("op", st["rv"]["k"])}
                        # only constants survive the call boundary unchanged; anything else is opaque here
                        o2 = {y for y in o if y[0] == "const"} or {("op", "helper:" + hb.name)}
                        stores.setdefault(place_fields(st["lhs"])[0], []).append((x.bb, o2))
        for i in tb.live_blocks():
            for st in tb.stmts(i):
                if st["k"] != "assign":
                    continue
                lhs = st["lhs"]
                fs = place_fields(lhs)
                if not (has_deref(lhs) and len(fs) == 1 and any(x[0] == "arg" and x[1] == 1 for x in pr.local(lhs["l"]))):
                    continue
                if any(fs[0] == hn_ for _, hn_ in holders):
                    continue         # the holder of (wakers, counter) as a whole: see `built` / the overwrite with None below
                if st["rv"]["k"] != "use":
                    stores.setdefault(fs[0], []).append((i, {("op", st["rv"]["k"])}))
                else:
                    o_ = set(pr.operand(st["rv"]["op"]))
                    # a value computed by a private helper that is handed the bound closure: what the helper can return is what is stored
                    # (`drained.backlog_bound(queue_capacity)` = the bound, or a constant the helper chose instead)
                    for x in list(o_):
                        if x[0] != "call":
                            continue
                        hc = _cs_at(tb, x[1])
                        for hb in local_callee_bodies(F, hc):
                            if hb.crate != BG or not in_bg(F, hb):
                                continue
                            hpr = Prov(hb)
                            cl_params = [ai + 1 for ai, a in enumerate(hc.args) if op_local(a) is not None and ("FnOnce" in tb.local_ty(op_local(a)) or "impl Fn" in tb.local_ty(op_local(a)))]
                            if not cl_params:
                                continue
                            o_.discard(x)
                            for y in hpr.local(0):
                                if y[0] == "const":
                                    o_.add(y)
                                elif y[0] == "call":
                                    hcs = _cs_at(hb, y[1])
                                    src = hpr.operand(hcs.args[0]) if hcs.args else set()
                                    if (hcs.name in ("call_once", "call_mut", "call")) and any(z[0] == "arg" and z[1] in cl_params for z in src):
                                        o_.add(("helper-bound", hb.name))
                                    else:
                                        o_.add(("op", "helper:" + hb.name))
                                elif y[0] != "via":
                                    o_.add(("op", "helper:" + hb.name))
                    stores.setdefault(fs[0], []).append((i, o_))
        # the counter as a field of the struct that is built together with the waiting vector (`Pending { wakers, entries_before_wake:
        # bound }`): building it is storing the counter (and collecting the wakers moved into it)
        owners_ = {a for a, _ in wv}
        built = []        # (block, origins of the vector moved in)
        for i in tb.live_blocks():
            for st in tb.stmts(i):
                if st["k"] == "assign" and st["rv"]["k"] == "agg" and st["rv"].get("adt") in owners_ and st["rv"].get("fields"):
                    for fn_, op_ in zip(st["rv"]["fields"], st["rv"]["ops"]):
                        if fn_ in wvf:
                            built.append((i, {y for y in pr.operand(op_) if y[0] == "call"}))
                        elif op_local(op_) is not None and tb.local_ty(op_local(op_)) == "usize" or (op_const(op_) or {}).get("ty") == "usize":
                            stores.setdefault(fn_, []).append((i, set(pr.operand(op_))))
        built_vecs = set().union(*[o for _, o in built]) if built else set()
        bflds = set(bound_fields(F, wv))
        is_bound = lambda x: (x[0] == "call" and x[1] in bound_calls) or x[0] == "helper-bound" or (x[0] == "arg" and x[1] == 1 and len(x[2]) == 1 and x[2][0] in bflds)
        counters = [f for f, ss in stores.items() if any(any(is_bound(x) for x in o) for _, o in ss)]
        ctx.check(len(counters) == 1, "R04.4", key + "#counter-slot", loc(tb),
                  "could not identify the entries-before-wake counter (a tracker field storing the result of the bound closure): %s" % counters,
                  "counter field: %s; bound calls bb%s" % (counters, sorted(bound_calls)))
        if len(counters) != 1:
            continue
        cf = counters[0]
        releases = {c.bb for b_, c in trackers if b_ is tb} | virtual_release.get(tb.def_, set())
        # overwriting the holder with None resets the counter along with the wakers: a constant store that is a release by construction
        for b_, c in trackers:
            if b_ is tb and isinstance(c, _Overwrite):
                stores[cf].append((c.bb, {("const", ("none", "None"))}))
        is_push = lambda bd, bpr, x: (x.is_in("alloc::vec", "Vec::push", "Vec::extend", "Vec::append", "Vec::extend_from_slice", "Vec::insert") or
                                      (x.is_trait_method("Extend", "extend") and "Vec<" in (x.self_ty or ""))) and x.args and \
            any((y[0] == "arg" and y[1] == 1 and y[2] and y[2][-1] in wvf) or (bd is tb and y in built_vecs) for y in bpr.operand(x.args[0]))
        pushes = [x for x in tb.calls() if is_push(tb, pr, x)]
        for x, hb in helper_calls:
            hpr = Prov(hb)
            if any(is_push(hb, hpr, y) for y in hb.calls()):
                pushes.append(x)
        ctx.floor("R04.4", "sites collecting new flush signals into the waiting vector", len(pushes), 1)
        rets = set(tb.return_blocks())
        for bb_, o in stores[cf]:
            n44 += 1
            consts = [x for x in o if x[0] == "const"]
            from_bound = [x for x in o if is_bound(x)]
            if consts:
                ok = tb.must_pass(releases, start=bb_) if releases else False
                ctx.check(ok and not from_bound, "R04.4", key + "#constant-counter-only-with-release@%s" % ("+".join(sorted(str(x[1][1]) for x in consts))), loc(tb, bb_),
                          "the entries-before-wake counter is set to a constant on a path that does not release the waiting wakers right there: flush requests "
                          "that were just collected would be woken by the next call although the entries appended before them are still queued",
                          "constant store is followed by the release of the wakers on every path")
            elif from_bound:
                ctx.check(all(x[0] == "via" or is_bound(x) for x in o), "R04.4", key + "#bound-store-pure", loc(tb, bb_),
                          "the value stored as entries-before-wake mixes the ring bound with other sources: %s" % sorted(map(str, o)),
                          "stored value is exactly the bound closure's result")
            else:
                # the decrement: counter (-) processed entries, where the subtrahend is the entry-count parameter unchanged
                subs = [x for x in o if x[0] == "call" and _cs_at(tb, x[1]).name in ("saturating_sub", "checked_sub", "wrapping_sub")]
                okd = False
                for x in subs:
                    c = _cs_at(tb, x[1])
                    a0, a1 = pr.operand(c.args[0]), pr.operand(c.args[1])
                    def reads_counter(op_):
                        if any(y[0] == "arg" and y[1] == 1 and y[2] and y[2][-1] == cf for y in pr.operand(op_)):
                            return True
                        # `pending.counter` with `pending` obtained from the holder through an adapter (`self.pending.as_mut()`)
                        l_ = op_local(op_)
                        for kind_, bb2_, j_, node_ in (tb.defs().get(l_, []) if l_ is not None else []):
                            if kind_ == "assign" and node_["k"] == "assign" and node_["rv"]["k"] == "use":
                                pl_ = op_place(node_["rv"]["op"])
                                if pl_ and place_fields(pl_) and place_fields(pl_)[-1] == cf and any(
                                        y[0] == "arg" and y[1] == 1 and y[2] and any(y[2][-1] == hn_ for _, hn_ in holders) for y in pr.local(pl_["l"])):
                                    return True
                        return False
                    okd = (reads_counter(c.args[0]) and
                           all(y[0] == "arg" and y[1] > 1 and ((not y[2] and tb.local_ty(y[1]) == "usize") or (len(y[2]) == 1 and tb.local_ty(y[1]) in drain_status(F)[1]))
                               for y in a1) and c.name == "saturating_sub")
                ctx.check(okd, "R04.4", key + "#counter-decrement-by-processed-entries", loc(tb, bb_),
                          "the counter update is not `counter.saturating_sub(<entry-count parameter>)`: origins %s" % sorted(map(str, o))[:5],
                          "counter decremented by the entry-count parameter, saturating")
        # after new signals were collected the counter is armed with the bound on every path to the exit
        bound_stores = {bb_ for bb_, o in stores[cf] if o and all(x[0] == "via" or is_bound(x) for x in o) and any(is_bound(x) for x in o)}
        empties = [x for x in tb.calls() if x.is_in("alloc::vec", "Vec::is_empty") and x.args and
                   any((y[0] == "arg" and y[1] == 1 and y[2] and y[2][-1] in wvf) or y in built_vecs for y in pr.operand(x.args[0]))]
        for p in pushes:
            after = tb.reachable_after(p.bb)
            infeasible = set()
            if not (after & releases):
                for e in empties:
                    if e.bb in after:
                        for sw, tg, oth in switch_on_call_result(tb, e):
                            tt = tg.get(1, oth if 0 in tg else None)
                            if tt is not None:
                                infeasible.add((sw, tt))
            seen, stk = {p.bb}, [p.bb]
            while stk:
                x = stk.pop()
                for y in tb.succ(x):
                    if y in seen or y in bound_stores or (x, y) in infeasible:
                        continue
                    seen.add(y)
                    stk.append(y)
            ctx.check(not (seen & rets), "R04.4", key + "#counter-armed-after-collection", loc(tb, p.bb),
                      "after new flush signals are collected the call can return without arming the entries-before-wake counter with the ring bound: "
                      "the next call would see a zero counter and wake them although the entries appended before them may still be queued",
                      "every path from the collection to the exit stores the bound (bb%s)" % sorted(bound_stores))
    ctx.floor("R04.4", "stores to the entries-before-wake counter", n44, 3)

    # thread exit: tracker dropped only after the shutdown routine
    for cs0, cb in find_thread_entries(F, BG):
        for c in cb.calls():
            for rb in local_callee_bodies(F, c):
                if rb.crate != BG:
                    continue
                tl = [i for i, l in enumerate(rb.locals) if any(l.get("head", {}).get("adt") == a for a, _ in wv + waker_holders(F, wv)) and not l.get("head", {}).get("refs")]
                if not tl:
                    continue
                dom = rb.dominators()
                sd = [x for x in rb.calls() if any(sb.crate == BG and shutdown_summary(F, sb)[0] for sb in local_callee_bodies(F, x))]
                can_ret = rb.can_reach_return()
                for i in rb.live_blocks():
                    t = rb.term(i)
                    if t["k"] == "drop" and t["place"]["l"] in tl and not t["place"].get("p") and i in can_ret:
                        ok = bool(sd) and rb.must_pass([x.bb for x in sd], exits=[i])
                        ctx.check(ok, "R04.1", fnkey(rb) + "#tracker-dropped-after-shutdown", loc(rb, i),
                                  "at thread exit the waker tracker (and with it every pending flush signal) is dropped before the final "
                                  "drain+flush: pending flush futures complete too early")
    # R04.5 dead queue never panics
    n5 = 0
    # the flush-request path: the public `flush_async` of the queue and every private function / closure of the module it runs
    # (whatever those are called and wherever in the module they live)
    fa_units, fa_work = {}, [b for b in F.all_bodies(BG) if in_bg(F, b) and b.name == "flush_async"]
    while fa_work:
        b = fa_work.pop()
        if b.def_ in fa_units:
            continue
        fa_units[b.def_] = b
        for cb in F.closures_of(b):
            fa_work.append(cb)
        for c in b.calls():
            for sb in local_callee_bodies(F, c):
                if sb.crate == BG and in_bg(F, sb) and len(fa_units) < 12:
                    fa_work.append(sb)
    for b in fa_units.values():
        n5 += 1
        bad = [c for c in b.calls() if c.is_("core::result::Result::<T, E>::unwrap", "core::result::Result::<T, E>::expect",
                                             "core::option::Option::<T>::unwrap", "core::option::Option::<T>::expect") or c.is_trait_method("Try", "branch")]
        ctx.check(not bad, "R04.5", fnkey(b) + "#no-unwrap-on-dead-queue", loc(b),
                  "flush request path unwraps a result (%s): requesting a flush on a shut-down queue would panic" % [c.name for c in bad])
    ctx.floor("R04.5", "flush_async bodies in the background module", n5, 2)
    return EXPL


def _cs_at(body, bb):
    from mq.facts import CallSite
    return CallSite(body, bb, body.term(bb))

"""C08 — EMF validation: on when asked (both build profiles), sound w.r.t. uniqueness registration, transparent."""
from mq.util import *
from mq.prov import Prov, single_def_ref_target, place_fields, has_deref
from mq.abseval import AbsEval, TOP
from mq.facts import strip_generics
import rules.c02 as c02

EXPL = ("R08.1 constant propagation of the three skip_* switches through builder/skip_all_validations/build/Default on the debug AND "
        "the debug-assertions-off fact base: all_validations must end with every switch false in both profiles, no_validations with "
        "every switch true, skip_all_validations may only turn skipping on. R08.2 every site that appends a top-level JSON member "
        "(`,\"name\":`) to a fields buffer registers that same name in the uniqueness map (in the body or through its caller chain). "
        "R08.3 = R02.3 verdict before bytes. R08.4 branches on skip_* / validate_name gate checks only: the region executed only when "
        "validation is enabled contains no buffer append and no early exit that is not preceded by recording an error. "
        "R08.5 the uniqueness bookkeeping never folds its key (dimension-set index / name) with wrapping or modular arithmetic. "
        "R08.7 (= R14.2 on the output buffers and per-set maps) what a rejected or failed entry had already written is "
        "discarded before the next entry uses the buffers, on every path. R08.6 the per-entry dimension sets are adopted only on paths that ran the loop registering their names in the name registry, or on "
        "which every validation switch that consults the registry is known to be off. "
        "R08.8 once an entry-dimensions configuration is in hand, every path stores the adopted sets or records a validation error (what later `set twice` / `late` checks rely on). Not decided: completeness of the defect list for arbitrary entries.")
CR = c02.CR
SW_DEFAULT = ("skip_validate_unique", "skip_validate_dimensions_exist", "skip_validate_names")
SW = SW_DEFAULT


ERR_NAMES = ("extend_mut", "invalid_mut", "invalid", "extend", "error")
_FCUR = [None]


def error_blocks(b, names=ERR_NAMES):
    """blocks of b that record a validation error: a call of the error builder's API, or of a private helper of the crate (a method
    of a private extension trait, say) that records one on every path"""
    F = _FCUR[0]
    out = []
    for c in b.calls():
        if c.name in names:
            out.append(c.bb)
        elif F is not None:
            for hb in local_callee_bodies(F, c):
                if hb.crate == CR and hb.kind != "Closure" and hb.def_ != b.def_ and always_reaches(F, hb, lambda x: x.name in ("extend_mut", "invalid_mut"), depth=2):
                    out.append(c.bb)
    return out


def adopt_ty(F, ty):
    """the type of the field that keeps the entry's own dimension sets: something holding JsonEncodedArrays directly, or a private enum /
    struct of the crate with such a payload (`enum DimensionSets { Configured, PerEntry(Vec<JsonEncodedArray>) }`)"""
    if "JsonEncodedArray" in ty:
        return True
    a = F.adts.get(ty)
    return bool(a) and a["crate"] == CR and any("JsonEncodedArray" in f["ty"] for v in a["variants"] for f in v["fields"])


def record_ctor_family(F):
    """the constructor of the per-dimension-set record (returns a struct of this crate with the record's two text buffers), its closures,
    and the private helpers only it calls (with their closures): where the record's constant prefix is put together"""
    c_ = getattr(F, "_ctor_family", None)
    if c_ is None:
        fam = {}
        for b in F.all_bodies(CR):
            rty_ = F.adts.get((b.locals[0].get("head") or {}).get("adt") or "") if b.locals else None
            if rty_ and rty_["crate"] == CR and not (b.impl or {}).get("trait") and b.kind != "Closure" and \
                    sum(1 for v_ in rty_["variants"] for f_ in v_["fields"] if "PrefixedStringBuf" in f_["ty"]) >= 2:
                fam[b.def_] = b
        work = list(fam.values())
        while work:
            b = work.pop()
            for cb in F.closures_of(b):
                if cb.def_ not in fam:
                    fam[cb.def_] = cb
                    work.append(cb)
            for c in b.calls():
                for hb in local_callee_bodies(F, c):
                    if hb.crate != CR or hb.def_ in fam or hb.kind == "Closure":
                        continue
                    callers = F.callers_of(hb.path, crates=[CR])
                    if callers and all(x.body.def_ in fam for x in callers) and not (hb.impl or {}).get("trait"):
                        fam[hb.def_] = hb
                        work.append(hb)
        c_ = set(fam)
        F._ctor_family = c_
    return c_


# the value a validation switch has when its validation is ON: False for `skip_*` switches (the tree's form), True if the switches are
# written the other way round (`check_*`). Decided in run() by what the public constructors all_validations / no_validations and the
# documented builder default produce, by majority, so that one wrong switch is reported as such
VW = [False]


def switches(F):
    """the validation switches by shape: the fields of the crate's all-bool struct (three or more flags) that a Format implementor keeps
    in one of its fields -> (flag names, {holder adt: name of the field holding the switch struct})"""
    c_ = getattr(F, "_val_switches", None)
    if c_ is None:
        flags, holders = SW_DEFAULT, {}
        for d, a in F.adts.items():
            if a["crate"] != CR or len(a["variants"]) != 1:
                continue
            fs = a["variants"][0]["fields"]
            if len(fs) >= 3 and all(f["ty"] == "bool" for f in fs):
                hs = {d2: f2["name"] for d2, a2 in F.adts.items() if a2["crate"] == CR and len(a2["variants"]) == 1
                      for f2 in a2["variants"][0]["fields"] if f2["ty"] == d}
                if hs:
                    flags, holders = tuple(f["name"] for f in fs), hs
        c_ = (flags, holders)
        F._val_switches = c_
    return c_


def run(ctx):
    global SW
    # ------------------------------------------------------------------ R08.1 on both profiles
    for prof in ("dbg", "rel"):
        F = ctx.facts(prof)
        SW, holders = switches(F)
        VF = sorted(set(holders.values()))[0] if holders else "validation"
        ev = AbsEval(F)
        da = F.crates[CR]["debug_assertions"]
        votes = []
        for fn_, validating in (("all_validations", True), ("no_validations", False), ("builder", da)):
            b_ = F.body("metrique_writer_format_emf::emf::Emf::" + fn_)
            for f in SW if b_ is not None else ():
                got = ev.ret_field(b_, (VF, f)) if fn_ != "builder" else ev._local(b_, 0, (VF, f), [], 0, frozenset())
                if got in ({True}, {False}):
                    votes.append(next(iter(got)) == validating)
        VW[0] = sum(votes) * 2 > len(votes)
        vw = VW[0]
        want = {"all_validations": vw, "no_validations": not vw}
        n = 0
        for fn, val in want.items():
            b = F.body("metrique_writer_format_emf::emf::Emf::" + fn)
            if b is None:
                # role-based fallback: public constructors of the Format implementor with that name
                ctx.bad("R08.1", "Emf::%s#anchor-lost@%s" % (fn, prof), "", "constructor Emf::%s not found" % fn)
                continue
            for f in SW:
                n += 1
                got = ev.ret_field(b, (VF, f))
                prof_name = "debug-assertions-%s" % ("on" if da else "off")
                ctx.check(got == {val}, "R08.1", "%s#%s=%s@%s" % (fnkey(b), f, str(val).lower(), prof_name), loc(b),
                          "`Emf::%s` yields a formatter with %s = %s under %s: %s" % (
                              fn, f, sorted(map(str, got)), prof_name,
                              "asking for all validations validates nothing in this build profile" if fn == "all_validations" else "validations are not all skipped"),
                          "%s = %s under %s" % (f, val, prof_name))
        ctx.floor("R08.1", "switch obligations evaluated (%s)" % prof, n, 6)
        # documented default of the plain builder
        bb_ = F.body("metrique_writer_format_emf::emf::EmfBuilder::build")
        bu = F.body("metrique_writer_format_emf::emf::Emf::builder")
        if bb_ is not None and bu is not None:
            for f in SW:
                got = ev._local(bu, 0, (VF, f), [], 0, frozenset())
                ctx.check(got == {da == vw}, "R08.1", "%s#default-%s@debug-assertions-%s" % (fnkey(bu), f, "on" if da else "off"), loc(bu),
                          "builder default for %s is %s, documented: validate iff debug assertions are enabled" % (f, sorted(map(str, got))))
            # build() preserves the builder's validation
            for f in SW:
                got = ev._local(bb_, 0, (VF, f), [lambda fs: ({True} if fs == (VF, f) else {TOP})], 0, frozenset())
                got2 = ev._local(bb_, 0, (VF, f), [lambda fs: ({False} if fs == (VF, f) else {TOP})], 0, frozenset())
                ctx.check(got == {True} and got2 == {False}, "R08.1", "%s#preserves-%s@%s" % (fnkey(bb_), f, prof), loc(bb_),
                          "EmfBuilder::build does not carry the builder's %s into the formatter unchanged (%s/%s)" % (f, got, got2))
        sk = F.body("metrique_writer_format_emf::emf::EmfBuilder::skip_all_validations")
        if sk is not None:
            for f in SW:
                # (switch value of the builder, `skip` parameter) -> switch value afterwards, in terms of `skipping` = (value != vw)
                on = ev._local(sk, 0, (VF, f), [lambda fs: {vw}, lambda fs: {True}], 0, frozenset())
                off = ev._local(sk, 0, (VF, f), [lambda fs: {not vw}, lambda fs: {False}], 0, frozenset())
                keep = ev._local(sk, 0, (VF, f), [lambda fs: {vw}, lambda fs: {False}], 0, frozenset())
                ctx.check(on == {not vw} and off == {not vw} and keep == {vw}, "R08.1", "%s#only-turns-skipping-on-%s@%s" % (fnkey(sk), f, prof), loc(sk),
                          "skip_all_validations(%s): true->%s, keeps-true->%s, false-keeps-false->%s" % (f, on, off, keep))

    F = ctx.facts("dbg")
    _FCUR[0] = F
    # ------------------------------------------------------------------ R08.2 member emission => uniqueness registration
    sites = member_emission_sites(F)
    ctx.floor("R08.2", "top-level member emission sites", len(sites), 3)
    for b, js, name_op in sites:
        ok, how = registered(F, b, name_op, depth=3)
        key = fnkey(b) + "#member-emission"
        # the constructor of the per-dimension-set record (a private type: its name and module are not part of the key): the function
        # that returns a struct of this crate holding the record's two text buffers
        if b.def_ in record_ctor_family(F):
            key = CR + "::emf::<per-dimension-set record>::constructor#member-emission"
        ctx.check(ok, "R08.2", key, loc(b, js.bb),
                  "a top-level JSON member is emitted under a name that is never registered in the uniqueness map (%s): a second value "
                  "under the same name is accepted even with all validations on" % how, how)

    # ------------------------------------------------------------------ R08.5 the registry key is not folded by lossy arithmetic
    LOSSY = ("wrapping_shl", "wrapping_shr", "wrapping_add", "wrapping_sub", "wrapping_mul", "overflowing_shl", "overflowing_shr",
             "rem_euclid", "checked_rem", "rotate_left", "rotate_right", "unchecked_shl")
    nk = 0
    for b in F.all_bodies(CR):
        if not c02.in_scope(b) or not (b.impl and (b.impl.get("trait") or "").endswith("::ValueWriter") and b.name in ("metric", "string")):
            continue
        pr = Prov(b)
        nk += 1
        bad = []
        for c in b.calls():
            if c.name in LOSSY and c.def_.startswith("core::num"):
                bad.append((c.bb, c.name))
        for i in b.live_blocks():
            for s_ in b.stmts(i):
                if s_["k"] == "assign" and s_["rv"]["k"] == "binop" and s_["rv"]["op"] in ("Rem", "ShlUnchecked", "ShrUnchecked"):
                    o = pr.operand(s_["rv"]["a"]) | pr.operand(s_["rv"]["b"])
                    if any(x[0] == "arg" or x[0] == "call" for x in o) and not s_.get("exp"):
                        bad.append((i, s_["rv"]["op"]))
        ctx.check(not bad, "R08.5", fnkey(b) + "#registry-key-not-folded", loc(b, bad[0][0] if bad else None),
                  "the uniqueness bookkeeping folds its key with lossy arithmetic (%s): two different dimension sets / names can alias, so a valid entry is "
                  "rejected as `duplicate field` (or a real duplicate is missed) once enough distinct sets occur" % sorted({n for _, n in bad}),
                  "no wrapping / modular arithmetic in the validation path")
    ctx.floor("R08.5", "validating writer methods", nk, 2)

    # ------------------------------------------------------------------ R08.3
    c02.verdict_before_bytes(ctx, F, "R08.3")

    # ------------------------------------------------------------------ R08.4 switches gate checks only
    gates = gate_helpers(F)
    ctx.floor("R08.4", "helpers whose result says whether a name passed validation", len(gates), 1)
    n4 = 0
    for b in F.all_bodies(CR):
        if not c02.in_scope(b):
            continue
        pr = None
        dom = None
        for i in b.live_blocks():
            t = b.term(i)
            if t["k"] != "switch":
                continue
            pr = pr or Prov(b)
            o = pr.operand(t["discr"])
            sw = [x for x in o if x[0] == "arg" and x[2] and x[2][-1] in SW]
            vn = [x for x in o if x[0] == "call" and any(sb.def_ in gates for sb in local_callee_bodies(F, _cs(b, x[1])))]
            if not sw and not vn:
                continue
            if any(x[0] == "op" and x[1] not in ("Not",) for x in o):
                # combined conditions are lowered to nested switches; a computed combination is not understood
                pass
            negated = any(x == ("op", "Not") for x in o) != VW[0]
            tg = {v: tb for v, tb in t["targets"]}
            zero_t, other_t = tg.get(0), t["otherwise"]
            if zero_t is None:
                continue
            n4 += 1
            # value of the *switch operand*: for skip flag: 0 => (flag false unless negated) => validation enabled
            if sw:
                enabled_t, disabled_t = (other_t, zero_t) if negated else (zero_t, other_t)
                what = sw[0][2][-1]
            else:
                # a name gate: the outcome it produces when its switch is off is the `disabled` side; every other outcome can only
                # happen when validation is enabled
                gsb = [sb for sb in local_callee_bodies(F, _cs(b, vn[0][1])) if sb.def_ in gates][0]
                passv = gate_switch_value(b, i, gates[gsb.def_])
                if passv is None:
                    ctx.bad("R08.4", fnkey(b) + "#name-gate-branch", loc(b, i), "the branch on the name check of %s is not understood" % gsb.name)
                    continue
                disabled_t = tg.get(passv, other_t)
                en = [x for x in b.succ(i) if x != disabled_t and b.term(x)["k"] != "unreachable"]
                if len(en) != 1:
                    ctx.bad("R08.4", fnkey(b) + "#name-gate-branch", loc(b, i), "the branch on the name check of %s has %d rejecting sides" % (gsb.name, len(en)))
                    continue
                enabled_t = en[0]
                what = gsb.name
            only_enabled = b.reachable(enabled_t) - b.reachable(disabled_t)
            appends = []
            for j in only_enabled:
                tt = b.term(j)
                if tt["k"] == "call":
                    c = tt.get("callee") or {}
                    if c.get("name") in ("push", "push_raw_str", "push_integer", "json_string", "clear", "truncate", "push_str", "extend_from_within_range") and (
                            "PrefixedStringBuf" in c.get("def", "") + (c.get("self_ty") or "") + (c.get("resolved") or "") or "JsonString" in c.get("def", "")):
                        appends.append(j)
                    if c.get("name") in ("write_metric", "write_metric_value", "write"):
                        appends.append(j)
            key = fnkey(b) + "#%s-gates-checks-only@%d" % (what, _switch_ordinal(b, i, pr))
            ctx.check(not appends, "R08.4", key, loc(b, i),
                      "output is written only when validation `%s` is enabled (bb%s): enabling validation would change the bytes of valid entries" % (what, appends))
            # whatever output the disabled side always produces, the enabled side must produce too (or record an error)
            def _is_append(j):
                tt = b.term(j)
                if tt["k"] != "call":
                    return False
                c = tt.get("callee") or {}
                return (c.get("name") in ("push", "push_raw_str", "push_integer", "json_string", "push_str") and (
                    "PrefixedStringBuf" in c.get("def", "") + (c.get("self_ty") or "") + (c.get("resolved") or "") or "JsonString" in c.get("def", ""))) or \
                    c.get("name") in ("write_metric", "write_metric_value", "write")
            errs_all = error_blocks(b, ("extend_mut", "invalid_mut", "error"))
            if vn and not sw:
                # the gate may reject only together with a recorded error (so only rejected entries lose output): recorded by the gate
                # itself before it returns the rejecting outcome, or by this caller on the rejecting side
                okvn = True
                for x in vn:
                    for sb in local_callee_bodies(F, _cs(b, x[1])):
                        okvn = okvn and (false_only_after_error(sb) or bool(errs_all) and b.must_pass(errs_all, start=enabled_t))
                ctx.check(okvn, "R08.4", key + "-false-implies-error", loc(b, i),
                          "%s can reject a name without a validation error being recorded (neither by it nor on the rejecting side of this branch): "
                          "a valid entry would silently lose the value" % what)
                continue
            dom = dom or b.dominators()
            err_known = [e for e in errs_all]
            for j in b.live_blocks():
                tj = b.term(j)
                if tj["k"] == "switch":
                    oj = pr.operand(tj["discr"])
                    vj = [x for x in oj if x[0] == "call" and any(sb.def_ in gates for sb in local_callee_bodies(F, _cs(b, x[1])))]
                    if vj and all(false_only_after_error(sb) for x in vj for sb in local_callee_bodies(F, _cs(b, x[1]))):
                        gj = [sb for sb in local_callee_bodies(F, _cs(b, vj[0][1])) if sb.def_ in gates][0]
                        pv = gate_switch_value(b, j, gates[gj.def_])
                        tgj = {v: tb for v, tb in tj["targets"]}
                        if pv is not None:
                            err_known += [x for x in b.succ(j) if x != tgj.get(pv, tj["otherwise"]) and b.term(x)["k"] != "unreachable"]
            if any(dominates(b, e, i, dom) for e in err_known):
                ctx.ok("R08.4", key + "-same-output", loc(b, i), "branch only reached after a validation error was recorded")
                continue
            must_dis = [j for j in b.reachable(disabled_t) if _is_append(j) and b.must_pass([j], start=disabled_t)]
            skipped = [j for j in must_dis if not b.must_pass([j] + errs_all, start=enabled_t)]
            ctx.check(not skipped, "R08.4", key + "-same-output", loc(b, skipped[0] if skipped else i),
                      "with validation `%s` enabled a path reaches the exit without the output (bb%s) that is always produced when it is "
                      "disabled, and without recording an error: enabling validation changes the bytes of an accepted entry" % (what, skipped))
            rets = [r for r in b.return_blocks() if r in only_enabled]
            if rets:
                errs = [j for j in error_blocks(b) if j in only_enabled]
                dom = dom or b.dominators()
                ok = all(any(dominates(b, e, r, dom) for e in errs) for r in rets)
                ctx.check(ok, "R08.4", key + "-early-exit", loc(b, rets[0]),
                          "with validation `%s` enabled the function can return early without recording an error: a valid entry would lose output" % what)
    ctx.floor("R08.4", "branches on validation switches", n4, 5)

    # ------------------------------------------------------------------ R08.7 a rejected entry leaves nothing behind (premise of "no output" and of transparency)
    import rules.c14 as c14
    before7 = len(ctx.instances)
    c14.run(ctx, only_fields=c02.buffer_field(F), rule_prefix="R08.7")
    ctx.floor("R08.7", "buffers and per-set maps checked for reset-before-use", len([i for i in ctx.instances[before7:] if i["rule"] == "R08.7" and "clean-at-first-use" in i["instance"]]), 5)
    # ------------------------------------------------------------------ R08.6 declared entry dimensions are registered before they are adopted
    VMS = registry_fields(F)
    ctx.floor("R08.6", "name-registry fields of the per-call writer", len(VMS), 1)

    def on_map(b, pr, c):
        return bool(c.args) and any(x[0] == "arg" and x[2] and x[2][-1] in VMS for x in pr.operand(c.args[0]))

    def skip_edges(b, pr):
        """{(switch bb, target): flag} for the outcome 'skip flag is true'"""
        out = {}
        for i in b.live_blocks():
            t = b.term(i)
            if t["k"] != "switch":
                continue
            o = pr.operand(t["discr"])
            sw = [x for x in o if x[0] == "arg" and x[2] and x[2][-1] in SW]
            if not sw or any(x[0] == "op" and x[1] != "Not" for x in o):
                continue
            negated = any(x == ("op", "Not") for x in o) != VW[0]
            tg = {v: tb for v, tb in t["targets"]}
            if tg.get(0) is None:
                continue
            out[(i, tg[0] if negated else t["otherwise"])] = sw[0][2][-1]
        return out

    # which switches make the formatter consult the registry at all (so that a missing registration matters when they are off)
    consult = set()
    for b in F.all_bodies(CR):
        if not c02.in_scope(b):
            continue
        pr = Prov(b)
        se = skip_edges(b, pr)
        if not se:
            continue
        users = [c.bb for c in b.calls() if on_map(b, pr, c)]
        for (i, dis_t), flag in se.items():
            en_t = [x for x in b.succ(i) if x != dis_t]
            only_en = set().union(*[b.reachable(x) for x in en_t]) - b.reachable(dis_t) if en_t else set()
            if any(u in only_en for u in users):
                consult.add(flag)
    ctx.check(len(consult) >= 2, "R08.6", "registry-consulting-switches", "metrique-writer-format-emf/src/emf.rs",
              "expected at least the uniqueness and the dimensions-exist switch to gate look-ups in the name registry, found %s" % sorted(consult),
              "switches gating registry look-ups: %s" % sorted(consult))
    def reg_units(b, pr, depth=2):
        """registration units of a body: heads of loops that insert into / look up the registry, and calls of local helpers that do so
        (helper call block -> the skip flags that are known true whenever the helper returns without having run its loop; None = it always runs it)"""
        regs = [c for c in b.calls() if c.name in ("entry_ref", "entry", "insert", "raw_entry_mut") and on_map(b, pr, c)]
        heads = {h.bb for h in b.calls() if h.is_trait_method("Iterator", "next") and
                 any(r.bb in b.reachable_after(h.bb) and h.bb in b.reachable_after(r.bb) for r in regs)}
        via = {}
        if depth > 0:
            for c in b.calls():
                for sb in local_callee_bodies(F, c):
                    if sb.crate != CR or sb.def_ == b.def_ or not c02.in_scope(sb):
                        continue
                    spr = Prov(sb)
                    h2, v2 = reg_units(sb, spr, depth - 1)
                    if not h2 and not v2:
                        continue
                    outs = flags_reaching(sb, spr, set(sb.return_blocks()), depth - 1)
                    via[c.bb] = None if not outs else frozenset.intersection(*outs)
        return heads, via

    def flags_reaching(b, pr, targets, depth=2):
        """the sets of skip flags known true with which a block of `targets` is reached from the entry without running a registration unit"""
        heads, via = reg_units(b, pr, depth)
        se = skip_edges(b, pr)
        start = (0, frozenset())
        seen, stk, out = {start}, [start], []
        while stk:
            x, fl = stk.pop()
            if x in targets:
                out.append(fl)
                continue
            if x in via:
                if via[x] is None:
                    continue
                fl = fl | via[x]
            for y in b.succ(x):
                if y in heads:
                    continue
                f2 = fl | {se[(x, y)]} if (x, y) in se else fl
                if (y, f2) not in seen:
                    seen.add((y, f2))
                    stk.append((y, f2))
        return out

    n6 = 0
    for b in F.all_bodies(CR):
        # (the adoption may sit in `config` itself or in a private method it delegates to: every body storing into the field is judged)
        if not c02.in_scope(b) or b.kind == "Closure":
            continue
        pr = Prov(b)
        regs = [c for c in b.calls() if c.name in ("entry_ref", "entry", "insert", "raw_entry_mut") and on_map(b, pr, c)]
        stores = []
        for i in b.live_blocks():
            for st in b.stmts(i):
                if st["k"] == "assign" and has_deref(st["lhs"]) and place_fields(st["lhs"]) and adopt_ty(F, st["lhs"]["p"][-1][4] if len(st["lhs"]["p"][-1]) > 4 else ""):
                    stores.append((i, place_fields(st["lhs"])[-1]))
        if not regs and not stores:
            continue
        heads, via = reg_units(b, pr)
        se = skip_edges(b, pr)
        for sbb, fld in stores:
            n6 += 1
            reached = flags_reaching(b, pr, {sbb})
            bad = [fl for fl in reached if not (consult <= fl)]
            bad_flags = bad[0] if bad else None
            heads = heads | set(via)
            ctx.check(bad_flags is None and bool(heads), "R08.6", fnkey(b) + "#dimension-names-registered-before-adoption(%s)" % fld, loc(b, sbb),
                      "the entry's dimension sets are adopted (store to `%s`) on a path that neither runs the loop registering their names in the "
                      "name registry nor has every registry-consulting validation switched off (known off on that path: %s): with validation on, "
                      "a metric written under a declared dimension name, or a declared dimension that is never written, would go unnoticed"
                      % (fld, sorted(bad_flags or [])),
                      "every path to the store passes the registration loop (heads bb%s) or has %s all skipped" % (sorted(heads), sorted(consult)))
    ctx.floor("R08.6", "stores adopting entry dimension sets", n6, 1)
    # ------------------------------------------------------------------ R08.8 an accepted dimensions configuration is remembered
    # the `set twice` / `late` checks look at what earlier configurations left behind: once the body that adopts entry dimensions has the
    # configuration in hand, every way out of it either records a validation error or stores the adopted sets - a path that does neither
    # (a `nothing to do for this value` shortcut) lets a second configuration through unnoticed
    n8 = 0
    for b in F.all_bodies(CR):
        if not c02.in_scope(b) or b.kind == "Closure":
            continue
        stores = [i for i in b.live_blocks() for st in b.stmts(i) if st["k"] == "assign" and has_deref(st["lhs"]) and place_fields(st["lhs"]) and
                  adopt_ty(F, st["lhs"]["p"][-1][4] if len(st["lhs"]["p"][-1]) > 4 else "")]
        if not stores:
            continue
        n8 += 1
        errs = error_blocks(b, ("invalid_mut", "extend_mut", "invalid", "error"))
        # from where the configuration is known to be the dimensions one: the Some side of its downcast, else the entry of the body
        starts = []
        for c in b.calls():
            if c.name == "downcast_ref" and any("EntryDimensions" in str(a_) for a_ in (c.callee.get("args") or [])):
                for sw, tg, oth in switch_on_call_result(b, c):
                    starts.append(tg.get(1, oth))
        starts = starts or [0]
        ok8 = all(st_ is not None and b.must_pass(stores + errs, start=st_) for st_ in starts)
        ctx.check(ok8, "R08.8", fnkey(b) + "#accepted-dimensions-configuration-is-remembered", loc(b, stores[0]),
                  "a path through the handling of an entry-dimensions configuration returns without recording an error and without storing the adopted "
                  "sets: a later configuration of the same entry is then not recognised as `set twice` (or `late`) and the entry is emitted",
                  "every path stores the adopted sets or records an error")
    ctx.floor("R08.8", "bodies adopting entry dimension sets", n8, 1)
    return EXPL


def _cs(b, bb):
    from mq.facts import CallSite
    return CallSite(b, bb, b.term(bb))


def gate_helpers(F):
    """local helpers that read a validation switch and report the verdict on a name as their result:
    {def: outcome returned when the switch is off} with outcome = ('bool', v) | ('variant', name)"""
    out = {}
    for sb in F.all_bodies(CR):
        if not c02.in_scope(sb) or sb.kind == "closure":
            continue
        rty = sb.locals[0]["ty"]
        if not (rty == "bool" or rty.startswith("core::result::Result<") or rty.startswith("core::option::Option<")):
            continue
        pr = Prov(sb)
        for i in sb.live_blocks():
            t = sb.term(i)
            if t["k"] != "switch":
                continue
            o = pr.operand(t["discr"])
            sw = [x for x in o if x[0] == "arg" and x[2] and x[2][-1] in SW]
            if not sw or any(x[0] == "op" and x[1] != "Not" for x in o):
                continue
            negated = any(x == ("op", "Not") for x in o) != VW[0]
            tg = {v: tb for v, tb in t["targets"]}
            if tg.get(0) is None:
                continue
            off_t = tg[0] if negated else t["otherwise"]         # skip flag true = validation off
            on_t = t["otherwise"] if negated else tg[0]
            vals = lambda start: {v for j in sb.reachable(start) for v in _ret_assigns(sb, j)}
            offv, onv = vals(off_t), vals(on_t)
            if len(offv) == 1 and None not in offv and (onv - offv):
                out[sb.def_] = next(iter(offv))
    return out


def _ret_assigns(sb, j):
    """constant outcomes assigned to the return place in block j (None = a computed one)"""
    res = []
    for s in sb.stmts(j):
        if s["k"] == "assign" and s["lhs"]["l"] == 0 and not s["lhs"].get("p"):
            rv = s["rv"]
            if rv["k"] == "use" and "bool" in (op_const(rv["op"]) or {}):
                res.append(("bool", op_const(rv["op"])["bool"]))
            elif rv["k"] == "agg" and rv.get("variant"):
                res.append(("variant", rv["variant"]))
            else:
                res.append(None)
    t = sb.term(j)
    if t["k"] == "call" and t.get("dest") and t["dest"]["l"] == 0 and not t["dest"].get("p"):
        res.append(None)
    return res


def gate_switch_value(b, i, outcome):
    """the value the switch in block i takes for the gate's `outcome`"""
    if outcome[0] == "bool":
        return 1 if outcome[1] else 0
    for s in b.stmts(i):
        if s["k"] == "assign" and s["rv"]["k"] == "discr":
            for d, n in s["rv"].get("variants", []):
                if n == outcome[1]:
                    return d
    return None


def false_only_after_error(sb):
    dom = sb.dominators()
    errs = error_blocks(sb, ("extend_mut", "invalid_mut", "error"))
    for j in sb.live_blocks():
        for s in sb.stmts(j):
            if s["k"] == "assign" and s["lhs"]["l"] == 0 and not s["lhs"].get("p") and s["rv"]["k"] == "use" and (op_const(s["rv"]["op"]) or {}).get("bool") is False:
                if not any(dominates(sb, e, j, dom) for e in errs):
                    return False
            elif s["k"] == "assign" and s["lhs"]["l"] == 0 and not s["lhs"].get("p") and not (s["rv"]["k"] == "use" and "bool" in (op_const(s["rv"]["op"]) or {})):
                return False   # computed result: not understood
    return True


def _switch_ordinal(b, i, pr):
    sws = [j for j in sorted(b.live_blocks()) if b.term(j)["k"] == "switch"]
    return sws.index(i)


def member_emission_sites(F):
    """(body, json_string callsite, name operand) where `,` name `:` is appended to a buffer that carries top-level members"""
    out = []
    for b in F.all_bodies(CR):
        if not c02.in_scope(b) or "extend_with_strings" in b.path:
            continue
        for c in b.calls():
            if c.name != "push" or len(c.args) < 2 or (op_const(c.args[1]) or {}).get("int") != 58:
                continue
            # receiver = result of a json_string call (builder chain) or the same buffer right after json_string
            js = None
            l = op_local(c.args[0])
            tgt = single_def_ref_target(b, l) if l is not None else None
            if tgt is not None and [e[0] for e in tgt.get("p", [])] == ["deref"]:
                for kind, bb, idx, node in b.defs().get(tgt["l"], []):
                    if kind == "call" and (node.get("callee") or {}).get("name") == "json_string":
                        from mq.facts import CallSite
                        js = CallSite(b, bb, node)
            if js is None:
                # statement form: buf.json_string(name); buf.push(':')  -> the json_string call immediately dominating
                dom = b.dominators()
                cands = [x for x in b.calls() if x.name == "json_string" and x.target == c.bb]
                js = cands[0] if cands else None
            if js is not None and len(js.args) > 1:
                out.append((b, js, js.args[1]))
    return out


def registry_fields(F):
    """names of the field(s) holding the per-entry name registry: HashMap-typed fields of the type that implements the core
    EntryWriter trait in the EMF crate (identified by role, not by the name `validation_map`)"""
    c_ = getattr(F, "_registry_fields", None)
    if c_ is None:
        c_ = set()
        for imp in F.impls_of("EntryWriter"):
            if imp["crate"] != CR:
                continue
            adt = F.adts.get((imp.get("self_head") or {}).get("adt") or "")
            for v in (adt or {}).get("variants", []):
                for f in v["fields"]:
                    if "HashMap<" in f["ty"]:
                        c_.add(f["name"])
        F._registry_fields = c_
    return c_


def registered(F, b, name_op, depth):
    pr = Prov(b, adapter_pred=lambda t: (t.get("callee") or {}).get("name") in ("deref", "as_ref", "borrow", "as_str"))
    no = pr.operand(name_op)
    roots = {(x[1], x[2]) for x in no if x[0] == "arg"}
    # registration in this body: entry_ref(validation_map, key) with key from the same root
    for c in b.calls():
        if c.name in ("entry_ref", "entry", "insert", "get_mut") and "hashbrown" in c.def_ or c.name in ("entry_ref",):
            if len(c.args) < 2:
                continue
            mo = pr.operand(c.args[0])
            if not any(x[0] == "arg" and set(x[2]) & registry_fields(F) for x in mo):
                continue
            ko = pr.operand(c.args[1])
            kr = {(x[1], x[2]) for x in ko if x[0] == "arg"}
            if roots & kr:
                return True, "registered by %s on the validation map in %s" % (c.name, b.path)
    # helper bodies reachable from here that register the same field (e.g. validate_string(&mut self))
    for c in b.calls():
        for sb in local_callee_bodies(F, c):
            if sb.crate != CR or not c.args:
                continue
            so = pr.operand(c.args[0])
            if any(x[0] == "arg" and x[1] == 1 and not x[2] for x in so) and roots and all(r[0] == 1 for r in roots):
                ok, how = registered_fields(F, sb, {r[1] for r in roots})
                if ok:
                    return True, how
    # ... or a free helper that is handed the registry and the name as separate arguments (`validate_string(&mut self.map, .., &self.name)`)
    for c in b.calls():
        for sb in local_callee_bodies(F, c):
            if sb.crate != CR:
                continue
            spr = Prov(sb, adapter_pred=lambda t: (t.get("callee") or {}).get("name") in ("deref", "as_ref", "borrow", "as_str"))
            for x in sb.calls():
                if x.name == "entry_ref" and len(x.args) >= 2:
                    pm = [y[1] for y in spr.operand(x.args[0]) if y[0] == "arg" and not y[2]]
                    pk = [y[1] for y in spr.operand(x.args[1]) if y[0] == "arg" and not y[2]]
                    if pm and pk and pm[0] - 1 < len(c.args) and pk[0] - 1 < len(c.args) and sb.must_pass([x.bb]):
                        mo = pr.operand(c.args[pm[0] - 1])
                        kr = {(y[1], y[2]) for y in pr.operand(c.args[pk[0] - 1]) if y[0] == "arg"}
                        if any(y[0] == "arg" and set(y[2]) & registry_fields(F) for y in mo) and roots & kr:
                            return True, "registered by %s (handed the registry and the name) called from %s" % (sb.name, b.path)
    # bare parameter: look at the callers
    bare = [r for r in roots if not r[1]]
    if bare and depth > 0:
        callers = [cs for cs in F.callers_of(b.path, crates=[CR]) if c02.in_scope(cs.body)]
        if callers:
            hows = []
            for cs in callers:
                ai = bare[0][0] - 1
                if ai >= len(cs.args):
                    return False, "caller %s does not pass the name" % cs.body.path
                ok, how = registered(F, cs.body, cs.args[ai], depth - 1)
                if not ok:
                    return False, how
                hows.append(how)
            return True, "; ".join(sorted(set(hows)))
    return False, "name origin %s in %s has no entry in the validation map" % (sorted(map(str, no))[:3], b.path)


def registered_fields(F, b, fieldpaths):
    pr = Prov(b, adapter_pred=lambda t: (t.get("callee") or {}).get("name") in ("deref", "as_ref", "borrow", "as_str"))
    for c in b.calls():
        if c.name == "entry_ref" and len(c.args) >= 2:
            mo = pr.operand(c.args[0])
            ko = pr.operand(c.args[1])
            if any(x[0] == "arg" and set(x[2]) & registry_fields(F) for x in mo) and any(x[0] == "arg" and x[1] == 1 and x[2] in fieldpaths for x in ko):
                return True, "registered by entry_ref in %s" % b.path
    return False, ""

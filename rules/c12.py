"""C12 — sampling: decision consistency, weight application, clamp (structural clauses)."""
from mq.util import *
from mq.prov import Prov
from mq.facts import CallSite

EXPL = ("R12.1 in every sampling formatter the call of format_with_sample_rate is control-dependent exactly on `draw <= rate` "
        "(comparison forms normalised; `rate == 1.0` short-cut allowed), the compared rate and the passed rate have the same single "
        "origin, and the non-emitting branch returns without touching the output; R12.2 format_with_sample_rate rejects non-positive "
        "/ NaN rates before anything else and passes Some(n) with n = rate_to_n(rate, rng) to the formatter (the weight then reaches "
        "every count: R03.1); R12.5 the data slice of that weight (through the local helpers) contains no "
        "f32 arithmetic, no f32 method call, no narrowing cast, and takes the floor as f64->u64; R12.3 every value stored into a congressional group's sample rate is the constant 1.0 or clamped by "
        "min(1.0), and the derived Default (0.0) is only used as the base of a struct update that overrides the rate; R12.4 every "
        "iteration of a rate-update loop over the groups stores a rate (no group keeps a stale one). Not decided: "
        "unbiasedness (expectation 1/rate), budget and monotonicity of congressional rates, 1/rate rounding.")
W = "metrique_writer"
CMP = ("Le", "Lt", "Ge", "Gt")


def discr_def(b, bb, t):
    """defining rvalue of the switch discriminant (binop / call result) within the body"""
    l = op_local(t["discr"])
    if l is None:
        return None
    for kind, dbb, idx, node in b.defs().get(l, []):
        if b.is_cleanup(dbb):
            continue
        if kind == "assign" and node["k"] == "assign":
            rv = node["rv"]
            if rv["k"] == "use" and op_local(rv["op"]) is not None:
                # one copy
                for k2, b2, i2, n2 in b.defs().get(op_local(rv["op"]), []):
                    if k2 == "assign" and n2["k"] == "assign":
                        return n2["rv"]
                    if k2 == "call":
                        return {"k": "call", "bb": b2, "term": n2}
            return rv
        if kind == "call":
            return {"k": "call", "bb": dbb, "term": node}
    return None


def controlling_switches(b, site_bb):
    """switch blocks from which site_bb is reachable through some but not all successors"""
    out = []
    dom = b.dominators()
    for i in b.live_blocks():
        t = b.term(i)
        if t["k"] != "switch" or i == site_bb:
            continue
        if site_bb not in b.reachable(i):
            continue
        succs = b.succ(i)
        # within one iteration: do not travel through the switch again
        r = [site_bb in b.reachable(s, avoid=[i]) for s in succs]
        if any(r) and not all(r):
            no = [s for s, x in zip(succs, r) if not x]
            # a loop-continuation edge (the other side comes back to this very switch) decides nothing about reaching the site
            rets = set(b.return_blocks())
            live_no = [s for s in no if (b.reachable(s) & rets) or i in b.reachable(s)]
            if live_no and all(i in b.reachable(s) and not (b.reachable(s, avoid=[i]) & rets) for s in live_no):
                continue
            out.append((i, t, [s for s, x in zip(succs, r) if x], no))
    return out


def run(ctx):
    F = ctx.facts("dbg")
    samplers = []
    for b in F.all_bodies(W):
        if b.impl and (b.impl.get("trait") or "").endswith("::Format") and b.name == "format" and b.path.startswith("<metrique_writer::sample"):
            if any(c.is_trait_method("SampledFormat", "format_with_sample_rate") for c in b.calls()):
                samplers.append(b)
    ctx.floor("R12.1", "sampling formatters (Format impls calling format_with_sample_rate)", len(samplers), 2)
    for b in samplers:
        pr = Prov(b)
        key = fnkey(b)
        sites = [c for c in b.calls() if c.is_trait_method("SampledFormat", "format_with_sample_rate")]
        for s in sites:
            rate_arg = s.args[-1]
            rate_o = {x for x in pr.operand(rate_arg) if x[0] in ("arg", "call", "const")}
            ctx.check(not any(x[0] == "const" for x in rate_o) and len(rate_o) == 1, "R12.1", key + "#passed-rate-single-origin", loc(b, s.bb),
                      "the rate handed to format_with_sample_rate has origins %s (a constant or several sources): the weight would not match the sampling decision" % sorted(map(str, rate_o)))
            cs = controlling_switches(b, s.bb)
            draw_ok_box = [False]
            problems = []

            def phi_defs(l):
                """definitions of a bool local assigned on several paths (`let c = a || b;`): [(block, const bool | rvalue)]"""
                out = []
                for kind, dbb, idx, node in b.defs().get(l, []):
                    if b.is_cleanup(dbb) or kind != "assign" or node["k"] != "assign" or node["lhs"].get("p"):
                        return None
                    rv_ = node["rv"]
                    k_ = op_const(rv_["op"]) if rv_["k"] == "use" else None
                    if k_ is not None and "bool" in k_:
                        out.append((dbb, k_["bool"]))
                    elif rv_["k"] == "use" and op_local(rv_["op"]) is not None:
                        sub = [d for d in b.defs().get(op_local(rv_["op"]), []) if not b.is_cleanup(d[1])]
                        if len(sub) == 1 and sub[0][0] == "assign":
                            out.append((dbb, sub[0][3]["rv"]))
                        elif len(sub) == 1:
                            out.append((dbb, {"k": "call", "bb": sub[0][1], "term": sub[0][3]}))
                        else:
                            return None
                    else:
                        out.append((dbb, rv_))
                return out

            def handle(rv, i, site_on_true, no, depth=0):
                if rv is None:
                    problems.append("unrecognised condition at bb%d" % i)
                    return
                # the comparison may be made by a private bool helper that is handed the rate (`self.rng.keeps(rate)`): read it there
                via_helper = None
                if rv.get("k") == "call":
                    hcs = CallSite(b, rv["bb"], rv["term"])
                    for hb in local_callee_bodies(F, hcs):
                        if hb.crate != W or hb.locals[0]["ty"] != "bool":
                            continue
                        hpr = Prov(hb)
                        for hi in hb.live_blocks():
                            for hs in hb.stmts(hi):
                                if hs["k"] == "assign" and hs["rv"]["k"] == "binop" and hs["rv"]["op"] in CMP:
                                    hao, hbo = hpr.operand(hs["rv"]["a"]), hpr.operand(hs["rv"]["b"])
                                    isd = lambda o_: any(x[0] == "call" and hb.term(x[1]).get("callee", {}).get("name") in ("random", "gen", "random_range", "sample") for x in o_)
                                    par = lambda o_: [x[1] for x in o_ if x[0] == "arg" and not x[2]]
                                    if isd(hao) and par(hbo):
                                        via_helper = (hs["rv"]["op"], True, False, par(hbo)[0], hcs)
                                    elif isd(hbo) and par(hao):
                                        via_helper = (hs["rv"]["op"], False, True, par(hao)[0], hcs)
                if (rv.get("k") == "binop" and rv["op"] in CMP) or via_helper:
                    if via_helper:
                        hop, a_draw, b_draw, hparam, hcs = via_helper
                        passed = {x for x in pr.operand(hcs.args[hparam - 1]) if x[0] in ("arg", "call", "const")} if hparam - 1 < len(hcs.args) else set()
                        a_rate, b_rate = (passed == rate_o and b_draw), (passed == rate_o and a_draw)
                        ao, bo = (set(), passed) if a_draw else (passed, set())
                        rv = {"k": "binop", "op": hop}
                    else:
                        ao, bo = pr.operand(rv["a"]), pr.operand(rv["b"])
                        a_draw = any(x[0] == "call" and b.term(x[1]).get("callee", {}).get("name") in ("random", "gen", "random_range", "sample") for x in ao)
                        b_draw = any(x[0] == "call" and b.term(x[1]).get("callee", {}).get("name") in ("random", "gen", "random_range", "sample") for x in bo)
                        a_rate = {x for x in ao if x[0] in ("arg", "call", "const")} == rate_o
                        b_rate = {x for x in bo if x[0] in ("arg", "call", "const")} == rate_o
                    if (a_draw and b_rate) or (b_draw and a_rate):
                        op = rv["op"]
                        if b_draw:   # rate OP draw  ->  draw OP' rate
                            op = {"Le": "Ge", "Lt": "Gt", "Ge": "Le", "Gt": "Lt"}[op]
                        # emit iff draw <= rate
                        good = (op == "Le" and site_on_true) or (op == "Gt" and not site_on_true)
                        if good:
                            draw_ok_box[0] = True
                            # the other side: returns without using the output
                            other = no
                            used = []
                            outs = [i2 for i2 in range(1, b.arg_count + 1) if "io::Write" in b.locals[i2]["ty"]]
                            for ob in other:
                                for j in b.reachable(ob):
                                    tt = b.term(j)
                                    if tt["k"] == "call" and any(any(o[0] == "arg" and o[1] in outs for o in pr.operand(a)) for a in tt["args"]):
                                        used.append(j)
                            ctx.check(not used, "R12.1", key + "#not-sampled-writes-nothing", loc(b, i), "the not-sampled branch still uses the output (bb%s)" % used)
                        else:
                            problems.append("sampling decision is `draw %s rate` with the emitting branch on %s: must be emit <=> draw <= rate" % (
                                {"Le": "<=", "Lt": "<", "Ge": ">=", "Gt": ">"}[op], "true" if site_on_true else "false"))
                        return
                    if (a_draw or b_draw) and not (a_rate or b_rate):
                        problems.append("the random draw is compared against %s, but the rate passed on is %s" % (
                            sorted(map(str, (bo if a_draw else ao)))[:2], sorted(map(str, rate_o))))
                        return
                if rv.get("k") == "binop" and rv["op"] in ("Eq", "Ne"):
                    ao, bo = pr.operand(rv["a"]), pr.operand(rv["b"])
                    consts = [x for x in ao | bo if x[0] == "const"]
                    is_one = any(x[1] == ("float", "1.0") for x in consts)
                    rside = {x for x in (ao | bo) if x[0] in ("arg", "call")} == {x for x in rate_o if x[0] != "const"}
                    if is_one and rside and ((rv["op"] == "Eq" and site_on_true) or (rv["op"] == "Ne" and not site_on_true)):
                        return
                # guards whose other side panics are not sampling conditions
                if all(not (set(b.reachable(x)) & set(b.return_blocks())) for x in no):
                    return
                problems.append("emission also depends on an unrecognised condition at bb%d" % i)

            for i, t, yes, no in cs:
                tg = {v: tb for v, tb in t["targets"]}
                false_t, true_t = tg.get(0), t["otherwise"]
                site_on_true = true_t in yes
                dl = op_local(t["discr"])
                for _hop in range(3):        # through plain copies of the condition
                    dd_ = [d for d in b.defs().get(dl, []) if not b.is_cleanup(d[1])] if dl is not None else []
                    if len(dd_) == 1 and dd_[0][0] == "assign" and dd_[0][3]["rv"]["k"] == "use" and op_local(dd_[0][3]["rv"]["op"]) is not None:
                        dl = op_local(dd_[0][3]["rv"]["op"])
                    else:
                        break
                defs_ = phi_defs(dl) if dl is not None and len([d for d in b.defs().get(dl, []) if not b.is_cleanup(d[1])]) > 1 else None
                if defs_:
                    # a condition computed on several paths: each way of making it "emit" is judged on its own
                    for dbb, v in defs_:
                        if isinstance(v, bool):
                            if v == site_on_true:
                                for i2, t2, yes2, no2 in controlling_switches(b, dbb):
                                    tg2 = {vv: tb for vv, tb in t2["targets"]}
                                    handle(discr_def(b, i2, t2), i2, t2["otherwise"] in yes2, [], 1)
                        else:
                            handle(v, i, site_on_true, no, 1)
                    continue
                handle(discr_def(b, i, t), i, site_on_true, no)
            draw_ok = draw_ok_box[0]
            ctx.check(draw_ok and not problems, "R12.1", key + "#emit-iff-draw<=rate", loc(b, s.bb),
                      "; ".join(problems) or "the call of format_with_sample_rate is not guarded by `draw <= rate` on the passed rate",
                      "emit <=> draw <= rate, same rate origin %s" % sorted(map(str, rate_o)))
    # ------------------------------------------------------------------ R12.2
    impls = [b for b in F.all_bodies("metrique_writer_format_emf") if b.name == "format_with_sample_rate" and b.impl and (b.impl.get("trait") or "").endswith("SampledFormat")]
    ctx.floor("R12.2", "SampledFormat implementations in the EMF crate", len(impls), 1)
    for b in impls:
        pr = Prov(b)
        key = fnkey(b)
        rate_l = b.arg_count   # last parameter
        from rules.c03 import weight_types
        WT = weight_types(F)
        is_wt = lambda c: len(c.args) >= 4 and op_local(c.args[3]) is not None and b.local_ty(op_local(c.args[3])) in WT
        fm = [c for c in b.calls() if any(sb.crate == b.crate for sb in local_callee_bodies(F, c)) and is_wt(c)]
        carried = weight_carried(F, b, WT) if not fm else []
        n_carriers = len({id(x[4]) for x in carried})          # one `and_then` may be fed by several `Ok(n)` sites: each is judged below
        ctx.check(len(fm) + n_carriers == 1, "R12.2", key + "#single-weighted-format-call", loc(b),
                  "expected one call passing the multiplicity, found %d" % (len(fm) + n_carriers))
        # (site whose guards are judged, operand the weight comes from, is it Some(..) at the call, blocks that reject by yielding Err)
        forms = [(c, c.args[3], None, None) for c in fm] + [(cc, payload, some_, res_locals) for cc, payload, some_, res_locals, _ in carried]
        for c, w_op, some_c, res_locals in forms:
            o = pr.operand(w_op)
            some = any(x[0] == "agg" and x[2] == WT[b.local_ty(op_local(c.args[3]))] for x in o) if some_c is None else some_c
            ncalls = [x[1] for x in o if x[0] == "call"]
            okn = False
            for nb in ncalls:
                nt = b.term(nb)
                if any(sb.crate == b.crate for sb in local_callee_bodies(F, CallSite(b, nb, nt))) and nt["args"]:
                    okn = okn or any(any(x[0] == "arg" and x[1] == rate_l and not x[2] for x in pr.operand(a_)) for a_ in nt["args"])
            ctx.check(some and okn, "R12.2", key + "#multiplicity-from-rate", loc(b, c.bb),
                      "the multiplicity passed to the formatter is not Some(n) with n computed from the `rate` parameter (origins %s)" % sorted(map(str, o))[:4])
            # guards: rate <= 0.0 and is_nan reject before the call
            guards = rate_guards(b, pr, c.bb, rate_l, res_locals)
            if not (guards["nonpositive"] and guards["nan"]):
                # ... or inside the private helper that turns the rate into the weight and is fallible for that reason
                # (`let n = self.weight_for_rate(rate)?`): there the guards decide between `Ok(n)` and `Err(..)`
                for nb in ncalls:
                    nt = b.term(nb)
                    for hb in local_callee_bodies(F, CallSite(b, nb, nt)):
                        if hb.crate != b.crate or "Result<u64" not in (hb.d.get("output") or "").replace("core::result::", ""):
                            continue
                        rp = [ai + 1 for ai, a in enumerate(nt["args"]) if any(x[0] == "arg" and x[1] == rate_l and not x[2] for x in pr.operand(a))]
                        if not rp or len(nt["args"]) != hb.arg_count:
                            continue
                        hpr = Prov(hb)
                        oks = [i_ for i_ in hb.live_blocks() for st_ in hb.stmts(i_) if st_["k"] == "assign" and st_["lhs"]["l"] == 0 and not st_["lhs"].get("p")
                               and st_["rv"]["k"] == "agg" and st_["rv"].get("variant") == "Ok"]
                        gs = [rate_guards(hb, hpr, i_, rp[0], None) for i_ in oks]
                        if gs and all(g_["nonpositive"] and g_["nan"] for g_ in gs):
                            guards = {"nonpositive": True, "nan": True}
            ctx.check(guards["nonpositive"], "R12.2", key + "#rejects-non-positive-rate", loc(b, c.bb), "a rate <= 0 is not rejected with an error before formatting")
            ctx.check(guards["nan"], "R12.2", key + "#rejects-nan-rate", loc(b, c.bb), "a NaN rate is not rejected with an error before formatting")
    # ------------------------------------------------------------------ R12.5 the weight is computed from the rate at f64 precision
    # backward data slice from the multiplicity handed to the formatter, through the local helpers that produce it
    ARITH = ("Add", "Sub", "Mul", "Div", "Rem", "AddWithOverflow", "SubWithOverflow", "MulWithOverflow", "AddUnchecked", "SubUnchecked", "MulUnchecked")

    def op_ty(b, o):
        c = op_const(o)
        if c is not None:
            return c.get("ty", "")
        pl = o.get("copy") or o.get("move")
        if pl is None:
            return ""
        if pl.get("p"):
            last = pl["p"][-1]
            return last[4] if last[0] == "f" and len(last) > 4 else ""
        return b.local_ty(pl["l"])

    def slice_check(b, roots, depth, seen_bodies, stats):
        """walk the data dependences of `roots` (locals) in b; report precision-losing steps"""
        bad = []
        defs = b.defs()
        seen, work = set(), list(roots)
        while work:
            l = work.pop()
            if l in seen:
                continue
            seen.add(l)
            for kind, bb_, j, node in defs.get(l, []):
                if b.is_cleanup(bb_):
                    continue
                if kind == "call":
                    cs = CallSite(b, bb_, node)
                    stats["calls"] += 1
                    d = (cs.resolved or cs.def_ or "")
                    if "f32" in d and "::<impl f32>::" in d or d.startswith("core::f32::") or d.startswith("std::f32::"):
                        bad.append((bb_, "calls %s on the 32-bit rate" % cs.name))
                    for a in node["args"]:
                        pl = a.get("copy") or a.get("move")
                        if pl is not None:
                            work.append(pl["l"])
                    if depth > 0:
                        for sb in local_callee_bodies(F, cs):
                            if sb.crate == b.crate and sb.def_ not in seen_bodies:
                                seen_bodies.add(sb.def_)
                                bad += [(None, "%s: %s" % (sb.name, m)) for _, m in slice_check(sb, [0], depth - 1, seen_bodies, stats)]
                                # the weight is a function of the rate and the draw alone: a helper on the way keeps nothing between
                                # calls (a memo of the last split written through a `&mut` parameter makes the weight depend on history)
                                spr = Prov(sb)
                                for i_ in sb.live_blocks():
                                    for st_ in sb.stmts(i_):
                                        if st_["k"] == "assign" and has_deref(st_["lhs"]) and any(e_[0] == "f" for e_ in st_["lhs"].get("p", [])) and \
                                                any(x[0] == "arg" for x in spr.local(st_["lhs"]["l"])):
                                            bad.append((None, "%s stores into state it was lent (`%s`): the weight then depends on earlier calls" % (
                                                sb.name, ".".join(e_[2] for e_ in st_["lhs"]["p"] if e_[0] == "f"))))
                    continue
                if node["k"] != "assign":
                    continue
                rv = node["rv"]
                ops = []
                if rv["k"] == "binop":
                    ops = [rv["a"], rv["b"]]
                    stats["ops"] += 1
                    if rv["op"] in ARITH and any(op_ty(b, o) == "f32" for o in ops):
                        bad.append((bb_, "%s in 32-bit floating point" % rv["op"]))
                elif rv["k"] == "unop":
                    ops = [rv["a"]]
                elif rv["k"] == "cast":
                    ops = [rv["op"]]
                    stats["casts"] += 1
                    src = op_ty(b, rv["op"])
                    if rv["kind"].startswith("FloatToFloat") and rv["ty"] == "f32":
                        bad.append((bb_, "narrows to f32"))
                    if rv["kind"].startswith("FloatToInt") and (src != "f64" or rv["ty"] not in ("u64", "u128")):
                        bad.append((bb_, "floor taken as `%s as %s` (expected f64 as u64)" % (src, rv["ty"])))
                elif rv["k"] == "use":
                    ops = [rv["op"]]
                elif rv["k"] in ("agg",):
                    ops = rv["ops"]
                elif rv["k"] == "ref":
                    work.append(rv["place"]["l"])
                for o in ops:
                    pl = o.get("copy") or o.get("move")
                    if pl is not None:
                        work.append(pl["l"])
        return bad

    n5 = 0
    max_visited = 0
    for b in impls:
        direct5 = [(c, c.args[3]) for c in b.calls() if any(sb.crate == b.crate for sb in local_callee_bodies(F, c)) and len(c.args) >= 4 and
                   op_local(c.args[3]) is not None and b.local_ty(op_local(c.args[3])) in weight_types(F)]
        for c, w_op in direct5 or [(x[0], x[1]) for x in weight_carried(F, b, weight_types(F))]:
            stats = {"calls": 0, "ops": 0, "casts": 0}
            visited = set()
            bad = slice_check(b, [op_local(w_op)], 5, visited, stats)
            n5 += stats["ops"] + stats["casts"]
            ctx.check(not bad, "R12.5", fnkey(b) + "#weight-computed-in-f64", loc(b, c.bb),
                      "the weight handed to the formatter is not a full-precision function of the rate and the draw alone: %s. (A 32-bit reciprocal has 24 "
                      "significant bits, so for rates below about 2^-24 the weight is no longer floor(1/rate) or ceil(1/rate); state kept between calls "
                      "makes the weight depend on the rates seen before)" % "; ".join(m for _, m in bad[:4]),
                      "data slice of the multiplicity through %s: %d arithmetic/cast steps, none on f32 values" % (sorted(x.split("::")[-1] for x in visited), stats["ops"] + stats["casts"]))
            max_visited = max(max_visited, len(visited))
    ctx.floor("R12.5", "helper bodies in the weight's data slice", max_visited, 2)
    ctx.floor("R12.5", "arithmetic and cast steps in the weight's data slice", n5, 4)
    # ------------------------------------------------------------------ R12.3
    n3 = 0
    # slot: the per-group rate field = the f32 field of a crate-local struct that an f32-returning method of a sampler hands back (and
    # that then becomes the rate passed to format_with_sample_rate); identified by role, whatever it is called
    RF, rf_adt = None, None

    def returned_f32_field(b_, depth=2):
        """(field, owner adt) when the f32 result of b_ is the f32 field of a crate-local struct, possibly handed up through private f32 helpers"""
        for i_ in b_.live_blocks():
            for s_ in b_.stmts(i_):
                if s_["k"] == "assign" and s_["lhs"]["l"] == 0 and s_["rv"]["k"] == "use":
                    pl = s_["rv"]["op"].get("copy") or s_["rv"]["op"].get("move")
                    if pl and pl.get("p") and pl["p"][-1][0] == "f" and len(pl["p"][-1]) > 4 and pl["p"][-1][4] == "f32" and pl["p"][-1][3].startswith(W + "::"):
                        return pl["p"][-1][2], pl["p"][-1][3]
        if depth > 0:
            for c_ in b_.calls():
                if not c_.dest.get("p") and (c_.dest["l"] == 0 or ("call", c_.bb) in Prov(b_).local(0)):
                    for hb in local_callee_bodies(F, c_):
                        if hb.crate == W and hb.d.get("output") == "f32":
                            r = returned_f32_field(hb, depth - 1)
                            if r:
                                return r
        return None
    for b_ in F.all_bodies(W):
        if b_.d.get("output") != "f32" or "::tests::" in b_.path or not b_.path.startswith(W + "::sample") or len(b_.d.get("inputs") or []) < 2:
            continue
        # ... whose result is what a sampler hands to format_with_sample_rate as the rate
        feeds_rate = False
        for cs_ in F.callers_of(b_.path, crates=[W]):
            cpr_ = Prov(cs_.body)
            for fc in cs_.body.calls():
                if fc.is_trait_method("SampledFormat", "format_with_sample_rate") and any(
                        ("call", cs_.bb) in cpr_.operand(a_) or ("via", cs_.bb) in cpr_.operand(a_) for a_ in fc.args):
                    feeds_rate = True
        if feeds_rate:
            r = returned_f32_field(b_)
            if r:
                RF, rf_adt = r
    gs = [a for a in F.adts.values() if a["crate"] == W and a["def"] == rf_adt]
    ctx.floor("R12.3", "group-state types holding a sample_rate", len(gs), 1)
    for adt in gs:
        for b in F.all_bodies(W):
            if "::tests::" in b.path:
                continue
            pr = None
            for i in b.live_blocks():
                for s in b.stmts(i):
                    if s["k"] != "assign":
                        continue
                    ops = []
                    fe = [e for e in s["lhs"].get("p", []) if e[0] == "f"]
                    if fe and fe[-1][2] == RF and fe[-1][3] == adt["def"]:
                        rv = s["rv"]
                        ops = [rv.get("op")] if rv["k"] == "use" else [None]
                    elif s["rv"]["k"] == "agg" and s["rv"].get("adt") == adt["def"]:
                        flds = s["rv"].get("fields") or []
                        if RF in flds:
                            ops = [s["rv"]["ops"][flds.index(RF)]]
                    for op in ops:
                        n3 += 1
                        pr = pr or Prov(b)
                        is_default = b.impl and (b.impl.get("trait") or "").endswith("Default") and b.name == "default"
                        if is_default:
                            # exempt iff every call of this default is the base of a struct update overriding sample_rate
                            ok = True
                            why = ""
                            for cs in F.callers_of("default", crates=[W]):
                                if not (cs.is_trait_method("Default", "default") and adt["def"] == (cs.self_ty or "")):
                                    continue
                                if "::tests::" in cs.body.path:
                                    continue
                                cb = cs.body
                                cpr = Prov(cb)
                                found = False
                                for j in cb.live_blocks():
                                    for s2 in cb.stmts(j):
                                        if s2["k"] == "assign" and s2["rv"]["k"] == "agg" and s2["rv"].get("adt") == adt["def"]:
                                            f2 = s2["rv"].get("fields") or []
                                            o2 = cpr.operand(s2["rv"]["ops"][f2.index(RF)])
                                            if ("call", cs.bb) not in o2:
                                                found = True
                                if not found:
                                    ok, why = False, cb.path
                            ctx.check(ok, "R12.3", adt["def"] + "#default-rate-always-overridden", loc(b, i),
                                      "the derived Default (sample_rate = 0.0) is used in %s without overriding the rate: the group would never be sampled" % why)
                            continue
                        good = False
                        if op is not None:
                            o = pr.operand(op)
                            if o and all(x == ("const", ("float", "1.0")) for x in o if x[0] != "via"):
                                good = True
                            mins = [x[1] for x in o if x[0] == "call" and (b.term(x[1]).get("callee") or {}).get("name") == "min"]
                            for mb in mins:
                                mt = b.term(mb)
                                if any((op_const(a) or {}).get("float") == "1.0" for a in mt["args"]):
                                    good = True
                            # two-way: select between 1.0 and a clamped value
                            if not good and o:
                                rest = [x for x in o if x[0] not in ("via",) and x != ("const", ("float", "1.0"))]
                                good = bool(rest) and all(x[0] == "call" and (b.term(x[1]).get("callee") or {}).get("name") == "min" and any(
                                    (op_const(a) or {}).get("float") == "1.0" for a in b.term(x[1])["args"]) for x in rest)
                        ctx.check(good, "R12.3", fnkey(b) + "#stored-rate-clamped@%d" % n3, loc(b, i),
                                  "a congressional sample rate is stored without being the constant 1.0 or clamped by min(1.0): rates above 1 "
                                  "would yield weights below 1 (counts rounded to 0)")
    ctx.floor("R12.3", "stores to a group's sample_rate", n3, 3)
    # ------------------------------------------------------------------ R12.4 no group keeps a stale rate across an update
    nl = 0
    # private methods of the group state that store a fresh rate into `self` on every path: calling one on the loop item is the store
    store_helpers = set()
    for adt in gs:
        for hb in F.all_bodies(W):
            if "::tests::" in hb.path or hb.kind == "Closure":
                continue
            hst = [i for i in hb.live_blocks() for s in hb.stmts(i) if s["k"] == "assign" and s["lhs"]["l"] == 1 and any(
                e[0] == "f" and e[2] == RF and e[3] == adt["def"] for e in s["lhs"].get("p", []))]
            if hst and hb.must_pass(hst) and adt["def"] in hb.locals[1]["ty"]:
                store_helpers.add(hb.def_)

    def rate_stores(b, adt):
        out = [i for i in b.live_blocks() for s in b.stmts(i) if s["k"] == "assign" and any(
            e[0] == "f" and e[2] == RF and e[3] == adt["def"] for e in s["lhs"].get("p", []))]
        if b.def_ not in store_helpers:
            out += [c.bb for c in b.calls() if any(sb.def_ in store_helpers for sb in local_callee_bodies(F, c))]
        return out
    for adt in gs:
        for b in F.all_bodies(W):
            if "::tests::" in b.path:
                continue
            stores = rate_stores(b, adt)
            if not stores:
                continue
            # loops over the group map whose body stores a rate: every iteration must store one
            for c in b.calls():
                if not (c.is_trait_method("Iterator", "next") and c.bb in b.reachable_after(c.bb)):
                    continue
                some_t = None
                for sw, tg, oth in switch_on_call_result(b, c):
                    some_t = tg.get(1)
                if some_t is None:
                    continue
                body_blocks = b.reachable(some_t, avoid=[c.bb])
                mine = [i for i in stores if i in body_blocks]
                if not mine:
                    continue
                nl += 1
                # the loop must range over the whole group map: no filtering / truncating adapter in front of it
                ro = Prov(b).operand(c.args[0])
                srcs = [(b.term(x[1]).get("callee") or {}).get("name") for x in ro if x[0] == "call"]
                partial = [n for n in srcs if n in ("filter", "filter_map", "skip", "take", "step_by", "take_while", "skip_while", "rev_filter", "flat_map")]
                whole = any(n in ("values_mut", "iter_mut", "values", "iter", "drain") for n in srcs)
                ctx.check(whole and not partial, "R12.4", fnkey(b) + "#rate-update-ranges-over-all-groups@loop%d" % nl, loc(b, c.bb),
                          "the rate-update loop ranges over a filtered / truncated view of the groups (%s): the groups left out keep a rate computed for an "
                          "older traffic mix, so the budget sum(volume x rate) <= target and the rarer-is-not-lower ordering no longer hold" % (partial or srcs))
                skip = some_t not in mine and c.bb in b.reachable(some_t, avoid=mine)
                ctx.check(not skip, "R12.4", fnkey(b) + "#every-group-gets-a-fresh-rate@loop%d" % nl, loc(b, c.bb),
                          "the rate-update loop can skip a group (an iteration reaches the next one without storing a rate): that group keeps a rate "
                          "computed for an older traffic mix while the others are given the whole budget, so sum(volume x rate) exceeds the target "
                          "and a rarer group can be sampled lower than a more frequent one")
    # ------------------------------------------------------------------ R12.8 what the rate is computed from is fresh too
    # an f32 field of the group state that feeds the stored rate (the seat count) is written for every group whenever it is written at
    # all: a path that leaves it as it was (a `nothing to do for this group` shortcut) makes the next rate a function of a stale interval
    n8 = 0
    for adt in gs:
        f32_fields = {f["name"] for v in adt["variants"] for f in v["fields"] if f["ty"] == "f32" and f["name"] != RF}
        feeding = set()
        for b in F.all_bodies(W):
            if "::tests::" in b.path:
                continue
            pr_ = None
            for i in b.live_blocks():
                for s_ in b.stmts(i):
                    if s_["k"] == "assign" and any(e[0] == "f" and e[2] == RF and e[3] == adt["def"] for e in s_["lhs"].get("p", [])):
                        # backward data slice of the stored value (through arithmetic and f32 methods such as min): which fields of the
                        # group state does it read?
                        defs = b.defs()
                        def _ops(rv_):
                            return {"binop": lambda: [rv_["a"], rv_["b"]], "unop": lambda: [rv_["a"]], "cast": lambda: [rv_["op"]], "use": lambda: [rv_["op"]],
                                    "agg": lambda: rv_["ops"]}.get(rv_["k"], lambda: [])()
                        seen_, work_ = set(), list(_ops(s_["rv"]))
                        while work_:
                            o_ = work_.pop()
                            pl = o_.get("copy") or o_.get("move") if isinstance(o_, dict) else None
                            if pl is None:
                                continue
                            for e in pl.get("p", []):
                                if e[0] == "f" and e[2] in f32_fields and len(e) > 3 and e[3] == adt["def"]:
                                    feeding.add(e[2])
                            if pl["l"] in seen_:
                                continue
                            seen_.add(pl["l"])
                            for kind, bb_, j, node in defs.get(pl["l"], []):
                                if b.is_cleanup(bb_):
                                    continue
                                if kind == "call":
                                    if ((node.get("callee") or {}).get("def") or "").startswith(("core::f32", "std::f32", "core::cmp")):
                                        work_ += list(node.get("args", []))
                                elif node["k"] == "assign":
                                    work_ += _ops(node["rv"])
                                    if node["rv"]["k"] == "ref":
                                        work_.append({"copy": node["rv"]["place"]})
        for sf in sorted(feeding):
            for b in F.all_bodies(W):
                if "::tests::" in b.path or b.kind == "Closure" and False:
                    continue
                st = [i for i in b.live_blocks() for s_ in b.stmts(i) if s_["k"] == "assign" and any(
                    e[0] == "f" and e[2] == sf and e[3] == adt["def"] for e in s_["lhs"].get("p", []))]
                if not st or (b.impl and (b.impl.get("trait") or "").endswith("Default")):
                    continue
                n8 += 1
                per_group = b.arg_count >= 1 and adt["def"] in b.locals[1]["ty"] and all(
                    s_["lhs"]["l"] == 1 for i in st for s_ in b.stmts(i) if s_["k"] == "assign" and any(e[0] == "f" and e[2] == sf for e in s_["lhs"].get("p", [])))
                if per_group:
                    ok8 = b.must_pass(st)
                else:
                    # stores inside loops over the groups: no iteration reaches the next one without the store
                    ok8 = True
                    for c in b.calls():
                        if not (c.is_trait_method("Iterator", "next") and c.bb in b.reachable_after(c.bb)):
                            continue
                        some_t = None
                        for sw, tg, oth in switch_on_call_result(b, c):
                            some_t = tg.get(1)
                        if some_t is None:
                            continue
                        mine = [i for i in st if i in b.reachable(some_t, avoid=[c.bb])]
                        if mine and some_t not in mine and c.bb in b.reachable(some_t, avoid=mine):
                            ok8 = False
                ctx.check(ok8, "R12.8", fnkey(b) + "#%s-rewritten-for-every-group" % sf, loc(b, st[0]),
                          "`%s` feeds the sampling rate but is not rewritten on every path (a group can keep the value of an older interval): the rate "
                          "computed for it combines a stale share with the current scale, so sum(volume x rate) can exceed the target" % sf,
                          "written on every path")
    ctx.floor("R12.8", "bodies writing a field the rate is computed from", n8, 1)
    # ------------------------------------------------------------------ R12.6 the per-group moving average is updated as a unit
    # a struct embedded in the group state whose fields only make sense together (value + warm-up count): any body that writes one
    # of its fields writes all of them; a partial write (e.g. zeroing the value but keeping the sample count) leaves a state that the
    # update rule can never produce and that skews every later rate
    n6 = 0
    for adt in gs:
        subs = {f["head"]["adt"] for v in adt["variants"] for f in v["fields"] if (f.get("head") or {}).get("adt", "").startswith(W + "::") and not f["head"].get("refs")}
        for sd in sorted(subs):
            sa = F.adts.get(sd)
            if not sa or sa.get("kind") == "enum" or len(sa["variants"]) != 1:
                continue
            fields = {f["name"] for f in sa["variants"][0]["fields"]}
            if len(fields) < 2:
                continue
            # the moving average by role: a floating-point value kept together with an integer warm-up count (a struct of plain
            # counters, whose fields are independent of each other, is not it)
            ftys_ = [f["ty"] for f in sa["variants"][0]["fields"]]
            if not (any(t_ in ("f32", "f64") for t_ in ftys_) and any(t_ in ("u8", "u16", "u32", "u64", "usize") for t_ in ftys_)):
                continue
            for b in F.all_bodies(W):
                if "::tests::" in b.path:
                    continue
                written = set()
                for i in b.live_blocks():
                    for st in b.stmts(i):
                        if st["k"] == "assign":
                            for e in st["lhs"].get("p", []):
                                if e[0] == "f" and len(e) > 3 and e[3] == sd:
                                    written.add(e[2])
                if not written:
                    continue
                n6 += 1
                ctx.check(written == fields, "R12.6", fnkey(b) + "#updates-%s-as-a-unit" % sd.split("::")[-1], loc(b),
                          "writes %s of %s but not %s: the moving average is left in a state its update rule cannot produce (for example a forgotten value with "
                          "a saturated sample count), so a group's average - and with it every rate computed from it - is wrong for many intervals" %
                          (sorted(written), sd.split("::")[-1], sorted(fields - written)),
                          "writes all of %s" % sorted(fields))
    ctx.floor("R12.6", "bodies updating the per-group moving average", n6, 1)
    # ------------------------------------------------------------------ R12.7 observations are counted in integers
    # a per-entry counter kept in a float stops counting at 2^24 (f32) / 2^53 (f64): `x += 1.0` then leaves x unchanged, the recorded volume
    # of a busy group is too low and its rate too high
    n7 = 0
    fcount = []
    for b in F.all_bodies(W):
        if "::tests::" in b.path or not b.path.replace("<", "").startswith(W + "::sample"):
            continue
        for i in b.live_blocks():
            for st in b.stmts(i):
                if st["k"] == "assign" and st["rv"]["k"] == "binop" and st["rv"]["op"] in ("Add", "AddWithOverflow", "AddUnchecked"):
                    a_, b__ = st["rv"]["a"], st["rv"]["b"]
                    for x_, k_ in ((a_, b__), (b__, a_)):
                        kc = op_const(k_)
                        pl = x_.get("copy") or x_.get("move")
                        if kc is None or pl is None:
                            continue
                        is_field = bool(pl.get("p")) and pl["p"][-1][0] == "f"
                        if not is_field:
                            # `let t = self.f; t + 1` - follow one copy
                            dd = [d for d in b.defs().get(pl["l"], []) if d[0] == "assign" and d[3]["rv"]["k"] == "use"]
                            if len(dd) == 1:
                                p2 = dd[0][3]["rv"]["op"].get("copy") or dd[0][3]["rv"]["op"].get("move")
                                is_field = bool(p2 and p2.get("p") and p2["p"][-1][0] == "f")
                        if is_field and ("int" in kc or "float" in kc):
                            n7 += 1
                            if "float" in kc or kc.get("ty") in ("f32", "f64"):
                                fcount.append((b, i, kc.get("ty")))
    ctx.check(not fcount, "R12.7", W + "::sample#counters-are-integers", loc(fcount[0][0], fcount[0][1]) if fcount else "",
              "a per-entry counter is kept in floating point (`field += %s` in %s): it saturates at 2^24 / 2^53, after which the recorded volume of a busy "
              "group stays too low and its sampling rate too high (budget exceeded)" % (fcount[0][2] if fcount else "", fcount[0][0].name if fcount else ""),
              "%d constant increments of state fields, all on integer types" % n7)
    ctx.floor("R12.7", "constant increments of sampler state fields", n7, 2)
    # the same update written with an internal-iteration adapter: `groups.values_mut().for_each(|g| g.sample_rate = ..)`
    for adt in gs:
        for cb in F.all_bodies(W):
            if cb.kind != "Closure" or "::tests::" in cb.path:
                continue
            stores = rate_stores(cb, adt)
            if not stores:
                continue
            for pb in F.all_bodies(W):
                for c in pb.calls():
                    if c.name not in ("for_each", "for_each_mut") or cb not in closure_args(F, c):
                        continue
                    nl += 1
                    ro = Prov(pb).operand(c.args[0])
                    srcs = [(pb.term(x[1]).get("callee") or {}).get("name") for x in ro if x[0] == "call"]
                    partial = [n for n in srcs if n in ("filter", "filter_map", "skip", "take", "step_by", "take_while", "skip_while", "flat_map")]
                    whole = any(n in ("values_mut", "iter_mut", "values", "iter", "drain") for n in srcs)
                    ctx.check(whole and not partial, "R12.4", fnkey(pb) + "#rate-update-ranges-over-all-groups@loop%d" % nl, loc(pb, c.bb),
                              "the rate update ranges over a filtered / truncated view of the groups (%s): the groups left out keep a stale rate" % (partial or srcs))
                    ctx.check(cb.must_pass(stores), "R12.4", fnkey(pb) + "#every-group-gets-a-fresh-rate@loop%d" % nl, loc(pb, c.bb),
                              "the per-group update closure can return without storing a rate: that group keeps a rate computed for an older traffic mix")
    ctx.floor("R12.4", "rate-update loops", nl, 1)
    return EXPL


def rate_guards(b, pr, site_bb, rate_l, res_locals):
    """which of the two rejections (`rate <= 0`, `rate.is_nan()`) control reaching block site_bb of b, each with an error on the other side"""
    guards = {"nonpositive": False, "nan": False}
    for i, t, yes, no in controlling_switches(b, site_bb):
        rv = discr_def(b, i, t)
        tg = {v: tb for v, tb in t["targets"]}
        site_on_true = t["otherwise"] in yes
        if rv and rv.get("k") == "binop" and rv["op"] in CMP:
            ao, bo = pr.operand(rv["a"]), pr.operand(rv["b"])
            zero_b = any(x == ("const", ("float", "0.0")) for x in bo)
            zero_a = any(x == ("const", ("float", "0.0")) for x in ao)
            ra = any(x[0] == "arg" and x[1] == rate_l for x in ao)
            rb = any(x[0] == "arg" and x[1] == rate_l for x in bo)
            if (ra and zero_b and rv["op"] == "Le" and not site_on_true) or (rb and zero_a and rv["op"] == "Ge" and not site_on_true) or \
               (ra and zero_b and rv["op"] == "Gt" and site_on_true) or (rb and zero_a and rv["op"] == "Lt" and site_on_true):
                guards["nonpositive"] = all(_returns_err(b, x, res_locals) for x in no)
        if rv and rv.get("k") == "call" and (rv["term"].get("callee") or {}).get("name") == "is_nan":
            ro = pr.operand(rv["term"]["args"][0])
            if any(x[0] == "arg" and x[1] == rate_l for x in ro) and not site_on_true:
                guards["nan"] = all(_returns_err(b, x, res_locals) for x in no)
    return guards


class _Site:
    """a block standing in for the weighted call when that call sits in a closure run by Result::and_then"""
    def __init__(self, bb):
        self.bb = bb


def weight_carried(F, b, WT):
    """the form `let w = if bad { Err(..) } else { Ok(n) }; w.and_then(|n| format(.., Some(n)))`: the weighted call sits in a closure that
    std runs on the Ok payload only, and whose result is this body's result. -> [(site = where Ok(n) is built, operand of n, the
    closure passes Some(its parameter), locals in which an Err is a rejection)]"""
    out = []
    pr = Prov(b)
    for c in b.calls():
        if c.name != "and_then" or "result::Result" not in (c.def_ or "") or not c.args:
            continue
        for cl in closure_args(F, c):
            cpr = Prov(cl)
            wcs = [x for x in cl.calls() if any(sb.crate == b.crate for sb in local_callee_bodies(F, x)) and len(x.args) >= 4 and
                   op_local(x.args[3]) is not None and cl.local_ty(op_local(x.args[3])) in WT]
            if len(wcs) != 1 or not cl.must_pass([wcs[0].bb]):
                continue
            wo = cpr.operand(wcs[0].args[3])
            some = any(x[0] == "agg" and x[2] == WT[cl.local_ty(op_local(wcs[0].args[3]))] for x in wo) and any(x[0] == "arg" and x[1] == 2 and not x[2] for x in wo)
            # the result of and_then is what the body returns
            if c.dest.get("p") or not (c.dest["l"] == 0 or ("call", c.bb) in pr.local(0)):
                continue
            # the receiver: a local that is built as Ok(n) / Err(e)
            from rules.c14 import ref_aliases
            r = op_local(c.args[0])
            al = set()
            work = [r]
            while work:
                l = work.pop()
                if l is None or l in al:
                    continue
                al.add(l)
                for kind, bb_, j, node in b.defs().get(l, []):
                    if kind == "assign" and node["k"] == "assign" and node["rv"]["k"] == "use":
                        work.append(op_local(node["rv"]["op"]))
            for i in b.live_blocks():
                for st in b.stmts(i):
                    if st["k"] == "assign" and st["lhs"]["l"] in al and not st["lhs"].get("p") and st["rv"]["k"] == "agg" and st["rv"].get("variant") == "Ok":
                        out.append((_Site(i), st["rv"]["ops"][0], some, al | {0}, c))
    return out


def _returns_err(b, start, locals_=None):
    blocks = []
    for i in b.reachable(start):
        for s in b.stmts(i):
            if s["k"] == "assign" and s["lhs"]["l"] in (locals_ or (0,)) and not s["lhs"].get("p") and s["rv"]["k"] == "agg" and s["rv"].get("variant") == "Err":
                blocks.append(i)
    return bool(blocks) and b.must_pass(blocks, start=start)

"""C19 — declaring or converting a unit never changes the physical quantity reported."""
from mq.util import *
from mq.prov import Prov, promoted_summary
from mq.facts import CallSite
from mq import witness

EXPL = ("W19.1 all 3x3 + 20x20 conversion ratios and their inverses, W19.2 all 26 unit names, the None->X ratios and the Duration "
        "default are closed constant expressions of the type-checked program: they are enumerated exhaustively against an "
        "independent table and discharged by rustc's constant evaluator (a violating tree fails to build the witness crate). "
        "W19.3 cross-family conversions and unit-on-string do not type-check (compile_fail witnesses with compiling twins). "
        "R19.4 the converting writer forwards only under `unit == From::UNIT`, with unit To::UNIT, the distribution mapped through "
        "Convert::convert, dimensions and flags by identity; mismatch and string go to invalid(). R19.5 Convert::convert is the "
        "identity only under RATIO == 1.0, every other arm multiplies the value / total by RATIO, emits that product unaltered (no cast, rounding or "
        "further arithmetic after the multiplication) and leaves occurrences unchanged. "
        "R19.6 the unit constant Duration writes equals its declared MetricValue::Unit. R19.7 the number written for a Duration is read through an exact accessor "
        "(as_secs_f64 / as_nanos), never a truncating one. R19.8 a Value::write body that builds its own checking / converting writer writes every "
        "wrapped generic value through such a writer, never through the caller's writer. Not decided: rounding of value x ratio.")
CORE = "metrique_writer_core"


def conv_params(b):
    """(X, Y) when body b maps an iterator through `<X as Convert<Y>>::convert`"""
    for c_ in b.calls():
        if c_.name == "map" and len(c_.args) > 1:
            f_ = (op_const(c_.args[1]) or {}).get("fn", {})
            if f_.get("def", "").endswith("Convert::convert") and len(f_.get("args", [])) >= 2:
                return f_["args"][0], f_["args"][1]
    return None


def converting_writer_types(F):
    """self types of the ValueWriter impls whose `metric` converts units (the writer WithUnit wraps around the caller's writer)"""
    return {(b.impl or {}).get("self_ty") for b in F.all_bodies(CORE) if b.name == "metric" and b.impl and
            (b.impl.get("trait") or "").endswith("ValueWriter") and conv_params(b)}


def _judge_forward(ctx, F, b, pr, key, c, inv, FROM, TO):
    # control dependence on unit == From::UNIT
    from rules.c12 import controlling_switches, discr_def
    okc = False
    for i, t, yes, no in controlling_switches(b, c.bb):
        rv = discr_def(b, i, t)
        if rv and rv.get("k") == "call" and (rv["term"].get("callee") or {}).get("name") in ("ne", "eq"):
            nm = rv["term"]["callee"]["name"]
            ao = set()
            for a in rv["term"]["args"]:
                ao |= pr.operand(a)
            unit_p = any(x[0] == "arg" and x[1] == 3 for x in ao)
            from_unit = False
            for a in rv["term"]["args"]:
                l = op_local(a)
                # promoted constant referring to <From as UnitTag>::UNIT
                for x in pr.operand(a):
                    if x[0] == "const":
                        from_unit = True
            # the promoted holds `From::UNIT`: check its body mentions generic From
            proms = b.d.get("promoted") or []
            mentions = any("UnitTag::UNIT" in str(p) and ("'%s'" % FROM) in str(p) for p in proms)
            site_on_true = t["otherwise"] in yes
            good = unit_p and mentions and ((nm == "ne" and not site_on_true) or (nm == "eq" and site_on_true))
            okc = okc or good
            if good:
                ctx.check(all(any(x.bb in b.reachable(n_) for x in inv) and c.bb not in b.reachable(n_) for n_ in no), "R19.4", key + "#mismatch-is-invalid", loc(b, i),
                          "a value that writes another unit than it promised is not reported as invalid")
    ctx.check(okc, "R19.4", key + "#forwards-only-when-unit-matches", loc(b, c.bb), "the conversion is applied without checking that the value wrote the unit it promised (wrongly scaled numbers)")
    # unit argument = To::UNIT
    k = op_const(c.args[2]) or {}
    ctx.check(k.get("uneval", "").endswith("UnitTag::UNIT") and k.get("uneval_args") == [TO], "R19.4", key + "#emits-target-unit", loc(b, c.bb), "the forwarded unit is not To::UNIT (%s)" % (k.get("uneval"), ))
    # distribution mapped through Convert::convert
    do = pr.operand(c.args[1])
    maps = [x for x in do if x[0] == "call" and b.term(x[1])["callee"]["name"] == "map"]
    okm = False
    for x in maps:
        mt = b.term(x[1])
        fnarg = op_const(mt["args"][1]) if len(mt["args"]) > 1 else None
        f = (fnarg or {}).get("fn", {})
        okm = okm or (f.get("def", "").endswith("Convert::convert") and f.get("args", [])[:2] == [FROM, TO] and FROM != TO and any(y[0] == "arg" and y[1] == 2 for y in pr.operand(mt["args"][0])))
    ctx.check(okm, "R19.4", key + "#observations-converted", loc(b, c.bb), "the distribution is not mapped through <From as Convert<To>>::convert")
    for j, nm in ((4, "dimensions"), (5, "flags")):
        o = pr.operand(c.args[j - 1])
        ctx.check(any(x[0] == "arg" and x[1] == j for x in o) and not any(x[0] == "call" for x in o), "R19.4", key + "#%s-identity" % nm, loc(b, c.bb), "%s are not passed through unchanged" % nm)


def run(ctx):
    F = ctx.facts("dbg")
    res = witness.run_witness()
    witness.report_group(ctx, "W19.1", res, "units", "unit ratio / inverse / name obligations")
    witness.report_cf(ctx, "W19.3", res, "C19")
    # ------------------------------------------------------------------ R19.4
    # the converting writer, by what it does: the ValueWriter::metric body that maps its distribution through `<X as Convert<Y>>::convert`
    # (where the type is declared, what it and its generic parameters are called, is private detail)
    ws = [b for b in F.all_bodies(CORE) if b.name == "metric" and b.impl and (b.impl.get("trait") or "").endswith("ValueWriter") and conv_params(b)]
    ctx.floor("R19.4", "unit-converting writer", len(ws), 1)
    for b in ws:
        FROM, TO = conv_params(b)
        pr = Prov(b)
        key = fnkey(b)
        fw = [c for c in b.calls() if c.is_trait_method("ValueWriter", "metric")]
        inv = [c for c in b.calls() if c.is_trait_method("ValueWriter", "invalid")]
        ctx.check(len(fw) >= 1 and len(inv) >= 1, "R19.4", key + "#forward-or-invalid", loc(b), "expected a forwarding call and an invalid() path (fw=%d inv=%d)" % (len(fw), len(inv)))
        if not fw:
            continue
        # every forwarding call is judged on its own (a second, unguarded one - a `fast path` - is as bad as an unguarded only one)
        for c in fw:
            _judge_forward(ctx, F, b, pr, key + ("" if c is fw[0] else "@forward%d" % fw.index(c)), c, inv, FROM, TO)
    conv_self = {(b.impl or {}).get("self_ty") for b in ws}
    ss = [b for b in F.all_bodies(CORE) if b.name == "string" and b.impl and (b.impl.get("trait") or "").endswith("ValueWriter") and b.impl.get("self_ty") in conv_self]
    ctx.floor("R19.4", "string method of the unit-converting writer", len(ss), 1)
    for b in ss:
        inv = [c for c in b.calls() if c.is_trait_method("ValueWriter", "invalid")]
        st = [c for c in b.calls() if c.is_trait_method("ValueWriter", "string")]
        ctx.check(bool(inv) and not st and b.must_pass([c.bb for c in inv]), "R19.4", fnkey(b) + "#string-with-unit-rejected", loc(b), "a string written through a unit wrapper is not rejected")
    # ------------------------------------------------------------------ R19.5
    cv = [b for b in F.all_bodies(CORE) if b.name == "convert" and b.d.get("in_trait", "").endswith("unit::Convert")]
    ctx.floor("R19.5", "Convert::convert default body", len(cv), 1)
    for b in cv:
        key = fnkey(b)
        pr = Prov(b)
        ident = []
        muls = []
        for i in b.live_blocks():
            for s in b.stmts(i):
                if s["k"] == "assign" and s["lhs"]["l"] == 0 and not s["lhs"].get("p"):
                    if s["rv"]["k"] == "use" and op_local(s["rv"]["op"]) == 1:
                        ident.append(i)
                    elif s["rv"]["k"] == "agg":
                        muls.append((i, s))
        # identity only under RATIO == 1.0
        okid = False
        for i in b.live_blocks():
            t = b.term(i)
            if t["k"] == "switch":
                for s in b.stmts(i):
                    if s["k"] == "assign" and s["rv"]["k"] == "binop" and s["rv"]["op"] == "Eq":
                        ops = [op_const(s["rv"]["a"]) or {}, op_const(s["rv"]["b"]) or {}]
                        if any(o.get("uneval", "").endswith("Convert::RATIO") for o in ops) and any(o.get("float") == "1.0" for o in ops):
                            tg = {v: tb for v, tb in t["targets"]}
                            true_t = t["otherwise"]
                            okid = all(j in b.reachable(true_t) and j not in b.reachable(tg.get(0)) for j in ident) and bool(ident)
        ctx.check(okid, "R19.5", key + "#identity-only-when-ratio-1", loc(b), "the observation is returned unconverted on a path that is not guarded by RATIO == 1.0")
        # the arms may live in a private helper that is handed (observation, RATIO): `scale_observation(observation, Self::RATIO)`
        is_ratio = lambda x: x[0] == "const" and isinstance(x[1], tuple) and x[1][0] == "uneval" and x[1][1].endswith("Convert::RATIO")
        conv = b
        if len(muls) < 3:
            for c in b.calls():
                if c.dest.get("p") or not any(x[0] in ("call", "via") and x[1] == c.bb for x in pr.local(0)) and c.dest["l"] != 0:
                    continue
                rp = [ai for ai, a in enumerate(c.args) if any(is_ratio(x) for x in pr.operand(a))]
                obs = [ai for ai, a in enumerate(c.args) if any(x[0] == "arg" and x[1] == 1 for x in pr.operand(a))]
                for hb in local_callee_bodies(F, c):
                    if hb.crate == CORE and rp and obs:
                        hm = [(i, s) for i in hb.live_blocks() for s in hb.stmts(i) if s["k"] == "assign" and s["lhs"]["l"] == 0 and not s["lhs"].get("p") and s["rv"]["k"] == "agg"]
                        if len(hm) >= 3:
                            b, muls, pr = hb, hm, Prov(hb)
                            is_ratio = lambda x, p_=rp[0] + 1: x[0] == "arg" and x[1] == p_ and not x[2]
        ctx.check(len(muls) >= 3, "R19.5", key + "#three-arms", loc(b), "expected Unsigned / Floating / Repeated arms, found %d" % len(muls))
        for i, s in muls:
            flds = dict(zip(s["rv"].get("fields") or [], s["rv"]["ops"]))
            var = s["rv"].get("variant")
            valf = "total" if var == "Repeated" else (s["rv"].get("fields") or ["0"])[0]
            o = pr.operand(flds[valf])
            scaled = ("op", "Mul") in o and any(is_ratio(x) for x in o)
            ctx.check(scaled, "R19.5", key + "#%s-scaled-by-ratio" % var, loc(b, i), "the %s arm does not multiply the value by Self::RATIO (origins %s)" % (var, sorted(map(str, o))[:4]))
            # ... and the product is what is emitted: nothing (a narrowing cast, a rounding call, further arithmetic) sits between
            # the multiplication and the observation
            l, hops, last = op_local(flds[valf]), 0, None
            while l is not None and hops < 6:
                dd = [d for d in b.defs().get(l, []) if not b.is_cleanup(d[1])]
                if len(dd) != 1:
                    last = {"k": "multiple definitions"}
                    break
                if dd[0][0] == "call":
                    last = {"k": "call " + ((dd[0][3].get("callee") or {}).get("name") or "?")}
                    break
                last = dd[0][3]["rv"]
                if last["k"] == "use" and op_local(last["op"]) is not None:
                    l = op_local(last["op"])
                    hops += 1
                    continue
                break
            direct = bool(last) and last.get("k") == "binop" and last.get("op") == "Mul"
            what = (last or {}).get("k", "?") + ((" " + last.get("kind", "")) if last and last.get("k") == "cast" else "")
            ctx.check(direct, "R19.5", key + "#%s-product-emitted-unaltered" % var, loc(b, i),
                      "the %s arm post-processes the product value x RATIO (%s) before emitting it: a float-to-integer cast saturates at u64::MAX and "
                      "truncates, so large or fractional converted values are no longer value x ratio" % (var, what.strip()),
                      "the emitted value is the product itself")
            if var == "Repeated":
                oo = pr.operand(flds["occurrences"])
                ctx.check(not any(x[0] == "op" for x in oo) and any(x[0] == "arg" and "occurrences" in x[2] for x in oo), "R19.5", key + "#occurrences-unchanged", loc(b, i), "occurrences are altered by a unit conversion")
    # ------------------------------------------------------------------ R19.6
    dv = [b for b in F.all_bodies(CORE) if b.name == "write" and b.impl and (b.impl.get("trait") or "").endswith("::Value") and b.impl.get("self_ty") == "core::time::Duration"]
    ctx.floor("R19.6", "Value for Duration", len(dv), 1)
    def metric_sites(b):
        """where body b emits its metric: [(block, distribution operand, unit operand)] - the ValueWriter::metric call itself, or the call of
        a private helper that forwards an observation and a unit it is given to ValueWriter::metric"""
        out = [(c.bb, c.args[1], c.args[2]) for c in b.calls() if c.is_trait_method("ValueWriter", "metric") and len(c.args) > 2]
        for c in b.calls():
            for hb in local_callee_bodies(F, c):
                if hb.crate != CORE or hb.kind == "Closure":
                    continue
                hm = [x for x in hb.calls() if x.is_trait_method("ValueWriter", "metric") and len(x.args) > 2]
                if len(hm) != 1 or not hb.must_pass([hm[0].bb]):
                    continue
                hpr = Prov(hb)
                dp = [x[1] for x in hpr.operand(hm[0].args[1]) if x[0] == "arg" and not x[2]]
                dp += [x[1] for x in hpr.operand(hm[0].args[1]) if x[0] == "arg"]
                for i_ in hb.live_blocks():
                    for s_ in hb.stmts(i_):
                        if s_["k"] == "assign" and s_["rv"]["k"] == "agg" and s_["rv"].get("agg") == "array":
                            dp += [x[1] for o_ in s_["rv"]["ops"] for x in hpr.operand(o_) if x[0] == "arg"]
                up = [x[1] for x in hpr.operand(hm[0].args[2]) if x[0] == "arg" and not x[2]]
                if dp and up and dp[0] - 1 < len(c.args) and up[0] - 1 < len(c.args):
                    out.append((c.bb, c.args[dp[0] - 1], c.args[up[0] - 1]))
        return out
    for b in dv:
        ok = False
        for sbb, dist_op, unit_op in metric_sites(b):
            o = Prov(b).operand(unit_op)
            ok = ok or any(x[0] == "agg" and x[2] == "Second" for x in o) and any(x[0] == "agg" and x[2] == "Milli" for x in o) or "Milli" in str(op_const(unit_op) or "")
        ctx.check(ok, "R19.6", fnkey(b) + "#writes-milliseconds-unit", loc(b), "Duration is not written with Unit::Second(Milli) although its declared unit is Millisecond")
    # ------------------------------------------------------------------ R19.7 a Duration becomes a number without truncation
    TRUNC = ("as_micros", "as_millis", "as_secs", "subsec_micros", "subsec_millis", "as_secs_f32", "as_millis_f32")
    n7 = 0
    for b in dv:
        for sbb, dist_op, unit_op in metric_sites(b):
            seen_b, bad, exact = set(), [], []

            def walk(body, roots, depth):
                defs = body.defs()
                seen, work = set(), list(roots)
                while work:
                    l = work.pop()
                    if l in seen:
                        continue
                    seen.add(l)
                    for kind, bb_, j, node in defs.get(l, []):
                        if body.is_cleanup(bb_):
                            continue
                        if kind == "call":
                            cs = CallSite(body, bb_, node)
                            d_ = cs.resolved or cs.def_ or ""
                            if "Duration" in d_ and cs.name in TRUNC:
                                bad.append("%s in %s" % (cs.name, body.name))
                            if "Duration" in d_ and cs.name in ("as_secs_f64", "as_nanos", "subsec_nanos", "as_millis_f64"):
                                exact.append(cs.name)
                            for a in node["args"]:
                                pl = a.get("copy") or a.get("move")
                                if pl is not None:
                                    work.append(pl["l"])
                            if depth > 0:
                                for sb in local_callee_bodies(F, cs):
                                    if sb.crate == body.crate and sb.def_ not in seen_b:
                                        seen_b.add(sb.def_)
                                        walk(sb, [0], depth - 1)
                            continue
                        if node["k"] != "assign":
                            continue
                        rv = node["rv"]
                        ops = {"binop": lambda: [rv["a"], rv["b"]], "unop": lambda: [rv["a"]], "cast": lambda: [rv["op"]], "use": lambda: [rv["op"]],
                               "agg": lambda: rv["ops"]}.get(rv["k"], lambda: [])()
                        if rv["k"] == "ref":
                            work.append(rv["place"]["l"])
                        for o in ops:
                            pl = o.get("copy") or o.get("move")
                            if pl is not None:
                                work.append(pl["l"])
            root = op_local(dist_op)
            if root is None:
                continue
            n7 += 1
            walk(b, [root], 3)
            ctx.check(not bad and bool(exact), "R19.7", fnkey(b) + "#duration-read-without-truncation", loc(b, sbb),
                      "the number written for a Duration is derived through a truncating accessor (%s): the part of the duration below that unit is "
                      "dropped before any unit is attached, so number x unit no longer equals the measured time" % ", ".join(bad) if bad else
                      "cannot find how the Duration is turned into a number (expected as_secs_f64 / as_nanos)",
                      "Duration read through %s only" % sorted(set(exact)))
    ctx.floor("R19.7", "Duration value writes", n7, 1)
    # ------------------------------------------------------------------ R19.8 a unit-aware value never hands the raw writer to the value it wraps
    # wherever a Value::write body builds a checking / converting writer of its own (WithUnit's Wrapper, the distribution Collector, ...),
    # every write of a wrapped generic value goes through such a writer: a shortcut that passes the caller's writer straight on skips the
    # `written unit == promised unit` check for that path
    vw_adts = {(imp.get("self_head") or {}).get("adt") for imp in F.impls_of("ValueWriter") if imp["crate"] in (CORE, "metrique_writer")}
    vw_adts = {a for a in vw_adts if a and (a.startswith("metrique_writer") or a.startswith("<metrique_writer"))}
    n8 = 0
    for cr in (CORE, "metrique_writer"):
        for b in F.all_bodies(cr):
            # a Value::write body, or a private helper such a body delegates the collecting to (`collect_observations(values, unit, ..)`)
            if "::tests::" in b.path or "::test_util" in b.path or b.kind == "Closure":
                continue
            if not (b.name == "write" and b.impl and (b.impl.get("trait") or "").endswith("::Value")) and (b.impl or {}).get("trait"):
                continue
            own = [(i_, s_["lhs"]["l"]) for i_ in b.live_blocks() for s_ in b.stmts(i_) if s_["k"] == "assign" and s_["rv"]["k"] == "agg" and s_["rv"].get("adt") in vw_adts]
            # ... or obtains one from a private constructor (`ConvertingWriter::new(writer)`)
            own += [(c_.bb, c_.dest["l"]) for c_ in b.calls() if not c_.dest.get("p") and (b.locals[c_.dest["l"]].get("head") or {}).get("adt") in vw_adts and local_callee_bodies(F, c_)]
            if not own or not ("unit::" in b.path or "distribution" in b.path or "MetricValue" in str(b.d.get("preds", ""))):
                continue
            pr = Prov(b)
            own_locals = {l for _, l in own}
            for c in b.calls():
                if not c.is_trait_method("Value", "write") or len(c.args) < 2:
                    continue
                st = c.self_ty or ""
                if "::" in st and not st.startswith("&"):      # a concrete helper type of this body, not a wrapped generic value
                    continue
                n8 += 1
                o = pr.operand(c.args[1])
                through = any(x[0] == "agg" and x[1] in vw_adts for x in o) or (op_local(c.args[1]) in own_locals) or \
                    any(x[0] == "agg" for x in o) or any(x[0] == "call" for x in o)
                raw = any(x[0] == "arg" and x[1] == 2 and not x[2] for x in o) and not through
                ctx.check(not raw, "R19.8", fnkey(b) + "#inner-value-written-through-own-writer", loc(b, c.bb),
                          "the wrapped value is written to the caller's writer directly on some path, bypassing this type's own checking / converting writer: "
                          "a value that writes another unit than it declares is then emitted under the declared unit without a validation error",
                          "inner write goes through the body's own writer")
    ctx.floor("R19.8", "inner writes in unit-aware Value::write bodies", n8, 1)
    # ------------------------------------------------------------------ R19.9 a collecting writer takes observations only under `written unit == promised unit`
    # the writers that gather the observations of a wrapped value (distribution / mean collectors) compare the unit they are handed with
    # the promised one they keep; the observations (parameter 2) are consumed only on paths that pass the `units are equal` outcome of
    # that comparison - a comparison that is bypassed once some flag is set lets later values through under the wrong unit
    n9 = 0
    for cr in (CORE, "metrique_writer"):
        for b in F.all_bodies(cr):
            if not (b.name == "metric" and b.impl and (b.impl.get("trait") or "").endswith("::ValueWriter")) or "::tests::" in b.path or "::test_util" in b.path or b.arg_count < 3:
                continue
            pr = Prov(b)
            cmps = []
            for c in b.calls():
                if c.name in ("eq", "ne") and "unit::Unit" in (c.self_ty or "") and len(c.args) == 2:
                    oa, ob = pr.operand(c.args[0]), pr.operand(c.args[1])
                    unit_side = lambda o: any(x[0] == "arg" and x[1] == 3 and not x[2] for x in o)
                    kept_side = lambda o: any(x[0] == "arg" and x[1] == 1 and x[2] for x in o)
                    if (unit_side(oa) and kept_side(ob)) or (unit_side(ob) and kept_side(oa)):
                        cmps.append(c)
            if not cmps:
                continue
            # where the observations are consumed: the distribution parameter handed to into_iter / a recording call
            uses = [c for c in b.calls() if any(any(x[0] == "arg" and x[1] == 2 and not x[2] for x in pr.operand(a)) for a in c.args)]
            eq_edges = set()
            for c in cmps:
                for sw, tg, oth in switch_on_call_result(b, c):
                    t_true, t_false = tg.get(1, oth if 0 in tg else None), tg.get(0, oth if 1 in tg else None)
                    eq_t = t_true if c.name == "eq" else t_false
                    if eq_t is not None:
                        eq_edges.add((sw, eq_t))
            # path-sensitive: the decision may be stored first (`let rejection = if unit != expected { Some(..) } ..; match rejection`)
            from mq.sim import Sim, Budget

            class _Passed(Sim):
                def on_edge(self, src, dst, a, env):
                    return True if (src, dst) in eq_edges else a

                def on_call(self, t, bb, a, env):
                    if not a and bb in use_bbs:
                        bad_uses.add(bb)
                    return None
            use_bbs, bad_uses = {u.bb for u in uses}, set()
            try:
                _Passed(b).run(0, False)
            except Budget:
                bad_uses = set(use_bbs)
            for u in uses:
                n9 += 1
                ctx.check(u.bb not in bad_uses and bool(eq_edges), "R19.9", fnkey(b) + "#observations-taken-only-when-unit-matches", loc(b, u.bb),
                          "the collecting writer consumes the observations on a path that does not pass the `written unit == promised unit` outcome "
                          "(the comparison is skipped or its result ignored there): numbers written under another unit are recorded under the promised one "
                          "without a validation error", "every path to the consumption passes the units-equal edge")
    ctx.floor("R19.9", "consumption sites in unit-checking collectors", n9, 1)
    return EXPL

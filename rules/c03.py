"""C03 — EMF content fidelity (structural clauses only)."""
from mq.util import *
from mq.facts import strip_generics
from mq.prov import Prov
from mq.facts import CallSite
import rules.c02 as c02

EXPL = ("R03.1 weight flow: every count written by the observation writer derives from the sampling multiplicity parameter (the "
        "Repeated arm through saturating_mul with the occurrence count), the multiplicity is threaded unchanged from "
        "format_with_multiplicity through the per-call writer down to that writer; R03.2 the (definition buffer, value buffer) pair "
        "handed to the metric writer has a single owner on each path; R03.3 on the skipped path the value buffer is rolled back to a "
        "snapshot taken before the write and no definition is written; on the NoMetric path no definition is written; R03.4 both "
        "emission branches of finish replicate the directive for every additional namespace; R03.6 a record (global or per dimension set) is skipped only on "
        "paths through the 'its value buffer is empty' outcome - the value buffer being the one the routing site hands to the metric writer "
        "as value target - and every successful emission performs at least one write; R03.7 (= R02.6) names and string "
        "values reach the record only through the escaper, exactly once, never as a raw copy (so the parsed text is the exact text); "
        "R03.5 the buffers that carry the dimension "
        "sets of the directive (global dimension array, per-dimension-set records) are rebuilt from the entry's / the configured sets in "
        "every call (reset-before-use, same analysis as R14.2), so a record never declares another entry's dimension sets. Not decided: number formatting, means, "
        "timestamps, cartesian dimension sets (runtime values).")
CR = c02.CR


def binds_param(F, b, param_pred, depth=4):
    pass


PSB = "PrefixedStringBuf"


def bundle_fields(F, ty):
    """buffer fields of a private by-value struct of the crate that bundles buffer references (`struct MetricTarget { metrics_buf: &mut
    PrefixedStringBuf, fields_buf: &mut PrefixedStringBuf, index }`): handing the bundle is handing its buffers"""
    if ty.startswith("&") or PSB in ty:
        return []
    a = F.adts.get(ty.split("<")[0])
    if not a or a["crate"] != CR or a.get("kind") != "Struct" or len(a["variants"]) != 1:
        return []
    return [f["name"] for f in a["variants"][0]["fields"] if f["ty"].startswith("&") and PSB in f["ty"]]


def buf_slots(F, b):
    """the buffers a body is handed: (parameter, None) for a buffer parameter, (parameter, field) for a buffer field of a bundle parameter"""
    out = []
    for i in range(1, b.arg_count + 1):
        ty = b.locals[i]["ty"]
        if PSB in ty and not bundle_fields(F, ty):
            if ty.startswith("&") or ty.split("<")[0].endswith(PSB):
                out.append((i, None))
        else:
            out += [(i, f) for f in bundle_fields(F, ty)]
    return out


def slot_match(y, slot):
    if isinstance(slot, int):
        slot = (slot, None)
    return y[0] == "arg" and y[1] == slot[0] and (slot[1] is None or (len(y[2]) > 0 and y[2][0] == slot[1]))


def buf_handles(F, b, a):
    """number of buffers an argument operand hands over"""
    l = op_local(a)
    if l is None:
        return 0
    ty = b.local_ty(l)
    if PSB in ty and not bundle_fields(F, ty):
        return 1
    return len(bundle_fields(F, ty))


def writer_roles(F, b, pr=None):
    """(value buffer, definition buffer) of a metric writer, as buffer slots"""
    pr = pr or Prov(b)
    bufs = buf_slots(F, b)
    valbuf, defbuf = bufs[0], bufs[1]
    # roles by what is done with the buffers, not by their position in the signature: the definition buffer is the one that
    # receives the `{"Name":` literal here; the value buffer is the one on which the inner writer emits the member name
    sim_ = c02.BufSim(F, b, CR)
    named = [p_ for p_ in bufs if any(x.name == "push_raw_str" and len(x.args) > 1 and '"Name":' in (sim_._const_str(x.args[1]) or "") and
                                      any(slot_match(y, p_) for y in pr.operand(x.args[0])) for x in b.calls())]
    if len(named) == 1:
        defbuf = named[0]
        rest = [p_ for p_ in bufs if p_ != defbuf]
        valbuf = rest[0]
        for x in b.calls():
            for sb in local_callee_bodies(F, x):
                if sb.crate != CR:
                    continue
                spr = Prov(sb)
                for ai, a in enumerate(x.args):
                    src = [p_ for p_ in rest if any(slot_match(y, p_) for y in pr.operand(a))]
                    if src and any(z.name == "json_string" and z.args and any(y[0] == "arg" and y[1] == ai + 1 for y in spr.operand(z.args[0])) for z in sb.calls()):
                        valbuf = src[0]
    return valbuf, defbuf


def run(ctx):
    F = ctx.facts("dbg")
    wo = [b for b in F.all_bodies(CR) if c02.in_scope(b) and any(c.name == "push_integer" for c in b.calls()) and
          any(b.locals[i]["ty"] in weight_types(F) or b.locals[i]["ty"] == "u64" for i in range(1, b.arg_count + 1)) and any("Observation" in b.locals[i]["ty"] and not b.locals[i]["ty"].startswith("impl") for i in range(1, b.arg_count + 1))]
    wo = [b for b in wo if sum(1 for i in range(1, b.arg_count + 1) if "PrefixedStringBuf" in b.locals[i]["ty"]) >= 2 and
          not any("Iterator" in b.locals[i]["ty"] for i in range(1, b.arg_count + 1))]
    ctx.floor("R03.1", "observation writers (two buffers + observation + multiplicity)", len(wo), 1)
    for b in wo:
        pr = Prov(b, multi=dict({"core::option::Option::<T>::unwrap_or": (0, 1)}, **{d_: (0,) for d_ in weight_accessors(F)}))
        # the weight parameter: the optional multiplicity itself, or (unwrapped by the caller with the default 1) a plain u64
        mult = ([i for i in range(1, b.arg_count + 1) if b.locals[i]["ty"] in weight_types(F)] or
                [i for i in range(1, b.arg_count + 1) if b.locals[i]["ty"] == "u64"])[0]
        bufs = [i for i in range(1, b.arg_count + 1) if "PrefixedStringBuf" in b.locals[i]["ty"]]
        counts = bufs[1]
        n = 0
        for c in b.calls():
            if c.name != "push_integer":
                continue
            ro = pr.operand(c.args[0])
            if not any(x[0] == "arg" and x[1] == counts for x in ro):
                continue
            n += 1
            o = pr.operand(c.args[1])
            from_m = any(x[0] == "arg" and x[1] == mult for x in o)
            key = fnkey(b) + "#count%d-carries-multiplicity" % n
            muls = [x for x in o if x[0] == "call" and "mul" in (b.term(x[1]).get("callee") or {}).get("name", "")]
            rawmul = [x for x in o if x[0] == "op" and x[1] in ("Mul", "MulWithOverflow", "MulUnchecked")]
            ok = from_m
            detail = "origins %s" % sorted(map(str, o))[:4]
            if muls:
                ok = True
                for x in muls:
                    t = b.term(x[1])
                    nm = t["callee"]["name"]
                    ao = set()
                    for a in t["args"]:
                        ao |= pr.operand(a)
                    ok = ok and nm == "saturating_mul" and any(y[0] == "arg" and y[1] == mult for y in ao)
                    detail = "%s(%s)" % (nm, "occurrences, multiplicity")
            if rawmul:
                ok = False
                detail = "plain `*` can overflow"
            ctx.check(ok, "R03.1", key, loc(b, c.bb),
                      "a count is written that does not carry the sampling multiplicity (or combines it with a non-saturating multiplication): %s" % detail, detail)
        ctx.floor("R03.1", "count writes in the observation writer", n, 1)
        # threading of the multiplicity from the caller chain
        chain_ok, how = thread_param(F, b, mult, depth=4)
        ctx.check(chain_ok, "R03.1", fnkey(b) + "#multiplicity-threaded-from-format", loc(b), how, how)
    # EntryWriter.multiplicity set only from the format_with_multiplicity parameter
    n_agg = 0
    for b in F.all_bodies(CR):
        if not c02.in_scope(b):
            continue
        for i in b.live_blocks():
            for s in b.stmts(i):
                mf_ = [f_ for f_ in (s["rv"].get("fields") or []) if f_ in mult_fields(F)] if s["k"] == "assign" and s["rv"]["k"] == "agg" and (s["rv"].get("adt") or "").startswith(CR) else []
                if mf_:
                    n_agg += 1
                    op = s["rv"]["ops"][s["rv"]["fields"].index(mf_[0])]
                    o = Prov(b).operand(op)
                    ctx.check(any(x[0] == "arg" and b.locals[x[1]]["ty"] in weight_types(F) for x in o) and not any(x[0] == "const" for x in o),
                              "R03.1", fnkey(b) + "#writer-multiplicity-from-parameter", loc(b, i), "per-call writer multiplicity origins: %s" % sorted(map(str, o)))
                fe = [e for e in s.get("lhs", {}).get("p", []) if e[0] == "f"] if s["k"] == "assign" else []
                if fe and fe[-1][2] in mult_fields(F) and fe[-1][3].startswith(CR):
                    ctx.bad("R03.1", fnkey(b) + "#multiplicity-reassigned", loc(b, i), "the per-call multiplicity is overwritten after construction")
    ctx.floor("R03.1", "per-call writer constructions", n_agg, 1)

    # ------------------------------------------------------------------ R03.2 routing pair
    mets = [b for b in F.all_bodies(CR) if b.name == "metric" and b.impl and (b.impl.get("trait") or "").endswith("::ValueWriter")]
    ctx.floor("R03.2", "ValueWriter::metric implementations", len(mets), 1)
    for b in mets:
        pr = Prov(b, adapter_pred=lambda t: (t.get("callee") or {}).get("name") in ("or_insert_with", "or_insert", "deref_mut", "deref"))
        wm = [c for c in b.calls() if any(sb.crate == CR for sb in local_callee_bodies(F, c)) and
              sum(buf_handles(F, b, a) for a in c.args) >= 2]
        ctx.floor("R03.2", "calls handing (value buffer, definition buffer) to the metric writer", len(wm), 1)
        for c in wm:
            # each buffer argument comes out of a tuple built in two branches: compare owners per aggregate
            aggs = []
            routers = [b] + [hb for x in b.calls() for hb in local_callee_bodies(F, x) if hb.crate == CR and hb.kind != "Closure" and
                             bundle_fields(F, hb.d.get("output") or "")]
            for rb in routers:
              for i in rb.live_blocks():
                for s in rb.stmts(i):
                    # ... a tuple, or a private struct bundling the two buffer references
                    if s["k"] == "assign" and s["rv"]["k"] == "agg" and len(s["rv"]["ops"]) >= 2 and (
                            s["rv"].get("agg") == "tuple" or (s["rv"].get("agg") == "adt" and bundle_fields(F, s["rv"].get("adt") or ""))):
                        tys = [rb.local_ty(op_local(o)) if op_local(o) is not None else "" for o in s["rv"]["ops"]]
                        if sum(1 for t in tys if "PrefixedStringBuf" in t) >= 2:
                            aggs.append((i, s, rb))
            ctx.floor("R03.2", "routing tuples (definition buffer, value buffer, index)", len(aggs), 2)
            prs = {}
            for i, s, rb in aggs:
                owners = []
                if rb.def_ not in prs:
                    prs[rb.def_] = pr if rb is b else Prov(rb, adapter_pred=pr.adapter_pred)
                # the value buffer and the definition buffer (a scratch buffer bundled with them belongs to the formatter, not to a record)
                bops = [o_ for o_ in s["rv"]["ops"] if op_local(o_) is not None and PSB in rb.local_ty(op_local(o_))]
                if len(bops) > 2 and s["rv"].get("fields"):
                    role_fields = {sl[1] for wb_ in F.all_bodies(CR) if c02.in_scope(wb_) and len(buf_slots(F, wb_)) >= 3 for sl in writer_roles(F, wb_) if sl[1]}
                    bops = [o_ for o_, f_ in zip(s["rv"]["ops"], s["rv"]["fields"]) if o_ in bops and f_ in role_fields]
                for o in bops[:2]:
                    oo = prs[rb.def_].operand(o)
                    ow = set()
                    for x in oo:
                        if x[0] == "arg" and x[2]:
                            ow.add(("field",) + tuple(x[2][:-1]))
                        elif x[0] == "call":
                            ow.add(("call", x[1]))
                    # drop the provenance of the map lookup's key/closure arguments: keep the lookup itself
                    owners.append(ow)
                a, b_ = owners
                # the shared owner: either the formatter state itself or the same map entry (same call result)
                state_a = {x for x in a if x[0] == "field"}
                state_b = {x for x in b_ if x[0] == "field"}
                call_a = {x for x in a if x[0] == "call"}
                call_b = {x for x in b_ if x[0] == "call"}
                same = (call_a == call_b and state_a == state_b)
                ctx.check(same, "R03.2", fnkey(rb) + "#same-owner@%d" % aggs.index((i, s, rb)), loc(rb, i),
                          "the definition buffer and the value buffer of a metric come from different owners (%s vs %s): a metric could be "
                          "declared in one record and its value written to another" % (sorted(map(str, a)), sorted(map(str, b_))),
                          "both buffers from %s" % sorted(map(str, a)))
    # ------------------------------------------------------------------ R03.3 skipped means absent
    wms = [b for b in F.all_bodies(CR) if c02.in_scope(b) and len(buf_slots(F, b)) >= 3]
    ctx.floor("R03.3", "metric writers (value, definition and counts buffers)", len(wms), 1)
    buf_roles = {}        # metric writer -> (value buffer parameter, definition buffer parameter), decided by what is done with them
    for b in wms:
        pr = Prov(b)
        valbuf, defbuf = writer_roles(F, b, pr)
        buf_roles[b.def_] = (valbuf, defbuf)
        dom = b.dominators()

        def writes_def(x, names):
            """x appends to the definition buffer: directly, or by handing it to a local helper"""
            if x.name in names and x.args and any(slot_match(y, defbuf) for y in pr.operand(x.args[0])):
                return True
            if any(sb.crate == CR for sb in local_callee_bodies(F, x)):
                return any(op_local(a) is not None and "PrefixedStringBuf" in b.local_ty(op_local(a)) and
                           any(slot_match(y, defbuf) for y in pr.operand(a)) for a in x.args)
            return False
        def _dty(c):
            return b.local_ty(c.dest["l"]) if not c.dest.get("p") else ""
        inner = [c for c in b.calls() if any(sb.crate == CR for sb in local_callee_bodies(F, c)) and ("Result<(), " in _dty(c) or _dty(c) == "bool")
                 and any(any(slot_match(x, valbuf) for x in pr.operand(a)) for a in c.args)]
        ctx.check(len(inner) == 1, "R03.3", fnkey(b) + "#single-value-write", loc(b), "expected one fallible value write, found %d" % len(inner))
        from rules.c08 import _ret_assigns, gate_switch_value

        def entry_len_truncates(bd, bufarg, before=None):
            """truncate calls on parameter `bufarg` of `bd` back to a length that was read before anything was appended to it
            (`before`: a block the length read must precede, for the caller's form)"""
            pr_ = Prov(bd)
            dom_ = bd.dominators()
            onbuf = lambda x: bool(x.args) and any(slot_match(y, bufarg) for y in pr_.operand(x.args[0]))
            appends = [x for x in bd.calls() if onbuf(x) and x.name in ("push", "push_raw_str", "json_string", "push_integer", "push_str")]
            out = []
            for x in bd.calls():
                if x.name != "truncate" or not onbuf(x) or len(x.args) < 2:
                    continue
                lens = [y[1] for y in pr_.operand(x.args[1]) if y[0] == "call" and (bd.term(y[1]).get("callee") or {}).get("name") == "len"]
                for lb in lens:
                    if before is not None:
                        if dominates(bd, lb, before, dom_) and lb != before:
                            out.append(x)
                    elif all(dominates(bd, lb, ap.bb, dom_) and lb != ap.bb for ap in appends):
                        out.append(x)
            return out
        for c in inner:
            key = fnkey(b)
            sws = switch_on_call_result(b, c)
            if not sws:
                ctx.bad("R03.3", key + "#skip-branch", loc(b, c.bb), "the skipped outcome of the value write is not branched on")
                continue
            sw, tg, oth = sws[-1]
            # which outcome means `no value was written`: the one the callee returns after rolling the buffer back itself, else the
            # failure variant of its Result, else (a bool without rollback inside) the side on which this body rolls back
            vi = [ai for ai, a in enumerate(c.args) if any(slot_match(x, valbuf) for x in pr.operand(a))][0]
            skip_outcome, callee_rolls = None, False
            for sb in local_callee_bodies(F, c):
                if sb.crate != CR:
                    continue
                trs = entry_len_truncates(sb, vi + 1)
                outs = {v for x in trs for j in sb.reachable(x.bb) for v in _ret_assigns(sb, j)}
                if len(outs) == 1 and None not in outs:
                    skip_outcome = next(iter(outs))
                    sdom = sb.dominators()
                    # every return of that outcome comes after the rollback
                    # (a return of the skipped outcome that is reached before anything was appended needs no rollback)
                    sprv = Prov(sb)
                    appends_ = [x.bb for x in sb.calls() if x.name in ("push", "push_raw_str", "json_string", "push_integer", "push_str") and x.args and
                                any(y[0] == "arg" and y[1] == vi + 1 for y in sprv.operand(x.args[0]))]
                    untouched = sb.reachable(0, avoid=appends_) - set(appends_)
                    callee_rolls = all(any(dominates(sb, x.bb, j, sdom) for x in trs) or j in untouched
                                       for j in sb.live_blocks() if skip_outcome in _ret_assigns(sb, j))
            if skip_outcome is None and "Result<" in _dty(c):
                skip_outcome = ("variant", "Err")
            err_t = None
            if skip_outcome is not None:
                sv = gate_switch_value(b, sw, skip_outcome)
                err_t = tg.get(sv, oth) if sv is not None else None
            else:
                sides = [x for x in b.succ(sw) if b.term(x)["k"] != "unreachable"]
                rolled = [x for x in sides if (lambda tr_: tr_ and b.must_pass([y.bb for y in tr_], start=x))([y for y in entry_len_truncates(b, valbuf, before=c.bb) if y.bb in b.reachable(x)])]
                err_t = rolled[0] if len(rolled) == 1 else None
            if err_t is None:
                ctx.bad("R03.3", key + "#skipped-value-rolled-back", loc(b, c.bb),
                        "cannot tell which outcome of the value write means `every observation was skipped`: no side rolls the value buffer back "
                        "to the length recorded before the write (a member name without value would stay in the record)")
                continue
            good_tr = [x for x in entry_len_truncates(b, valbuf, before=c.bb) if x.bb in b.reachable(err_t)]
            ctx.check(callee_rolls or (bool(good_tr) and b.must_pass([x.bb for x in good_tr], start=err_t)), "R03.3", key + "#skipped-value-rolled-back", loc(b, err_t),
                      "when every observation of a metric is skipped the value buffer is not truncated back to the length recorded before the "
                      "write: a member name without value stays in the record")
            defw = [x for x in b.calls() if x.bb in b.reachable(err_t) and writes_def(x, ("push", "push_raw_str", "json_string", "push_integer"))]
            ctx.check(not defw, "R03.3", key + "#skipped-metric-not-declared", loc(b, err_t), "a skipped metric is still declared in the directive (bb%s)" % [x.bb for x in defw])
        # NoMetric: a branch on the storage mode whose NoMetric side returns without definition writes
        nm_ok = False
        for i in b.live_blocks():
            t = b.term(i)
            if t["k"] != "switch":
                continue
            for s in b.stmts(i):
                if s["k"] == "assign" and s["rv"]["k"] == "discr" and s["rv"].get("adt", "").endswith("StorageMode"):
                    vm = {n: d for d, n in s["rv"]["variants"]}
                    tg = {v: tb for v, tb in t["targets"]}
                    nt = tg.get(vm.get("NoMetric"))
                    if nt is not None:
                        defw = [x for x in b.calls() if x.bb in b.reachable(nt) and writes_def(x, ("push", "push_raw_str", "json_string"))]
                        others = [x for x in b.calls() if writes_def(x, ("push_raw_str",))]
                        if not defw and others:
                            nm_ok = True
        # the same test written as a comparison with a constant: `mode == Some(NoMetric)` / `mode != NoMetric`
        def _is_nm(k):
            return isinstance(k, tuple) and k and k[0] == "variant" and ((str(k[1]).endswith("StorageMode") and k[2] == "NoMetric") or
                                                                       any(_is_nm(k2) for k2 in (k[3] if len(k) > 3 else ())))
        for c in b.calls():
            if c.name not in ("eq", "ne") or not any(y[0] == "const" and _is_nm(y[1]) for a in c.args for y in pr.operand(a)):
                continue
            for sw, tg, oth in switch_on_call_result(b, c):
                t_true, t_false = tg.get(1, oth if 0 in tg else None), tg.get(0, oth if 1 in tg else None)
                nt = t_true if c.name == "eq" else t_false
                if nt is not None:
                    defw = [x for x in b.calls() if x.bb in b.reachable(nt) and writes_def(x, ("push", "push_raw_str", "json_string"))]
                    others = [x for x in b.calls() if writes_def(x, ("push_raw_str",))]
                    if not defw and others:
                        nm_ok = True
        ctx.check(nm_ok, "R03.3", fnkey(b) + "#no-metric-flag-suppresses-definition", loc(b), "the NoMetric flag no longer suppresses the metric definition (or is not branched on)")
    # ------------------------------------------------------------------ R03.8 only NaN makes an observation unusable
    # infinities are reported (clamped to the largest finite double); the only float that is skipped is NaN. So wherever the formatter asks
    # `is_finite` / `is_infinite` of an observation, the value has been clamped first (after the clamp only NaN is still non-finite); the
    # same test on the raw value would skip +inf / -inf as if they were NaN
    n8 = 0
    for b in F.all_bodies(CR):
        if not c02.in_scope(b):
            continue
        pr8 = None
        for c in b.calls():
            if c.name in ("is_finite", "is_infinite") and "f64" in (c.def_ or "") + (c.self_ty or ""):
                # an assertion (one outcome panics) decides nothing about skipping
                rets_ = set(b.return_blocks())
                if any(not (b.reachable(x) & rets_) for sw_, tg_, oth_ in switch_on_call_result(b, c) for x in b.succ(sw_)):
                    continue
                n8 += 1
                pr8 = pr8 or Prov(b)
                o = pr8.operand(c.args[0]) if c.args else set()
                clamped = any(x[0] == "call" and (b.term(x[1]).get("callee") or {}).get("name") in ("clamp", "min", "max") for x in o)
                ctx.check(clamped, "R03.8", fnkey(b) + "#non-finite-test-after-clamp", loc(b, c.bb),
                          "`%s` is applied to an observation that was not clamped to the finite range first: an infinite observation is then treated "
                          "like NaN (skipped) instead of being reported as the largest finite double" % c.name,
                          "tested value comes out of clamp(-MAX, MAX)")
    ctx.floor("R03.8", "finiteness tests in the formatter", n8, 1)
    # ------------------------------------------------------------------ R03.9 an integer observation is written as that integer
    # "the same number": the payload of an unsigned observation reaches the output as an integer. Routed through a floating-point
    # conversion on the way (to share the float path) it is rounded above 2^53 - `u64::MAX - 1` would come out as 18446744073709553000
    n9 = 0
    for b in F.all_bodies(CR):
        if not c02.in_scope(b):
            continue
        sw_obs = [i for i in b.live_blocks() if b.term(i)["k"] == "switch" and any(
            s_["k"] == "assign" and s_["rv"]["k"] == "discr" and s_["rv"].get("adt", "").endswith("value::Observation") for s_ in b.stmts(i))]
        if not sw_obs:
            continue
        n9 += 1
        lossy = []
        for i in b.live_blocks():
            for s_ in b.stmts(i):
                if s_["k"] == "assign" and s_["rv"]["k"] == "cast" and str(s_["rv"].get("kind", "")).startswith("IntToFloat"):
                    pl = op_place(s_["rv"]["op"])
                    # the operand is (a copy of) the payload of the Unsigned variant of a matched observation
                    seen_, work_ = set(), [pl["l"]] if pl else []
                    src_unsigned = bool(pl) and any(e[0] == "dc" and "Unsigned" in str(e) for e in pl.get("p", []))
                    while work_ and not src_unsigned:
                        l_ = work_.pop()
                        if l_ in seen_:
                            continue
                        seen_.add(l_)
                        for kind_, bb_, j_, node_ in b.defs().get(l_, []):
                            if kind_ == "assign" and node_["k"] == "assign" and node_["rv"]["k"] == "use":
                                p2 = op_place(node_["rv"]["op"])
                                if p2:
                                    if any(e[0] == "dc" and "Unsigned" in str(e) for e in p2.get("p", [])):
                                        src_unsigned = True
                                    work_.append(p2["l"])
                    if src_unsigned:
                        lossy.append(i)
        ctx.check(not lossy, "R03.9", fnkey(b) + "#unsigned-observation-written-as-integer", loc(b, lossy[0] if lossy else None),
                  "the payload of an unsigned observation is converted to floating point before it is written: integers above 2^53 are rounded, the "
                  "record no longer carries the number that was observed", "no int-to-float conversion of the Unsigned payload")
    ctx.floor("R03.9", "bodies matching on the observation kinds in the formatter", n9, 1)
    # ------------------------------------------------------------------ R03.4 namespace replication siblings
    fin = [b for b in F.all_bodies(CR) if c02.in_scope(b) and b.def_ not in c02.send_bodies(F) and [c for c in b.calls() if c02.is_send(F, c)]]
    ctx.floor("R03.4", "record emission sites (per-set and global)", sum(len([c for c in b.calls() if c02.is_send(F, c)]) for b in fin), 2)
    for b in fin:
        dom = b.dominators()
        writes = [c for c in b.calls() if c02.is_send(F, c)]
        sim = c02.BufSim(F, b, CR)
        # replication units: a loop of this body, or a closure run through `for_each`, that appends `,{"Namespace":` + the encoded
        # namespace + a copy of the first directive; each is placed at the block of this body where it runs
        from mq.bufsim import loop_closure_call
        def _is_ns_open(bd, sm, c):
            return c.name == "push_raw_str" and len(c.args) > 1 and (sm._const_str(c.args[1]) or "").endswith('"Namespace":')
        repl = []       # (block in b, has_ns, has_copy)
        for c in b.calls():
            if _is_ns_open(b, sim, c) and c.bb in b.reachable_after(c.bb):
                loop = b.reachable_after(c.bb)
                repl.append((c.bb,
                             any(x.name == "push_json_safe_string" and x.bb in loop and c.bb in b.reachable_after(x.bb) for x in b.calls()),
                             any(x.name == "extend_from_within_range" and x.bb in loop and c.bb in b.reachable_after(x.bb) for x in b.calls())))
        for i in b.live_blocks():
            t = b.term(i)
            lc = loop_closure_call(F, b, t, CR) if t["k"] == "call" else None
            if lc is not None:
                cl = lc[0]
                sm2 = c02.BufSim(F, cl, CR)
                if any(_is_ns_open(cl, sm2, c) for c in cl.calls()):
                    repl.append((i, any(x.name == "push_json_safe_string" for x in cl.calls()), any(x.name == "extend_from_within_range" for x in cl.calls())))
        # ... or the call of a private helper that holds that loop, with the copy of the first directive either in the helper or in a
        # closure it is handed for the part that differs between the emission sites
        for c in b.calls():
            for hb in local_callee_bodies(F, c):
                if hb.crate != CR or hb.kind == "Closure" or hb.def_ == b.def_:
                    continue
                smh = c02.BufSim(F, hb, CR)
                opens = [x for x in hb.calls() if _is_ns_open(hb, smh, x) and x.bb in hb.reachable_after(x.bb)]
                if not opens:
                    continue
                cls_ = closure_args(F, c)
                repl.append((c.bb, any(x.name == "push_json_safe_string" for x in hb.calls()),
                             any(x.name == "extend_from_within_range" for x in hb.calls()) or
                             (bool(cls_) and all(any(x.name == "extend_from_within_range" for x in cl_.calls()) for cl_ in cls_))))
        for w in writes:
            near = [r for r in repl if w.bb in b.reachable_after(r[0])]
            # the replication loop belonging to this write: the last one before it
            okr = any(has_ns and has_copy for _, has_ns, has_copy in near)
            # each write needs its own loop: loops are distinct per write
            ctx.check(okr and len(repl) >= len(writes), "R03.4", fnkey(b) + "#namespace-replication@write%d" % writes.index(w), loc(b, w.bb),
                      "an emission branch does not replicate the metric directive for the additional namespaces (loop with `,{\"Namespace\":` + "
                      "encoded namespace + copy of the first directive)")
        # the iteration source is namespaces[1..]
        pr = Prov(b)
        # `namespaces[1..]`, or `namespaces.iter().skip(1)`: everything but the first namespace
        ns_prov = Prov(b, extra_adapters=("core::slice::<impl [T]>::iter", "core::iter::traits::collect::IntoIterator::into_iter", "core::ops::deref::Deref::deref"))
        rng = [c for c in b.calls() if c.is_trait_method("Index", "index") and any(x[0] == "arg" and "namespaces" in x[2] for x in pr.operand(c.args[0]))]
        rng += [c for c in b.calls() if c.is_trait_method("Iterator", "skip") and any(x[0] == "arg" and "namespaces" in x[2] for x in ns_prov.operand(c.args[0]))]
        starts = []
        for c in rng:
            o = pr.operand(c.args[1])
            starts += [x for x in o if x[0] == "const"]
        ctx.check(len(rng) >= len(writes) and all(x[1] == ("int", 1) for x in starts if x[1][0] == "int"), "R03.4", fnkey(b) + "#replicates-namespaces[1..]", loc(b),
                  "replication does not iterate namespaces[1..] in every branch (ranges found: %d, starts %s)" % (len(rng), starts))
    # ------------------------------------------------------------------ R03.6 a record is suppressed only when it carries no value
    # slots filled from the routing site: which field is the *value* buffer of the global record and of a per-set record
    val_global, val_set = set(), set()
    for b in mets:
        pr = Prov(b)
        for c in b.calls():
            cbs = [sb for sb in local_callee_bodies(F, c) if sb.crate == CR and sb in wms]
            if not cbs:
                continue
            cb = cbs[0]
            vi = buf_roles.get(cb.def_, (buf_slots(F, cb)[0], None))[0]
            ai = vi[0] - 1 if len(c.args) == cb.arg_count else None
            if ai is None:
                continue
            def _slots(bd, prv, origins, depth=1):
                for x in origins:
                    if x[0] == "arg" and len(x[2]) >= 1:
                        val_global.add(x[2][-1])
                    elif x[0] == "callf" and x[2]:
                        # the routing may sit in a private helper that returns the bundle: look at what it puts in that field
                        hbs = [hb for hb in local_callee_bodies(F, CallSite(bd, x[1], bd.term(x[1]))) if hb.crate == CR and hb.kind != "Closure" and
                               bundle_fields(F, hb.d.get("output") or "")]
                        if hbs and depth:
                            for hb in hbs:
                                hp = Prov(hb)
                                _slots(hb, hp, hp.local(0, tuple(x[2])), depth - 1)
                        else:
                            val_set.add(x[2][-1])
            _slots(b, pr, pr.operand(c.args[ai], (vi[1],) if vi[1] else ()))
    ctx.check(len(val_global) == 1 and len(val_set) == 1, "R03.6", "value-buffer-slots", "metrique-writer-format-emf/src/emf.rs",
              "could not identify the value buffer of the global record / of a per-set record at the routing site (%s / %s)" % (sorted(val_global), sorted(val_set)),
              "value buffers: global %s, per dimension set .%s" % (sorted(val_global), sorted(val_set)))
    n_g = n_s = n_empt = 0

    def always_writes(sb):
        ws = [c.bb for c in sb.calls() if c02.is_send(F, c)]
        return bool(ws) and sb.must_pass(ws)

    # emission bodies: those that send, plus in-scope bodies that call one of them (the emission may be split into helpers)
    fin6 = list(fin)
    for b_ in F.all_bodies(CR):
        if not c02.in_scope(b_) or b_ in fin6 or b_.def_ in c02.send_bodies(F):
            continue
        callees = {sb.def_ for c_ in b_.calls() for sb in local_callee_bodies(F, c_) if sb in fin}
        # a body that stitches several sending helpers together is the emission body proper (a plain caller of the one emission
        # body is not)
        if len(callees) >= 2:
            fin6.append(b_)
    called = {sb.def_ for b_ in fin6 for c_ in b_.calls() for sb in local_callee_bodies(F, c_) if sb in fin6 and sb is not b_}

    def witness_flag(hb):
        """hb returns (Ok of) a bool that is true only if a record was sent inside hb: returns True if so"""
        if "bool" not in (hb.d.get("output") or ""):
            return False
        wbs = {c_.bb for c_ in hb.calls() if c02.is_send(F, c_)}
        if not wbs:
            return False
        ok_any = False
        for l_, ds in hb.defs().items():
            if hb.local_ty(l_) != "bool" or not hb.local_name(l_):
                continue
            if not all(k == "assign" and not n["lhs"].get("p") and n["rv"]["k"] == "use" and "bool" in (op_const(n["rv"]["op"]) or {}) for k, bb_, j, n in ds):
                continue
            trues = [bb_ for k, bb_, j, n in ds if op_const(n["rv"]["op"])["bool"]]
            if trues and all(bb_ in wbs or hb.must_pass(wbs, start=bb_) for bb_ in trues):
                ok_any = True
        return ok_any

    for b in fin6:
        pr = Prov(b)
        key = fnkey(b)
        # emission sites of this body: the sends themselves and calls of local helpers that always send
        writes = [c for c in b.calls() if c02.is_send(F, c) or
                  any(sb in fin6 and sb is not b and always_writes(sb) for sb in local_callee_bodies(F, c))]
        succ_exit = [i for i in b.live_blocks() for st in b.stmts(i) if st["k"] == "assign" and st["lhs"]["l"] == 0 and not st["lhs"].get("p")
                     and st["rv"]["k"] == "agg" and st["rv"].get("variant") == "Ok"]
        ctx.floor("R03.6", "success exits of the emission body", len(succ_exit), 1)

        defs = b.defs()

        def true_edges(src):
            """(switch block, target taken when bool local `src` is true), for every switch whose discriminant is `src` itself or a
            copy / negation chain of it"""
            out = []
            for i in b.live_blocks():
                t = b.term(i)
                if t["k"] != "switch" or t.get("ty") != "bool":
                    continue
                sl, neg, hops = op_local(t["discr"]), False, 0
                while sl is not None and sl != src and hops < 6:
                    dd = [d for d in defs.get(sl, []) if not b.is_cleanup(d[1])]
                    if len(dd) != 1 or dd[0][0] != "assign":
                        break
                    rv = dd[0][3]["rv"]
                    if rv["k"] == "use":
                        sl = op_local(rv["op"])
                    elif rv["k"] == "unop" and rv["op"] == "Not":
                        sl, neg = op_local(rv["a"]), not neg
                    else:
                        break
                    hops += 1
                if sl == src:
                    tg = {v: tb for v, tb in t["targets"]}
                    tt = tg.get(0, t["otherwise"] if 1 in tg else None) if neg else tg.get(1, t["otherwise"] if 0 in tg else None)
                    if tt is not None:
                        out.append((i, tt))
            return out

        def bool_edges(c):
            return true_edges(c.dest["l"]) if not c.dest.get("p") else []

        def reach(start, avoid_blocks, avoid_edges):
            seen, st = {start}, [start]
            while st:
                x = st.pop()
                for y in b.succ(x):
                    if y in seen or y in avoid_blocks or (x, y) in avoid_edges:
                        continue
                    seen.add(y)
                    st.append(y)
            return seen

        empties = [c for c in b.calls() if c.name == "is_empty" and "PrefixedStringBuf" in (c.def_ or "")]
        n_empt += len(empties) + sum(1 for cl_ in F.closures_of(b) for c in cl_.calls() if c.name == "is_empty" and "PrefixedStringBuf" in (c.def_ or ""))
        e_global, e_set = set(), set()
        for c in empties:
            o = pr.operand(c.args[0])
            ga = {x[2][-1] for x in o if x[0] == "arg" and len(x[2]) >= 1}
            sa = {x[2][-1] for x in o if x[0] == "callf" and x[2]}
            if ga and ga <= val_global and not sa:
                e_global.update(bool_edges(c))
            if sa and sa <= val_set and not ga:
                e_set.update(bool_edges(c))
        for w in writes:
            if w.bb in b.reachable_after(w.bb):
                # a per-set record: from the start of an iteration back to the loop head without the write
                heads = [c for c in b.calls() if c.is_trait_method("Iterator", "next") and w.bb in b.reachable_after(c.bb) and c.bb in b.reachable_after(w.bb)
                         and dominates(b, c.bb, w.bb, b.dominators())]
                # the loop the write belongs to: its head is reached again from the write without passing another candidate head
                heads = [h for h in heads if h.bb in b.reachable_after(w.bb, avoid=[o.bb for o in heads if o is not h])]
                for h in heads:
                    n_s += 1
                    r = reach(h.target, {w.bb}, e_set)
                    ctx.check(h.bb not in r, "R03.6", key + "#per-set-record-skipped-only-when-valueless", loc(b, w.bb),
                              "an iteration over the dimension sets can skip writing the record on a path that does not pass the 'value buffer (.%s) is "
                              "empty' outcome: a record holding values (for example only no-metric values, which declare nothing) is dropped" % sorted(val_set),
                              "every write-free iteration passes the empty-value-buffer edge")
            else:
                n_g += 1
                r = reach(0, {w.bb}, e_global)
                ctx.check(not (r & set(succ_exit)), "R03.6", key + "#global-record-skipped-only-when-valueless", loc(b, w.bb),
                          "the record without per-metric dimensions can be skipped on a successful path that does not pass the 'value buffer %s is empty' "
                          "outcome: values routed to it (for example no-metric values, which leave the directive empty) would appear nowhere" % sorted(val_global),
                          "every successful path around the write passes the empty-value-buffer edge")
        # life sign: every successful path performs at least one write (string properties of an entry without metrics appear somewhere);
        # judged at the outermost emission body only - a helper may legitimately send nothing and say so in its result
        if b.def_ in called:
            continue
        wb = {w.bb for w in writes}
        flag_true_edges = set()
        # a helper's boolean result that is true only if it sent a record is a write witness in the caller
        for c_ in b.calls():
            if any(sb in fin6 and witness_flag(sb) for sb in local_callee_bodies(F, c_)):
                for l_ in range(len(b.locals)):
                    if b.local_ty(l_) == "bool":
                        o_ = pr.local(l_)
                        if o_ and all(x[0] in ("via", "op") or (x[0] in ("call", "callf") and x[1] == c_.bb) for x in o_) and any(x[0] in ("call", "callf") for x in o_):
                            flag_true_edges.update(true_edges(l_))
        for l, ds in defs.items():
            if b.local_ty(l) != "bool" or not b.local_name(l):
                continue
            if not all(k == "assign" and not n["lhs"].get("p") and n["rv"]["k"] == "use" and "bool" in (op_const(n["rv"]["op"]) or {}) for k, bb_, j, n in ds):
                continue
            trues = [bb_ for k, bb_, j, n in ds if op_const(n["rv"]["op"])["bool"]]
            if not trues or not all(bb_ in wb or b.must_pass(wb, start=bb_, exits=succ_exit) for bb_ in trues):
                continue
            flag_true_edges.update(true_edges(l))
        r = reach(0, wb, flag_true_edges)
        ctx.check(not (r & set(succ_exit)), "R03.6", key + "#every-success-writes-a-record", loc(b),
                  "a successful path through the emission writes no record at all (a flag that is only set next to a write was taken as false on "
                  "it): an entry without routed metrics would lose its string properties and timestamp",
                  "no write-free successful path (write-witness flag edges: %d)" % len(flag_true_edges))
    ctx.floor("R03.6", "emptiness guards on record buffers", n_empt, 2)
    ctx.floor("R03.6", "global record writes", n_g, 1)
    ctx.floor("R03.6", "per-set record writes", n_s, 1)
    # ------------------------------------------------------------------ R03.7 exact text: the sanitizer escapes, never copies raw (= R02.6)
    from mq.report import RuleView
    before7 = len(ctx.instances)
    c02.run(RuleView(ctx, {"R02.6": "R03.7"}))
    ctx.floor("R03.7", "sanitizer obligations", len([i for i in ctx.instances[before7:] if i["rule"] == "R03.7"]), 2)
    # ------------------------------------------------------------------ R03.5 dimension sets rebuilt per call
    import rules.c14 as c14
    before = len(ctx.instances)
    c14.run(ctx, only_fields=c02.buffer_field(F), rule_prefix="R03.5")
    ctx.floor("R03.5", "dimension-set carriers checked for per-call rebuild", len([i for i in ctx.instances[before:] if i["rule"] == "R03.5" and "clean-at-first-use" in i["instance"]]), 2)
    return EXPL


def weight_types(F):
    """types that carry the per-call sampling multiplicity: Option<u64>, or a private two-variant enum of the crate with one empty variant
    (unsampled) and one variant holding a single u64 (the weight) -> {type: name of the variant that holds the weight}"""
    c_ = getattr(F, "_weight_types", None)
    if c_ is None:
        c_ = {"core::option::Option<u64>": "Some"}
        for d, a in F.adts.items():
            if a["crate"] != CR or len(a["variants"]) != 2:
                continue
            empty = [v for v in a["variants"] if not v["fields"]]
            held = [v for v in a["variants"] if len(v["fields"]) == 1 and v["fields"][0]["ty"] == "u64"]
            if len(empty) == 1 and len(held) == 1:
                c_[d] = held[0]["name"]
        F._weight_types = c_
    return c_


def weight_accessors(F):
    """private one-argument functions turning a weight type into the plain factor: u64 result that is the held weight or the constant 1"""
    c_ = getattr(F, "_weight_accessors", None)
    if c_ is None:
        c_ = set()
        for hb in F.all_bodies(CR):
            if hb.arg_count == 1 and hb.locals[1]["ty"].replace("&", "").strip() in weight_types(F) and hb.locals[0]["ty"] == "u64":
                o = {x for x in Prov(hb).local(0) if x[0] != "via"}
                if o and all((x[0] == "arg" and x[1] == 1) or x == ("const", ("int", 1)) for x in o):
                    c_.add(hb.def_)
        F._weight_accessors = c_
    return c_


def mult_fields(F):
    """names of the Option<u64> fields of crate types (role: the per-call sampling multiplicity), whatever they are called"""
    c_ = getattr(F, "_mult_fields", None)
    if c_ is None:
        c_ = {f["name"] for a in F.adts.values() if a["crate"] == CR for v in a["variants"] for f in v["fields"] if f["ty"] in weight_types(F)}
        F._mult_fields = c_
    return c_


def thread_param(F, b, p, depth):
    """parameter p of b is, at every call site in the crate, bound to the caller's own multiplicity parameter / writer field"""
    callers = [cs for cs in F.callers_of(b.path, crates=[CR]) if c02.in_scope(cs.body)]
    if not callers:
        return False, "no caller passes the multiplicity to %s" % b.path
    for cs in callers:
        cb = cs.body
        # `multiplicity.unwrap_or(1)`: an unsampled entry counts once; any other default is a made-up weight
        raw = Prov(cb).operand(cs.args[p - 1])
        for x in raw:
            if x[0] == "call" and (cb.term(x[1]).get("callee") or {}).get("name") == "unwrap_or":
                dflt = op_const(cb.term(x[1])["args"][1]) or {}
                if dflt.get("int") != 1:
                    return False, "%s unwraps the multiplicity with default %s (an unsampled entry must count once)" % (cb.path, dflt.get("int", "?"))
        o = Prov(cb, extra_adapters=("core::option::Option::<T>::unwrap_or",), multi={d_: (0,) for d_ in weight_accessors(F)}).operand(cs.args[p - 1])
        o = {x for x in o if x[0] != "via"}
        if any(x[0] == "const" for x in o) or any(x[0] == "agg" for x in o):
            return False, "%s passes a constant multiplicity to %s" % (cb.path, b.name)
        args = [x for x in o if x[0] == "arg"]
        if not args or len(o) != len(args):
            return False, "%s passes a multiplicity of origin %s to %s" % (cb.path, sorted(map(str, o)), b.name)
        for x in args:
            if x[2] and x[2][-1] in mult_fields(F):
                continue        # field of the per-call writer
            if not x[2] and cb.locals[x[1]]["ty"] in weight_types(F) and depth > 0:
                ok, how = thread_param(F, cb, x[1], depth - 1)
                if not ok:
                    return False, how
                continue
            return False, "%s passes %s as multiplicity to %s" % (cb.path, x, b.name)
    return True, "multiplicity threaded unchanged through %s" % sorted({cs.body.name for cs in callers})

"""C15 — entry and value wrappers are transparent apart from their documented additions."""
from mq.util import *
from mq.prov import Prov, IDENTITY_ADAPTERS
from mq.facts import CallSite, strip_generics

EXPL = ("R15.1 forwarders are discovered: every impl of Entry / InflectableEntry / EntryWriter / Value / ValueWriter / ValueFormatter / "
        "EntryIoStream / Format / EntrySink / AnyEntrySink in the library crates whose self type is a pointer-like wrapper (&, &mut, "
        "Box, Arc, Cow, Option) or an ADT with a field of a type parameter bound by the same trait, plus the cross-trait adapters "
        "frozen in the table below (FormattedEntryIoStream next->format, RootEntry Entry->InflectableEntry, ...). R15.2 per method: on "
        "every normal path the same trait method is called on the wrapped value exactly once per inner value (Option: only when Some), "
        "every non-receiver parameter reaches the argument in the same position through identity adapters only (or wrapped in a local "
        "wrapper struct), iterator parameters pass through order-preserving adapters only, additions are chained AFTER the incoming "
        "items, flags are merged rather than replaced, and sample_group is forwarded. R15.4 no wrapper method collects what it forwards into a map or set, sorts, de-duplicates or reverses it; R15.3 a `&mut self` wrapper method never writes or mutably lends one of "
        "the wrapper's own fields to anything but the forwarding call (its configuration is the same after a failed call). Not decided: what the inner value writes.")

TRAITS = ("Entry", "InflectableEntry", "EntryWriter", "Value", "ValueWriter", "ValueFormatter", "EntryIoStream", "Format", "EntrySink", "AnyEntrySink")
PTRS = ("&", "alloc::boxed::Box<", "alloc::sync::Arc<", "alloc::borrow::Cow<", "core::option::Option<", "alloc::rc::Rc<")

# cross-trait adapters: (self ADT suffix, trait, method) -> (callee trait suffix, callee method)
CROSS = {
    ("format::FormattedEntryIoStream", "EntryIoStream", "next"): ("Format", "format"),
    ("format::FormattedMakeWriterEntryIoStream", "EntryIoStream", "next"): ("Format", "format"),
    ("RootEntry", "Entry", "write"): ("InflectableEntry", "write"),
    ("RootEntry", "Entry", "sample_group"): ("InflectableEntry", "sample_group"),
    ("formatter::FormattedValue", "Value", "write"): ("ValueFormatter", "format_value"),
    ("emf::SampledEmf", "Format", "format"): ("Format", "format"),
}
# methods that legitimately do something else than forward (one line of reason each)
EXEMPT = {
    ("EntryIoStream", "flush"): "flush forwards to io::Write::flush / is a no-op for formats; covered by C16",
}
ORDER_ADAPTERS = set(IDENTITY_ADAPTERS) | {
    "core::iter::traits::iterator::Iterator::peekable", "core::iter::traits::collect::IntoIterator::into_iter",
    "smallvec::SmallVec::<A>::as_slice", "core::slice::<impl [T]>::iter", "core::iter::traits::iterator::Iterator::collect",
    "core::option::Option::<T>::take", "core::iter::traits::iterator::Iterator::by_ref", "core::iter::traits::iterator::Iterator::copied",
    "core::iter::traits::iterator::Iterator::cloned", "core::convert::identity",
}
MULTI = {"core::iter::traits::iterator::Iterator::chain": (0, 1)}
# wrapper constructors / mergers: the result carries every argument (entry merged with globals, flags merged with forced flags)
CARRIER_NAMES = ("merge_by_ref", "merge", "try_merge", "new")


def is_self_accessor(hb):
    """a one-argument helper whose result is (a part of) its argument, reached through take / unwrap / borrow only"""
    if hb.arg_count != 1:
        return False
    o = Prov(hb, adapters=ORDER_ADAPTERS, adapter_pred=lambda t: (t.get("callee") or {}).get("name") in (
        "as_ref", "deref", "borrow", "as_mut", "deref_mut", "unwrap", "expect", "take")).local(0)
    o = {x for x in o if x[0] != "via"}
    return bool(o) and all(x[0] == "arg" and x[1] == 1 for x in o)


def is_parts_helper(F, hb):
    """the helper's result is assembled only from its arguments: parts of them, or carrier calls (merge_by_ref ..) over them"""
    multi = {}
    for c in hb.calls():
        if c.name in CARRIER_NAMES and c.def_.startswith("metrique"):
            multi[c.def_] = tuple(range(len(c.args)))
    o = Prov(hb, adapters=ORDER_ADAPTERS, multi=multi, adapter_pred=lambda t: (t.get("callee") or {}).get("name") in (
        "as_ref", "deref", "borrow", "as_mut", "deref_mut", "unwrap", "expect", "take")).local(0)
    o = {x for x in o if x[0] not in ("via", "agg")}
    return bool(o) and all(x[0] == "arg" for x in o)


def trait_name(t):
    return (t or "").rsplit("::", 1)[-1]


def is_identity_closure(F, body, cs):
    """closure passed to map() returns (a rearrangement-free copy of) its argument: no calls, result built from arg fields in order"""
    for cb in closure_args(F, cs):
        calls = [c for c in cb.calls() if c.name not in ("deref", "as_ref", "borrow")]
        if calls:
            return False
        pr = Prov(cb)
        o = pr.local(0)
        args = sorted(x[2] for x in o if x[0] == "arg" and x[1] == 2)
        if not args:
            return False
        # order preserved: field i of the result comes from field i of the argument
        for i in cb.live_blocks():
            for s in cb.stmts(i):
                if s["k"] == "assign" and s["lhs"]["l"] == 0 and s["rv"]["k"] == "agg":
                    for k, op in enumerate(s["rv"]["ops"]):
                        oo = pr.operand(op)
                        fs = [x[2] for x in oo if x[0] == "arg" and x[1] == 2]
                        if fs and fs[0] and fs[0][0] != str(k):
                            return False
        return True
    return False


MIRROR = {}


def mirror_traits(F):
    """object-safe mirrors of the public traits, by role (whatever they are called): a trait M of the workspace that is implemented
    under a bound on a public trait T of TRAITS (`impl<E: Entry> M for E`, `impl<W: ValueWriter> M for Adapter<W>`) and whose methods
    are all methods of T -> {M: T}"""
    out = {}
    items = {}
    for d, t in F.traits.items():
        items.setdefault(trait_name(d), {(i_ if isinstance(i_, str) else i_.get("name")) for i_ in (t.get("items") or [])})
    for imp in F.impls:
        if imp["crate"] not in WS_LIBS:
            continue
        mn = trait_name(imp.get("trait") or "")
        if not mn or mn in TRAITS or not (imp.get("trait") or "").startswith("metrique") or not items.get(mn):
            continue
        for p in imp.get("preds", []):
            rhs = p.split(": ", 1)[-1]
            tn_ = trait_name(rhs.split("<")[0])
            if tn_ in TRAITS and items.get(mn) <= items.get(tn_, set()):
                out[mn] = tn_
    return out


def wrapper_impls(F):
    MIRROR.clear()
    MIRROR.update(mirror_traits(F))
    out = []
    for imp in F.impls:
        if imp["crate"] not in WS_LIBS:
            continue
        t = imp.get("trait") or ""
        tn = trait_name(t)
        base = MIRROR.get(tn, tn)
        if base not in TRAITS or not t.startswith("metrique"):
            continue
        f = imp["span"]["file"]
        if "test_util" in f or "test_stream" in f or "/tests/" in f:
            continue
        st = imp["self_ty"]
        preds = imp.get("preds", [])
        bound = [p.split(": ")[0] for p in preds if p.endswith("::" + tn) or ("::" + tn + "<") in p.split(": ", 1)[-1]]
        bound = [p for p in bound if len(p) <= 8 and p.replace("_", "").isalnum()]
        kind = None
        if any(st.startswith(p) for p in PTRS) and bound:
            kind = "pointer"
        elif st in bound:
            kind = None   # blanket impl over the trait itself (e.g. EntrySink for T: AnyEntrySink): handled as cross adapter elsewhere
        else:
            adt = F.adts.get((imp.get("self_head") or {}).get("adt"))
            if adt and bound:
                fields = [fd for v in adt["variants"] for fd in v["fields"]]
                # impl parameter names -> the struct's own parameter names (they may differ: struct Wrapper<V>, impl<W> .. for Wrapper<W>)
                gmap = dict(zip((imp.get("self_head") or {}).get("adt_args", []), adt.get("generics", [])))
                sbound = [gmap.get(b, b) for b in bound]
                inner = [fd for fd in fields if any(b == fd["ty"] or fd["ty"] in ("&'a mut " + b, "&mut " + b, "&" + b, "&'a " + b) or fd["ty"].endswith(" " + b) for b in sbound)]
                if inner:
                    kind = "adt"
                    imp = dict(imp, _inner=[fd["name"] for fd in inner])
        # object-safe mirror bridge: impls of the private Dyn* traits, and impls of the public traits for ADTs holding `dyn Dyn*`
        adt0 = F.adts.get((imp.get("self_head") or {}).get("adt"))
        holds_dyn = bool(adt0) and any("dyn " in fd["ty"] and any(("::" + m_) in fd["ty"] for m_ in MIRROR) for v in adt0["variants"] for fd in v["fields"])
        if kind is None and (tn in MIRROR or holds_dyn):
            kind = "dyn-bridge"
        cross = None
        for (suffix, ctn, m), tgt in CROSS.items():
            if ctn == tn and (imp.get("self_head") or {}).get("adt", "").endswith(suffix):
                cross = True
        if kind or cross:
            out.append((imp, tn, kind or "cross"))
    return out


WRAPPER_ADTS = set()


def run(ctx):
    F = ctx.facts("dbg")
    wi = wrapper_impls(F)
    WRAPPER_ADTS.clear()
    WRAPPER_ADTS.update(a for a in ((imp.get("self_head") or {}).get("adt") for imp, _, _ in wi) if a)
    ctx.floor("R15.1", "wrapper impls discovered", len(wi), 35)
    ctx.floor("R15.1", "object-safe mirror traits behind the boxed entry (by role)", len(MIRROR), 3)
    ctx.floor("R15.1", "bridge impls between a public trait and its object-safe mirror", len([1 for _, _, k_ in wi if k_ == "dyn-bridge"]), 6)
    from rules.c19 import converting_writer_types
    conv_tys = converting_writer_types(F)
    nmeth = 0
    for imp, tn, kind in wi:
        adt = (imp.get("self_head") or {}).get("adt", "")
        for it in imp["items"]:
            if it["kind"] != "fn":
                continue
            b = F.bodies.get((imp["crate"], it.get("uid") or it["def"]))
            if b is None:
                continue
            m = it["name"]
            if (tn, m) in EXEMPT or (MIRROR.get(tn, tn), m) in EXEMPT:
                continue
            if imp["self_ty"] in conv_tys:
                ctx.note("R15: %s::%s of the unit-converting wrapper is checked by C19 (R19.4)" % (tn, m))
                continue
            nmeth += 1
            key = strip_generics(imp["self_ty"]) + " as " + tn + "::" + m
            tgt = (tn, m)
            for (suffix, ctn, cm), t2 in CROSS.items():
                if ctn == tn and cm == m and adt.endswith(suffix):
                    tgt = t2
            check_forwarder(ctx, F, imp, b, tn, m, tgt, kind, key)
    ctx.floor("R15.1", "wrapper methods checked", nmeth, 60)
    # merged entries: both halves in field order
    for imp, tn, kind in wi:
        pass
    # compile-fail witnesses (type-level part of the property), discharged by rustc's type checker
    from mq import witness as _w
    _w.report_cf(ctx, "W15", _w.run_witness(), "C15")
    return EXPL


class MappedProv:
    """provenance inside a private helper the wrapper method delegates to, expressed in the wrapper's own coordinates: helper parameter k
    is what the wrapper passes as argument k (`write_in_order(&self.0, &self.1, writer)`: parameter 1 = self.0, 3 = the wrapper's writer)"""
    def __init__(self, inner, amap):
        self.inner, self.amap = inner, amap
        self.multi, self.b = inner.multi, inner.b

    def _map(self, s):
        out = set()
        for x in s:
            if x[0] == "arg":
                for y in self.amap.get(x[1], ()):
                    if y[0] == "arg":
                        out.add(("arg", y[1], tuple(y[2]) + tuple(x[2])))
                    elif y[0] == "const":
                        out.add(y)
                    elif y[0] in ("call", "callf"):
                        out.add(("outer-call", y[1]))
            else:
                out.add(x)
        return out

    def operand(self, op, rest=(), _seen=None):
        return self._map(self.inner.operand(op, rest, _seen))

    def local(self, l, fields=(), _seen=None):
        return self._map(self.inner.local(l, fields, _seen))

    def place(self, place, rest=(), _seen=None):
        return self._map(self.inner.place(place, rest, _seen))


def find_delegate(F, b, pr, tgt, same_family):
    """the wrapper method hands its parts to one private free function / inherent method of the crate that does the forwarding (shared by
    two flavours of a wrapper, say): (helper body, the call, parameter map) when there is exactly one such call on every path"""
    cands = []
    for c in b.calls():
        for hb in local_callee_bodies(F, c):
            if hb.crate != b.crate or hb.kind == "Closure" or (hb.impl or {}).get("trait") or hb.def_ == b.def_:
                continue
            if any(x.name == tgt[1] and (same_family(x.trait) or same_family(x.callee.get("impl_trait"))) for x in hb.calls()) and len(c.args) == hb.arg_count:
                cands.append((hb, c))
    if len(cands) != 1:
        return None
    hb, c = cands[0]
    if not exactly_once(b, [c.bb])[0]:
        return None
    return hb, c, {k + 1: pr.operand(a) for k, a in enumerate(c.args)}


def check_forwarder(ctx, F, imp, b, tn, m, tgt, kind, key, outer=None):
    wb = outer[0] if outer else b           # the wrapper method itself: its parameters are what must be passed on
    pr = Prov(b, adapters=ORDER_ADAPTERS, multi=MULTI,
              adapter_pred=lambda t: ((t.get("callee") or {}).get("name") == "map" and is_identity_closure(F, b, CallSite(b, -1, t))) or
              (t.get("callee") or {}).get("name") in ("as_ref", "deref", "borrow", "as_mut", "deref_mut", "clone", "into", "to_owned", "iter", "as_slice", "unwrap", "expect"))
    if outer:
        pr = MappedProv(pr, outer[2])
    for c in b.calls():
        if c.name in CARRIER_NAMES and c.def_.startswith("metrique") and c.def_ not in pr.multi:
            pr.multi[c.def_] = tuple(range(len(c.args)))
        elif c.def_.startswith("metrique") and c.def_ not in pr.multi and not c.dest.get("p"):
            # helper that builds one of the discovered wrapper structs around its arguments
            h = b.locals[c.dest["l"]].get("head", {})
            if h.get("adt") in WRAPPER_ADTS and local_callee_bodies(F, c):
                pr.multi[c.def_] = tuple(range(len(c.args)))
            elif b.local_ty(c.dest["l"]).startswith("(") and local_callee_bodies(F, c) and all(is_parts_helper(F, hb) for hb in local_callee_bodies(F, c)):
                # private helper handing back a tuple of (parts of / wrappers around) its arguments: `let (stream, merged) = self.stream_and_merged(entry)`
                pr.multi[c.def_] = tuple(range(len(c.args)))
            elif len(c.args) == 1 and local_callee_bodies(F, c) and all(is_self_accessor(hb) for hb in local_callee_bodies(F, c)):
                # private accessor of the wrapper: hands out (a part of) `self`, e.g. `fn take_writer(&mut self) -> W { self.0.take().unwrap() }`
                pr.multi[c.def_] = (0,)
    st = imp["self_ty"]
    def same_family(t):
        t = trait_name(t)
        return t == tgt[0] or MIRROR.get(t) == tgt[0] or MIRROR.get(tgt[0]) == t
    fwd = [c for c in b.calls() if c.name == tgt[1] and (same_family(c.trait) or same_family(c.callee.get("impl_trait")))]
    delegate = find_delegate(F, b, pr, tgt, same_family) if not fwd and not outer else None
    # receiver derives from self
    fwd_self = []
    for c in fwd:
        if not c.args:
            # associated fn without receiver (ValueFormatter::format_value): any call counts
            fwd_self.append(c)
            continue
        o = pr.operand(c.args[0])
        if any(x[0] == "arg" and x[1] == 1 for x in o) or tgt[0] == "ValueFormatter":
            fwd_self.append(c)
    inner_n = len(imp.get("_inner", [])) or 1
    # R15.4 what a wrapper carries across is a sequence: never collected into a map / set, sorted, de-duplicated or reversed (a format and a
    # sampler must see the same ordered items, repeated keys included)
    reshaped = []
    for c in b.calls():
        dty = b.local_ty(c.dest["l"]) if c.dest and not c.dest.get("p") else ""
        if c.name in ("collect", "from_iter", "into_iter", "extend") and any(k in dty for k in ("BTreeMap<", "HashMap<", "BTreeSet<", "HashSet<", "IndexMap<")):
            reshaped.append((c.bb, "%s into %s" % (c.name, dty.split("<")[0].split("::")[-1])))
        elif c.name in ("sort", "sort_by", "sort_by_key", "sort_unstable", "sort_unstable_by", "sort_unstable_by_key", "dedup", "dedup_by", "dedup_by_key", "reverse", "rev") and \
                ("slice" in (c.def_ or "") or "Vec" in (c.def_ or "") or "SmallVec" in (c.def_ or "") or "Iterator" in (c.def_ or "")):
            reshaped.append((c.bb, c.name))
    # the sample group a wrapper reports is the wrapped values' groups, whole: no element is filtered out, skipped or cut off
    if m == "sample_group":
        for u_ in [b] + list(F.closures_of(b)):
            for c in u_.calls():
                if c.name in ("filter", "filter_map", "skip", "skip_while", "take", "take_while", "step_by", "retain", "dedup_by_key", "map_while") and \
                        ("Iterator" in (c.def_ or "") or "Vec" in (c.def_ or "") or "SmallVec" in (c.def_ or "")):
                    reshaped.append((c.bb if u_ is b else 0, "%s on the sample group" % c.name))
    # also the return type of the bridge method itself
    rty = b.locals[0]["ty"] if b.locals else ""
    if any(k in rty for k in ("BTreeMap<", "HashMap<", "BTreeSet<", "HashSet<")):
        reshaped.append((0, "returns " + rty.split("<")[0].split("::")[-1]))
    ctx.check(not reshaped, "R15.4", key + "#sequence-kept-as-sequence", loc(b, reshaped[0][0] if reshaped else None),
              "the wrapper reshapes what it forwards (%s): order is lost and repeated keys collapse, so a wrapped entry no longer reports the same "
              "ordered sequence as the plain one" % ", ".join(t for _, t in reshaped[:3]), "no map/set collection, sort, dedup or reverse")
    # R15.3 a wrapper's own configuration survives the call: with `&mut self`, nothing but the forwarding call itself may mutate a field
    # of the wrapper (a field lent out with mem::take and handed back after a fallible call is lost on the error path)
    if not outer and b.arg_count >= 1 and b.locals[1]["ty"].startswith("&mut ") and (imp.get("self_head") or {}).get("adt"):
        plain = Prov(b, adapter_pred=lambda t: (t.get("callee") or {}).get("name") in ("deref_mut", "as_mut", "borrow_mut", "deref", "as_ref", "new_unchecked", "get_mut"))
        touched = []
        for i in b.live_blocks():
            for s_ in b.stmts(i):
                if s_["k"] == "assign" and s_["lhs"].get("p") and any(e[0] == "deref" for e in s_["lhs"]["p"]) and any(e[0] == "f" for e in s_["lhs"]["p"]):
                    if any(x[0] == "arg" and x[1] == 1 for x in plain.local(s_["lhs"]["l"])):
                        touched.append((i, "assigns ." + [e[2] for e in s_["lhs"]["p"] if e[0] == "f"][0]))
        for c in b.calls():
            if c in fwd_self or c.diverges or (delegate and c is delegate[1]):
                continue
            nm = c.name
            if nm in ("deref_mut", "as_mut", "borrow_mut", "new_unchecked", "get_mut") or c.is_trait_method("RngCore") or c.is_trait_method("Rng") or \
                    c.is_trait_method("EntryIoStream") or c.is_trait_method("Format") or c.is_trait_method("SampledFormat") or c.is_trait_method("Write") or \
                    c.is_trait_method("EntrySink") or c.is_trait_method("AnyEntrySink") or c.is_trait_method("MakeWriter"):
                continue
            # taking the wrapped value itself out in order to forward to it (one-shot writers: `self.0.take().unwrap().metric(..)`) is the
            # forwarding, not a mutation of the configuration
            if any(f_.args and any(x[0] in ("call", "via", "callf") and x[1] == c.bb for x in pr.operand(f_.args[0])) for f_ in fwd_self):
                continue
            for a in c.args:
                l = op_local(a)
                if l is not None and b.local_ty(l).startswith("&mut "):
                    fo = [x for x in plain.operand(a) if x[0] == "arg" and x[1] == 1 and x[2]]
                    if fo:
                        touched.append((c.bb, "%s(&mut self.%s)" % (nm, fo[0][2][0])))
        ctx.check(not touched, "R15.3", key + "#own-configuration-untouched", loc(b, touched[0][0] if touched else None),
                  "the wrapper mutates its own state outside the forwarding call (%s): if the wrapped call fails in between, what the wrapper adds or "
                  "filters changes for every later entry" % ", ".join(t for _, t in touched[:3]),
                  "no field of the wrapper is written or lent mutably except to the forwarding call")
    is_option = st.startswith("core::option::Option<")
    if delegate:
        # the forwarding proper is judged in the helper, in this method's coordinates; here: its result is this method's result
        hb, d, amap = delegate
        if (b.locals[0]["ty"] if b.locals else "()") not in ("()",):
            ctx.check(not d.dest.get("p") and (d.dest["l"] == 0 or any(x[0] in ("call", "via") and x[1] == d.bb for x in pr.local(0))), "R15.2", key + "#returns-helper-result", loc(b, d.bb),
                      "the result of the forwarding helper is not what the wrapper method returns")
        check_forwarder(ctx, F, imp, hb, tn, m, tgt, kind, key, outer=(b, d, amap))
        return
    if m == "sample_group":
        o = pr.local(0)
        okg = any(x[0] in ("call", "via") and x[1] in [c.bb for c in fwd_self] for x in o)
        ctx.check(okg, "R15.2", key + "#returns-inner-groups", loc(b), "sample_group does not return the wrapped value's sample group (sampling would treat every entry alike)")
        if not okg:
            return
    if not fwd_self:
        # closures may hold the forwarding call (e.g. inside a callback); look one level down
        for cb in F.closures_of(b):
            if any(c.name == tgt[1] and trait_name(c.trait) == tgt[0] for c in cb.calls()):
                ctx.ok("R15.2", key + "#forwards", loc(b), "forwarding call inside closure %s" % cb.path)
                return
        ctx.bad("R15.2", key + "#forwards", loc(b), "wrapper method never calls `%s::%s` on the wrapped value: the wrapped value's output is lost" % tgt)
        return
    sites = [c.bb for c in fwd_self]
    if is_option:
        ok, why = at_most_once(b, sites)
        # exactly once on the Some path
        some_ok = False
        for i in b.live_blocks():
            t = b.term(i)
            if t["k"] == "switch":
                for s in b.stmts(i):
                    if s["k"] == "assign" and s["rv"]["k"] == "discr" and "Option" in s["rv"].get("adt", ""):
                        tgm = {v: tb for v, tb in t["targets"]}
                        st_ = tgm.get(1)
                        if st_ is not None and b.must_pass(sites, start=st_):
                            some_ok = True
        ctx.check(ok and some_ok, "R15.2", key + "#forwards-when-some", loc(b), "Option wrapper does not forward exactly once when it holds a value (%s)" % why)
    elif inner_n >= 2 and len({tuple(sorted(x[2] for x in pr.operand(c.args[0]) if x[0] == "arg")) for c in fwd_self if c.args}) >= 2:
        # merged: one call per inner, in field order
        per = {}
        for c in fwd_self:
            fs = sorted({x[2][0] for x in pr.operand(c.args[0]) if x[0] == "arg" and x[1] == 1 and x[2]})
            per.setdefault(tuple(fs), []).append(c)
        ok = all(exactly_once(b, [c.bb for c in cs])[0] for cs in per.values()) and len(per) == inner_n
        ctx.check(ok, "R15.2", key + "#forwards-to-each-inner", loc(b), "merged wrapper does not forward exactly once to each of its %d inner values" % inner_n)
        order = [f for f in imp.get("_inner", [])]
        dom = b.dominators()
        firsts = [per.get((f,), [None])[0] for f in order]
        if all(firsts) and len(firsts) == 2:
            ctx.check(dominates(b, firsts[0].bb, firsts[1].bb, dom), "R15.2", key + "#inner-order", loc(b), "inner values are written in a different order than declared (%s first)" % order[0])
    else:
        ok, why = exactly_once(b, sites)
        if not ok and len(fwd_self) > 1:
            # alternative branches each forwarding once (deny-list / global-dimension branches)
            ok = b.must_pass(sites) and at_most_once(b, sites)[0]
        ctx.check(ok, "R15.2", key + "#forwards-exactly-once", loc(b), "wrapper does not forward to `%s::%s` exactly once on every path: %s" % (tgt[0], tgt[1], why))
    # parameters reach the same position
    for c in fwd_self:
        # positional mapping: wrapper param j (local j) -> callee arg j-1, when arities agree
        if len(c.args) != wb.arg_count or tgt != (tn, m):
            # cross-trait adapter: parameters must reach the call somewhere
            for j in range(2, wb.arg_count + 1):
                anywhere = any(any(x[0] == "arg" and x[1] == j for x in pr.operand(a)) for a in c.args)
                ctx.check(anywhere, "R15.2", key + "#passes-" + (wb.local_name(j) or "arg%d" % j), loc(b, c.bb), "parameter %d does not reach the adapted call" % j)
            continue
        for j in range(2, wb.arg_count + 1):
            pty = wb.locals[j]["ty"]
            o = pr.operand(c.args[j - 1])
            has = any(x[0] == "arg" and x[1] == j for x in o)
            foreign_calls = [x for x in o if x[0] == "call"]
            consts = [x for x in o if x[0] == "const"]
            pname = wb.local_name(j) or ("arg%d" % j)
            if "io::Write" in pty or pname in ("output",):
                ctx.check(has, "R15.2", key + "#passes-" + pname, loc(b, c.bb), "the output writer is not passed through")
                continue
            ctx.check(has, "R15.2", key + "#passes-" + pname, loc(b, c.bb),
                      "parameter `%s` does not reach the wrapped value's `%s` in the same position (origins: %s)" % (pname, tgt[1], sorted(map(str, o))[:4]))
            # calls that take the parameter itself as input transform it; calls fed from self only are the wrapper's additions
            transforming = []
            for x in foreign_calls:
                tt = b.term(x[1])
                if any(any(y[0] == "arg" and y[1] == j for y in pr.operand(a)) for a in tt.get("args", [])):
                    transforming.append(x)
            if has and transforming:
                names = sorted({(b.term(x[1]).get("callee") or {}).get("name") for x in transforming})
                allowed = {"chain", "try_merge", "merge", "construct", "map", "merge_by_ref", "new", "make", "filter", "contains"}
                extra = [n for n in names if n not in allowed]
                ctx.check(not extra, "R15.2", key + "#" + pname + "-unaltered", loc(b, c.bb),
                          "parameter `%s` is transformed by %s before being forwarded" % (pname, extra))
            # additions appended after the incoming items
            for x in pr.operand(c.args[j - 1]):
                pass
        # chain order: incoming first, own additions second
        for x in b.calls():
            if x.name == "chain" and "Iterator" in x.def_ and len(x.args) == 2:
                a0, a1 = pr.operand(x.args[0]), pr.operand(x.args[1])
                inc0 = any(y[0] == "arg" and y[1] >= 2 for y in a0)
                inc1 = any(y[0] == "arg" and y[1] >= 2 for y in a1)
                for y in list(a1):
                    if y[0] == "call":      # look through non-identity adapters of the second operand
                        for a in b.term(y[1]).get("args", []):
                            inc1 = inc1 or any(z[0] == "arg" and z[1] >= 2 for z in pr.operand(a))
                own1 = not inc1
                if inc0 or inc1:
                    ctx.check(inc0 and own1 and not inc1, "R15.2", key + "#additions-after-existing", loc(b, x.bb),
                              "the wrapper's own dimensions are chained BEFORE the incoming ones (documented: appended after existing dimensions)")
    # flags merged, never replaced: if the method has a MetricFlags parameter, the forwarded flags derive from it
    # (covered by the positional rule above).  sample_group: result is the inner's result

"""C16 — partial writes and I/O errors never tear, duplicate or stall output (discipline, not arithmetic)."""
from mq.util import *
from mq.prov import Prov
from mq.facts import CallSite

EXPL = ("R16.1 no result of write_vectored / write_all_vectored / EntryIoStream::next|flush / Format::format* / io::Write::flush is "
        "discarded (unused, `let _`, `.ok()` then dropped) anywhere in the library crates; R16.2 the vectored-write retry loop: "
        "Ok(0) leaves the loop with an error, Ok(n) advances by that very n before retrying, Interrupted retries without advancing, "
        "other errors are returned, success only when no bytes remain, and the io-slice list is rebuilt from the advanced slices on "
        "every iteration; R16.3 production sinks never unwrap/?-propagate stream results and write no non-counter state on error "
        "arms; R16.4 a tee calls both inner streams on every path; R16.6 (= R14.2 on the output buffers) whatever an entry had put into the formatter's buffers when its "
        "write failed is discarded before the next entry uses them, on every path; R16.5 (= R01.3) no branch of the background "
        "drain loop derives from the result of writing an entry, and the consumer's error arms write only integer counters and never "
        "re-insert: an error on one entry cannot stop, skip or repeat later ones. The advancing helper's loop exits only on list-exhausted / partial-slice conditions (so no empty slice is left in front). Not decided: byte-exact slice arithmetic of advance_slices.")

IO_METHODS = [("Write", ("write_vectored", "flush", "write_all", "write")), ("EntryIoStream", ("next", "flush")),
              ("Format", ("format",)), ("SampledFormat", ("format_with_sample_rate",)), ("EntryIoStreamExt", ("report_error",))]
DISCARDERS = ("core::result::Result::<T, E>::ok", "core::result::Result::<T, E>::err", "core::mem::drop",
              "core::result::Result::<T, E>::is_ok", "core::result::Result::<T, E>::is_err")
PANICKERS = ("core::result::Result::<T, E>::unwrap", "core::result::Result::<T, E>::expect", "core::result::Result::<T, E>::unwrap_err",
             "core::result::Result::<T, E>::expect_err")


_SEND_DEFS = set()


def is_io_call(cs):
    for tr, ms in IO_METHODS:
        for m in ms:
            if cs.is_trait_method(tr, m):
                return True
    # the workspace's own vectored-send helper (by role: a local function whose result is an io::Result and that reaches write_vectored)
    if "metrique" in cs.def_ and cs.def_ in _SEND_DEFS:
        return True
    return False


def reads_of(body, l):
    """places where local l is read (not merely dropped / storage-dead): list of (kind, bb, detail)"""
    out = []
    for i in range(body.nblocks):
        if body.is_cleanup(i):
            continue
        for j, s in enumerate(body.stmts(i)):
            if s["k"] != "assign":
                continue
            rv = s["rv"]
            for o in _rv_operands(rv):
                p = op_place(o)
                if p is not None and p["l"] == l:
                    out.append(("stmt", i, s))
            if rv["k"] in ("ref", "discr", "rawptr") and rv["place"]["l"] == l:
                out.append(("stmt", i, s))
        t = body.term(i)
        if t["k"] == "call":
            for a in t["args"]:
                p = op_place(a)
                if p is not None and p["l"] == l:
                    out.append(("call", i, t))
        elif t["k"] == "switch":
            p = op_place(t["discr"])
            if p is not None and p["l"] == l:
                out.append(("switch", i, t))
    return out


def _rv_operands(rv):
    k = rv["k"]
    if k in ("use", "cast", "repeat"):
        return [rv["op"]]
    if k == "binop":
        return [rv["a"], rv["b"]]
    if k == "unop":
        return [rv["a"]]
    if k == "agg":
        return rv["ops"]
    return []


def result_discarded(body, l, depth=3):
    """is the value in local l never looked at (only dropped, or passed to .ok()/drop() whose result is itself discarded)?"""
    if l == 0:
        return False
    reads = reads_of(body, l)
    if not reads:
        return True
    if depth <= 0:
        return False
    for kind, bb, node in reads:
        if kind == "switch":
            return False
        if kind == "call":
            c = node.get("callee", {})
            if c.get("def") in DISCARDERS:
                if c.get("def") == "core::mem::drop":
                    continue
                d = node["dest"]
                if d.get("p") or not result_discarded(body, d["l"], depth - 1):
                    return False
                continue
            return False
        if kind == "stmt":
            s = node
            rv = s["rv"]
            if rv["k"] in ("ref", "discr"):
                # a borrow / discriminant read: follow the new local
                if s["lhs"].get("p") or not result_discarded(body, s["lhs"]["l"], depth - 1):
                    return False
                continue
            if s["lhs"].get("p") or not result_discarded(body, s["lhs"]["l"], depth - 1):
                return False
    return True


def flows_to_panicker(body, l, depth=4, seen=None):
    seen = seen or set()
    if l in seen or depth < 0:
        return None
    seen.add(l)
    for kind, bb, node in reads_of(body, l):
        if kind == "call":
            c = node.get("callee", {})
            if c.get("def") in PANICKERS:
                return (bb, c.get("name"))
            if c.get("def") == "core::ops::Try::branch" or (c.get("trait") or "").endswith("Try"):
                return (bb, "?")
            # adapters that keep the error inside: and / map_err / or
            if c.get("name") in ("and", "and_then", "map_err", "or", "or_else", "map", "into", "from") and not node["dest"].get("p"):
                r = flows_to_panicker(body, node["dest"]["l"], depth - 1, seen)
                if r:
                    return r
        elif kind == "stmt" and not node["lhs"].get("p") and node["rv"]["k"] in ("use", "cast"):
            r = flows_to_panicker(body, node["lhs"]["l"], depth - 1, seen)
            if r:
                return r
    return None


def possibly_empty_buffers(ctx, F):
    """buffers handed to the crate's vectored send for which no evidence of non-emptiness is found: [(body, description)].
    Evidence for a PrefixedStringBuf field: a non-empty constant / formatted prefix at construction, an append on every path before the send,
    or the send being guarded by `!is_empty()` of that buffer.  For a plain slice: a non-empty literal or a formatted number."""
    import rules.c02 as c02
    from mq.bufsim import BufSim
    CR = c02.CR
    # constructor evidence per field name
    ctor_ok = set()
    for b in F.all_bodies(CR):
        if not c02.in_scope(b):
            continue
        pr = Prov(b)
        sim = None
        for i in b.live_blocks():
            for s_ in b.stmts(i):
                if s_["k"] == "assign" and s_["rv"]["k"] == "agg" and (s_["rv"].get("adt") or "").startswith(CR) and s_["rv"].get("fields"):
                    for fn_, op in zip(s_["rv"]["fields"], s_["rv"]["ops"]):
                        l = op_local(op)
                        if l is None or "PrefixedStringBuf" not in b.local_ty(l):
                            continue
                        for x in pr.operand(op):
                            if x[0] == "call":
                                t = b.term(x[1])
                                if (t.get("callee") or {}).get("name") in ("new", "from_prefix") and t.get("args"):
                                    sim = sim or BufSim(F, b, CR)
                                    k = sim._const_str(t["args"][0])
                                    po = pr.operand(t["args"][0])
                                    built = any(y[0] == "call" and (b.term(y[1]).get("callee") or {}).get("name") in ("format", "must_use", "with_capacity", "to_string") for y in po)
                                    if (k is not None and len(k) > 0) or built:
                                        ctor_ok.add(fn_)
    out = []
    nbuf = 0
    for b in F.all_bodies(CR):
        if not c02.in_scope(b):
            continue
        for c in b.calls():
            if not c02.is_send(F, c):
                continue
            pr = Prov(b)
            dom = b.dominators()
            sim = BufSim(F, b, CR)
            # all elements of the buffer list
            elems, seen, work = [], set(), [op_local(c.args[0]) if c.args else None]
            while work:
                l = work.pop()
                if l is None or l in seen:
                    continue
                seen.add(l)
                for kind, bb_, idx, node in b.defs().get(l, []):
                    if b.is_cleanup(bb_):
                        continue
                    if kind == "assign" and node["k"] == "assign":
                        rv = node["rv"]
                        if rv["k"] == "agg" and rv.get("agg") == "array":
                            elems += rv["ops"]
                        elif rv["k"] in ("use", "cast"):
                            work.append(op_local(rv["op"]))
                        elif rv["k"] == "agg":
                            work += [op_local(o) for o in rv["ops"]]
                    elif kind == "call":
                        work += [op_local(a) for a in node["args"]]
                for i in b.live_blocks():
                    for s_ in b.stmts(i):
                        if s_["k"] == "assign" and s_["lhs"]["l"] == l and s_["lhs"].get("p") and s_["rv"]["k"] == "agg" and s_["rv"].get("agg") == "array":
                            elems += s_["rv"]["ops"]
                # smallvec! with few elements: SmallVec::new() followed by push(elem) ...
                for x in b.calls():
                    if x.name == "push" and "smallvec" in x.def_ and c02._recv_local(b, x) == l and len(x.args) > 1:
                        elems.append(x.args[1])
            # the two expansions of smallvec! (inline pushes / boxed array) list the same elements: de-duplicate by provenance
            uniq, seen_e = [], set()
            for e in elems:
                key_e = frozenset(pr.operand(e))
                if key_e not in seen_e:
                    seen_e.add(key_e)
                    uniq.append(e)
            elems = uniq
            for e in elems:
                nbuf += 1
                o = pr.operand(e)
                fields = {x[2][-1] for x in o if x[0] in ("arg", "callf") and x[2]}
                k = sim._const_str(e)
                if not fields:
                    if (k is not None and len(k) > 0) or any(x[0] == "call" and (b.term(x[1]).get("callee") or {}).get("name") in ("format", "format_finite", "as_str", "as_bytes", "as_ref") for x in o):
                        continue
                    out.append((b, "a slice of unknown length"))
                    continue
                f = sorted(fields)[0]
                if f in ctor_ok:
                    continue
                # an append to this very buffer on every path before the send
                apps = [x for x in b.calls() if x.name in ("push_raw_str", "push", "push_integer", "json_string", "push_json_safe_string", "push_json_safe_array",
                                                            "push_json_safe_log_group_and_timestamp") and x.args and
                        any(y[0] in ("arg", "callf") and y[2] and y[2][-1] == f for y in pr.operand(x.args[0])) and dominates(b, x.bb, c.bb, dom) and
                        not (x.name == "push_raw_str" and len(x.args) > 1 and sim._const_str(x.args[1]) == "")]
                if apps:
                    continue
                # the send is guarded by `!buffer.is_empty()`
                guarded = False
                for x in b.calls():
                    if x.name == "is_empty" and x.args and any(y[0] in ("arg", "callf") and y[2] and y[2][-1] == f for y in pr.operand(x.args[0])):
                        for sw, tg, oth in switch_on_call_result(b, x):
                            ft = tg.get(0)
                            if ft is not None and dominates(b, ft, c.bb, dom):
                                guarded = True
                if guarded:
                    continue
                out.append((b, "buffer `%s`" % f))
    ctx.floor("R16.2", "buffers handed to vectored sends (checked for emptiness evidence)", nbuf, 5)
    if out:
        ctx.note("R16.2: buffers that may be empty when sent: %s" % sorted({d for _, d in out}))
    return out


def cycle_must_pass(body, site, through):
    """every cycle site -> ... -> site passes through one of the blocks in `through`"""
    return site not in body.reachable_after(site, avoid=set(through) - {site})


def run(ctx):
    F = ctx.facts("dbg")
    _SEND_DEFS.clear()
    for b_ in F.all_bodies(WS_LIBS) if "WS_LIBS" in globals() else []:
        if any(c_.is_trait_method("Write", "write_vectored") for c_ in b_.calls()) and "io::error::Error" in (b_.locals[0]["ty"] if b_.locals else ""):
            _SEND_DEFS.add(b_.def_)
    # ------------------------------------------------------------------------ R16.1
    n = 0
    for b in F.all_bodies(WS_LIBS):
        if "test_util" in b.path or "test_stream" in b.path or "::tests::" in b.path:
            continue
        for c in b.calls():
            if not is_io_call(c) or is_noise(c) or c.target is None or c.dest.get("p"):
                continue
            dty = b.local_ty(c.dest["l"])
            if "Result<" not in dty:
                continue
            n += 1
            disc = result_discarded(b, c.dest["l"])
            ctx.check(not disc, "R16.1", fnkey(b) + "#result-of-%s-used" % c.name, loc(b, c.bb),
                      "the result of `%s` is discarded: an I/O or validation error would vanish silently" % c.def_)
    ctx.floor("R16.1", "I/O-result call sites in library code", n, 15)

    # ------------------------------------------------------------------------ R16.2 retry loop
    loops = []
    for b in F.all_bodies(WS_LIBS):
        for c in b.calls():
            if c.is_trait_method("Write", "write_vectored") and c.bb in b.reachable_after(c.bb):
                loops.append((b, c))
    ctx.floor("R16.2", "vectored-write retry loops", len(loops), 1)
    may_be_empty = possibly_empty_buffers(ctx, F)
    for b, w in loops:
        key = fnkey(b)
        pr = Prov(b)
        dl = w.dest["l"]
        dom = b.dominators()
        # the write result may be bound to a named local before it is matched: every plain move/copy of it is the same value
        res_locals = {dl}
        grew = True
        while grew:
            grew = False
            for i in b.live_blocks():
                for s_ in b.stmts(i):
                    if s_["k"] == "assign" and not s_["lhs"].get("p") and s_["rv"]["k"] == "use" and op_local(s_["rv"]["op"]) in res_locals and s_["lhs"]["l"] not in res_locals:
                        res_locals.add(s_["lhs"]["l"])
                        grew = True
        # advance calls: workspace callee taking the slice cursor and a count
        adv = []
        for c in b.calls():
            subs = local_callee_bodies(F, c)
            if subs and len(c.args) == 2 and "usize" == (b.local_ty(op_local(c.args[1])) if op_local(c.args[1]) is not None else ("usize" if op_const(c.args[1]) else "")):
                adv.append(c)
        adv_in_loop = [c for c in adv if c.bb in b.reachable_after(w.bb) and w.bb in b.reachable_after(c.bb)]
        ctx.check(bool(adv_in_loop), "R16.2", key + "#advance-in-loop", loc(b), "no slice-advancing call inside the retry loop")
        # find the Ok / Err discrimination of the write result
        ok_arm = err_arm = None
        for i in b.live_blocks():
            t = b.term(i)
            if t["k"] != "switch":
                continue
            for s in b.stmts(i):
                if s["k"] == "assign" and s["rv"]["k"] == "discr" and s["rv"]["place"]["l"] in res_locals and not s["rv"]["place"].get("p"):
                    vm = {n_: d for d, n_ in s["rv"]["variants"]}
                    tg = {v: tb for v, tb in t["targets"]}
                    if ok_arm is None and tg.get(vm.get("Ok")) is not None and tg.get(vm.get("Err")) is not None and \
                            (i == w.bb or dominates(b, w.bb, i, dom)) and w.bb in b.reachable_after(i) | {i}:
                        ok_arm, err_arm = tg.get(vm.get("Ok")), tg.get(vm.get("Err"))
        if ok_arm is None or err_arm is None:
            ctx.bad("R16.2", key + "#result-matched", loc(b, w.bb), "the result of write_vectored is not matched into Ok/Err arms")
            continue
        # Ok(0): switch on the Ok payload with explicit 0 target
        zero_t = nz_t = None
        for i in b.reachable(ok_arm):
            t = b.term(i)
            if t["k"] == "switch":
                p = op_place(t["discr"])
                if p is not None and p["l"] in res_locals and [e[0] for e in p.get("p", [])] == ["dc", "f"]:
                    for v, tb in t["targets"]:
                        if v == 0:
                            zero_t = tb
                    nz_t = t["otherwise"]
                    break
                # `if n == 0` / `if n != 0` on the bound payload
                dd_ = [d for d in b.defs().get(op_local(t["discr"]), []) if not b.is_cleanup(d[1])] if op_local(t["discr"]) is not None else []
                if len(dd_) == 1 and dd_[0][0] == "assign" and dd_[0][3]["rv"]["k"] == "binop" and dd_[0][3]["rv"]["op"] in ("Eq", "Ne"):
                    rv_ = dd_[0][3]["rv"]
                    sides = [(rv_["a"], rv_["b"]), (rv_["b"], rv_["a"])]
                    for x_, k_ in sides:
                        if (op_const(k_) or {}).get("int") == 0 and any(o[0] in ("call", "callf") and o[1] == w.bb for o in pr.operand(x_)):
                            tgm = {v: tb for v, tb in t["targets"]}
                            zero_t, nz_t = (t["otherwise"], tgm.get(0)) if rv_["op"] == "Eq" else (tgm.get(0), t["otherwise"])
                    if zero_t is not None:
                        break
        if zero_t is None:
            ctx.bad("R16.2", key + "#ok0-is-error", loc(b, w.bb),
                    "a zero-length write (Ok(0)) is not distinguished from progress: a writer that accepts nothing makes the loop spin forever")
        else:
            back = w.bb in b.reachable(zero_t)
            rets_err = _returns_variant(b, zero_t, "Err")
            ctx.check((not back) and rets_err, "R16.2", key + "#ok0-is-error", loc(b, zero_t),
                      "Ok(0) from the writer %s" % ("re-enters the retry loop (stall)" if back else "does not return an error"),
                      "Ok(0) leaves the loop returning Err")
            # Ok(n): every way back to the write passes an advance whose count is the write result
            good_adv = [c for c in adv_in_loop if any(o == ("call", w.bb) for o in pr.operand(c.args[1]))]
            ctx.check((bool(good_adv) and (nz_t in [c.bb for c in good_adv] or w.bb not in b.reachable(nz_t, avoid=[c.bb for c in good_adv]))) if nz_t is not None else False,
                      "R16.2", key + "#okn-advances-by-n", loc(b, nz_t if nz_t is not None else w.bb),
                      "after Ok(n) the loop can retry without advancing the slices by the n reported by this write (bytes would be duplicated)",
                      "advance(bb%s) with the write result dominates the retry" % [c.bb for c in good_adv])
        # Err arm: Interrupted retries without advance; other errors returned
        kinds = [c for c in b.calls() if c.is_in("std::io", "Error::kind") and c.bb in b.reachable(err_arm)]
        intr_sw = None
        for i in b.reachable(err_arm):
            t = b.term(i)
            if t["k"] != "switch":
                continue
            o = pr.operand(t["discr"])
            eqs = [x[1] for x in o if x[0] == "call" and b.term(x[1]).get("callee", {}).get("name") in ("eq", "ne")]
            for eb in eqs:
                et = b.term(eb)
                allo = set()
                for a in et["args"]:
                    allo |= pr.operand(a)
                if any(x[0] == "const" and isinstance(x[1], tuple) and x[1][0] == "variant" and x[1][2] == "Interrupted" for x in allo):
                    is_ne = et["callee"]["name"] == "ne"
                    tg = {v: tb for v, tb in t["targets"]}
                    true_t, false_t = t["otherwise"], tg.get(0)
                    intr_sw = (i, false_t if is_ne else true_t, true_t if is_ne else false_t)
            # matches!(kind, Interrupted) style: discriminant switch on ErrorKind
            if intr_sw is None:
                for s in b.stmts(i):
                    if s["k"] == "assign" and s["rv"]["k"] == "discr" and s["rv"].get("adt", "").endswith("ErrorKind"):
                        vm = {n_: d for d, n_ in s["rv"]["variants"]}
                        tg = {v: tb for v, tb in t["targets"]}
                        if vm.get("Interrupted") in tg:
                            intr_sw = (i, tg[vm["Interrupted"]], t["otherwise"])
        if intr_sw is None:
            ctx.bad("R16.2", key + "#interrupted-retries", loc(b, err_arm), "ErrorKind::Interrupted is not recognised in the Err arm (a signal would abort the entry)")
        else:
            _, intr_t, other_t = intr_sw
            retry = w.bb in b.reachable(intr_t)
            advs = [c.bb for c in adv_in_loop]
            clean = retry and w.bb in b.reachable(intr_t, avoid=advs) and not any(
                a in b.reachable(intr_t, avoid=[w.bb]) for a in advs)
            ctx.check(clean, "R16.2", key + "#interrupted-retries-without-advance", loc(b, intr_t),
                      "on Interrupted the loop %s" % ("advances the slices although nothing was written (bytes would be omitted)" if retry else "does not retry"))
            ctx.check(w.bb not in b.reachable(other_t) and _returns_variant(b, other_t, "Err"), "R16.2", key + "#hard-error-returned", loc(b, other_t),
                      "a hard write error does not leave the loop with Err")
        # R16.7 the advance helper leaves no empty slice in front: its loop ends only when the list is exhausted or a slice was cut
        # in the middle - never merely because the byte count is used up (an empty leading IoSlice makes a writer that serves the
        # first buffer report Ok(0), which this very loop turns into WriteZero)
        for a_ in adv_in_loop[:1]:
            for hb in local_callee_bodies(F, a_):
                hpr = Prov(hb)
                heads = [i for i in hb.live_blocks() if i in hb.reachable_after(i)]
                cyc = set(heads)
                exits = [(x, y) for x in cyc for y in hb.succ(x) if y not in cyc and (set(hb.reachable(y)) & set(hb.return_blocks()))]
                badx = []
                for x, y in exits:
                    t = hb.term(x)
                    if t["k"] != "switch":
                        continue
                    # the exit must be a match on the Option returned by the list access / by the checked subtraction itself (or on
                    # is_empty of the list) - not a comparison of the running count
                    okx = False
                    for st_ in hb.stmts(x):
                        if st_["k"] == "assign" and st_["rv"]["k"] == "discr" and not st_["rv"]["place"].get("p") and op_local(t["discr"]) == st_["lhs"]["l"]:
                            for kind_, bb_, j_, node_ in hb.defs().get(st_["rv"]["place"]["l"], []):
                                if kind_ == "call" and (node_.get("callee") or {}).get("name") in ("first_mut", "first", "split_first", "split_first_mut", "get", "get_mut", "next", "checked_sub", "split_first_chunk"):
                                    okx = True
                    dl_ = op_local(t["discr"])
                    for kind_, bb_, j_, node_ in hb.defs().get(dl_, []) if dl_ is not None else []:
                        if kind_ == "call" and (node_.get("callee") or {}).get("name") == "is_empty":
                            okx = True
                    if okx:
                        continue
                    names = {(hb.term(o[1]).get("callee") or {}).get("name") for o in hpr.operand(t["discr"]) if o[0] in ("call", "callf")}
                    badx.append((x, sorted(n for n in names if n) or ["a comparison of the byte count"]))
                # (only matters if some buffer handed to a vectored send can be empty at that point; with every buffer known non-empty an
                # early stop leaves a non-empty slice in front and is harmless)
                if badx and not may_be_empty:
                    ctx.ok("R16.2", fnkey(hb) + "#advance-stops-only-at-list-end-or-inside-a-slice", loc(hb),
                           "the loop can stop when the count is used up, but every buffer passed to a vectored send is known to be non-empty")
                    continue
                ctx.check(bool(exits) and not badx, "R16.2", fnkey(hb) + "#advance-stops-only-at-list-end-or-inside-a-slice", loc(hb, badx[0][0] if badx else None),
                          "the slice-advancing loop can stop for another reason than `no slice left` / `slice cut in the middle` (exit at bb%s decided by %s): "
                          "an empty slice can stay at the front, and a writer that serves only the first buffer then reports Ok(0), i.e. WriteZero for a "
                          "writer that never failed" % (badx[0][0] if badx else "?", badx[0][1] if badx else ""),
                          "%d loop exits, all on list-exhausted / partial-slice conditions" % len(exits))
        # success only when nothing remains
        okrets = _ok_return_blocks(b)
        empt = [c for c in b.calls() if c.name == "is_empty" and c.bb in b.reachable_after(w.bb)]
        okd = False
        for c in empt:
            for i, tg, oth in switch_on_call_result(b, c):
                true_t = oth
                if all(dominates(b, true_t, r, dom) or r == true_t for r in okrets) and okrets:
                    okd = True
        ctx.check(okd, "R16.2", key + "#ok-only-when-empty", loc(b), "Ok(()) can be returned while slices remain unwritten")
        # io-slices rebuilt from the advanced slices each iteration
        io_arg = pr.operand(w.args[1]) if len(w.args) > 1 else set()
        builders = [c for c in b.calls() if c.name in ("extend", "collect", "from_iter", "push", "extend_from_slice") and c.bb in b.reachable_after(w.bb) | {w.bb} and w.bb in b.reachable_after(c.bb)]
        clears = [c for c in b.calls() if c.name in ("clear", "new", "truncate", "collect", "from_iter") and w.bb in b.reachable_after(c.bb) and c.bb in b.reachable_after(w.bb)]
        # a builder inside an inner `for` over the slices is represented by that inner loop's head (passed once per retry iteration)
        bpass = []
        for c in builders:
            if c.bb in b.reachable_after(c.bb, avoid=[w.bb]):
                heads = [h.bb for h in b.calls() if h.is_trait_method("Iterator", "next") and c.bb in b.reachable_after(h.bb, avoid=[w.bb]) and h.bb in b.reachable_after(c.bb, avoid=[w.bb])]
                bpass += heads or [c.bb]
            else:
                bpass.append(c.bb)
        ctx.check(bool(builders) and cycle_must_pass(b, w.bb, bpass), "R16.2", key + "#io-slices-rebuilt-each-iteration", loc(b, w.bb),
                  "a retry can reach write_vectored without rebuilding the io-slice list from the advanced slices (already written bytes would be sent again)")
        ctx.check(bool(clears) and cycle_must_pass(b, w.bb, [c.bb for c in clears]), "R16.2", key + "#io-slices-cleared-each-iteration", loc(b, w.bb),
                  "the io-slice list is not emptied between iterations (stale slices would be written again)")

    # ------------------------------------------------------------------------ R16.3 sinks survive errors
    sinks = []
    for b in F.all_bodies("metrique_writer"):
        if not (b.path.startswith("metrique_writer::sink::") and not b.path.startswith("metrique_writer::sink::metrics::")
                or b.path.startswith("<metrique_writer::sink::")):
            continue
        if "::tests::" in b.path:
            continue
        if any(c.is_trait_method("EntryIoStream") or c.is_trait_method("EntryIoStreamExt") for c in b.calls()):
            sinks.append(b)
    ctx.floor("R16.3", "sink bodies calling the stream", len(sinks), 3)
    for b in sinks:
        for c in b.calls():
            if not (c.is_trait_method("EntryIoStream") or c.is_trait_method("EntryIoStreamExt")) or c.dest.get("p") or c.target is None:
                continue
            p = flows_to_panicker(b, c.dest["l"])
            ctx.check(p is None, "R16.3", fnkey(b) + "#%s-result-not-unwrapped" % c.name, loc(b, c.bb),
                      "the result of the stream's `%s` reaches `%s`: one bad entry or a full disk would panic/abort the sink" % (c.name, p[1] if p else ""))
        badw = []
        for i in b.live_blocks():
            for s in b.stmts(i):
                if s["k"] == "assign" and s["lhs"]["l"] == 1 and any(e[0] == "deref" for e in s["lhs"].get("p", [])):
                    fe = [e for e in s["lhs"]["p"] if e[0] == "f"]
                    if fe and fe[-1][4] not in ("u64", "usize", "u32", "u128"):
                        badw.append((fe[-1][2], fe[-1][4]))
        ctx.check(not badw, "R16.3", fnkey(b) + "#no-sink-state-change", loc(b), "sink body writes non-counter state %s (could disable the sink after an error)" % badw)

    # ------------------------------------------------------------------------ R16.4 tee completeness
    tees = []
    for imp in F.impls_of("EntryIoStream"):
        adt = F.adts.get((imp.get("self_head") or {}).get("adt"))
        if not adt or imp["crate"] not in WS_LIBS:
            continue
        fields = [f for v in adt["variants"] for f in v["fields"]]
        bound = [p for p in imp.get("preds", []) if p.endswith("EntryIoStream")]
        sfields = [f for f in fields if any(p.startswith(f["ty"] + ": ") for p in bound)]
        if len(sfields) >= 2:
            tees.append((imp, sfields))
    ctx.floor("R16.4", "tee-like streams (two inner EntryIoStream fields)", len(tees), 1)
    for imp, sfields in tees:
        for it in imp["items"]:
            if it["name"] not in ("next", "flush"):
                continue
            b = F.bodies.get((imp["crate"], it.get("uid") or it["def"]))
            if b is None:
                continue
            pr = Prov(b)
            for f in sfields:
                sites = [c for c in b.calls() if c.is_trait_method("EntryIoStream", it["name"]) and
                         any(o[0] == "arg" and o[1] == 1 and f["name"] in o[2] for o in pr.operand(c.args[0]))]
                ok, why = exactly_once(b, [c.bb for c in sites])
                ctx.check(ok, "R16.4", fnkey(b) + "#calls-%s" % f["name"], loc(b),
                          "tee `%s` does not call inner stream `%s` exactly once on every path (%s): one branch can miss entries after the other fails" % (it["name"], f["name"], why))
    # ------------------------------------------------------------------------ R16.5 an error never changes what happens to later entries
    # (the clause C16 shares with C01: same analysis, recorded here under its own rule id)
    import rules.c01 as c01
    from mq.report import RuleView
    before = len(ctx.instances)
    c01.run(RuleView(ctx, {"R01.3": "R16.5"}))
    ctx.floor("R16.5", "error-independence obligations on the drain loop and its consumer", len([i for i in ctx.instances[before:] if i["rule"] == "R16.5"]), 3)
    # ------------------------------------------------------------------------ R16.6 a failed write leaves nothing behind in the formatter (= R14.2 on the buffers)
    import rules.c14 as c14
    import rules.c02 as c02
    before6 = len(ctx.instances)
    c14.run(ctx, only_fields=c02.buffer_field(F), rule_prefix="R16.6")
    ctx.floor("R16.6", "output buffers checked for reset-before-use", len([i_ for i_ in ctx.instances[before6:] if i_["rule"] == "R16.6" and "clean-at-first-use" in i_["instance"]]), 5)
    return EXPL


def _returns_variant(b, start, variant):
    """all Return-reaching paths from `start` assign _0 = <variant>{..} (block-level: some block on every path)"""
    blocks = []
    for i in b.reachable(start):
        for s in b.stmts(i):
            if s["k"] == "assign" and s["lhs"]["l"] == 0 and not s["lhs"].get("p") and s["rv"]["k"] == "agg" and s["rv"].get("variant") == variant:
                blocks.append(i)
    if not blocks:
        return False
    return b.must_pass(blocks, start=start)


def _ok_return_blocks(b):
    out = []
    for i in b.live_blocks():
        for s in b.stmts(i):
            if s["k"] == "assign" and s["lhs"]["l"] == 0 and not s["lhs"].get("p") and s["rv"]["k"] == "agg" and s["rv"].get("variant") == "Ok":
                out.append(i)
    return out

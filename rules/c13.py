"""C13 — slots: wait mode never loses the value, discard mode never yields a partial one (structural clauses)."""
from mq.util import *
from mq.prov import Prov

EXPL = ("R13.1 the slot guard's destructor sends the closed value exactly once on the writable path, the sent value is "
        "CloseValue::close(value), and nothing writes or moves the field holding the parent-drop mode (whose type contains the flush "
        "guard) before the send; field drop glue, which releases the flush guard, runs after the destructor body by language rule. "
        "R13.2 Slot::close / LazySlot::close reach no await/poll/blocking receive; the value is obtained by try_recv. R13.3 open() "
        "hands out the guard only through Option::take and stores the requested mode into it on the Some path; LazySlot::open returns "
        "None when a slot already exists, before creating a new one. R13.4 type structure: the wait mode carries a FlushGuard, which "
        "carries the keep-alive Guard; SlotGuard is not Clone. R13.5 a value received from the guard's channel is "
        "stored into the slot only on paths (followed across the await points of the future) that took the receiver out of the slot or "
        "checked that no value is held: a delivered value is never replaced by the None of a spent channel. R13.6 Slot::close reads the channel "
        "only on the branch where no received value is held. Not decided: which thread drops what when.")
MQ = "metrique"
SLOT = "metrique::slot::"


def run(ctx):
    F = ctx.facts("dbg")
    # ------------------------------------------------------------------ R13.1
    # (the public type by its name: it may be defined in a private submodule behind a re-export)
    gd = [b for b in F.all_bodies(MQ) if b.impl and (b.impl.get("trait") or "").endswith("::Drop") and ((b.impl.get("self_head") or {}).get("adt") or "").endswith("::SlotGuard")]
    ctx.floor("R13.1", "slot guard destructors", len(gd), 1)
    for b in gd:
        key = fnkey(b)
        pr = Prov(b)
        is_send = lambda c: c.is_in("tokio::sync::oneshot", "Sender::send")
        sends = [c for c in b.calls() if is_send(c)]
        closes = [c for c in b.calls() if c.is_trait_method("CloseValue", "close")]
        via_helper = None
        if not sends:
            # the sending may sit in a private helper the destructor hands the slot's contents to (`open.close_and_send_back()`,
            # `Self::send_back(slot, mode)`): the helper's call stands for the send here, and the helper is judged the same way
            cand = [(c, hb) for c in b.calls() for hb in local_callee_bodies(F, c) if hb.crate == MQ and hb.kind != "Closure" and any(is_send(x) for x in hb.calls())]
            if len(cand) == 1:
                via_helper = cand[0]
                hc, hb = via_helper
                hs = [x for x in hb.calls() if is_send(x)]
                hcl = [x for x in hb.calls() if x.is_trait_method("CloseValue", "close")]
                hat, hwhy = at_most_once(hb, [x.bb for x in hs])
                hpr = Prov(hb)
                # the helper may be handed an already emptied slot (its `else` arm does nothing): what matters is that a writable one is sent
                ctx.check(hat and all(any(("call", x.bb) in hpr.operand(s_.args[1]) for x in hcl) for s_ in hs), "R13.1", key + "#send-once", loc(hb),
                          "the helper the destructor hands the slot to does not send the closed value at most once (%s)" % hwhy, "send inside %s" % hb.name)
                # inside the helper the send may be skipped only because the slot it was handed is not a writable one (a branch on the
                # variant of its own parameter) or the receiver is gone; any other way around the send loses the value
                skip_ok = set()
                for i_ in hb.live_blocks():
                    t_ = hb.term(i_)
                    if t_["k"] != "switch":
                        continue
                    on_param = any(st_["k"] == "assign" and st_["rv"]["k"] == "discr" and any(x[0] == "arg" for x in hpr.local(st_["rv"]["place"]["l"])) for st_ in hb.stmts(i_))
                    closed = any(x[0] == "call" and (hb.term(x[1]).get("callee") or {}).get("name") == "is_closed" for x in hpr.operand(t_["discr"]))
                    if on_param or closed:
                        for y in hb.succ(i_):
                            if not any(x.bb in hb.reachable(y) for x in hs):
                                skip_ok.add((i_, y))
                seen_, st2_ = {0}, [0]
                while st2_:
                    x_ = st2_.pop()
                    if x_ in [x.bb for x in hs]:
                        continue
                    for y in hb.succ(x_):
                        if y not in seen_ and (x_, y) not in skip_ok and not hb.is_cleanup(y):
                            seen_.add(y)
                            st2_.append(y)
                ctx.check(not (seen_ & set(hb.return_blocks())), "R13.1", key + "#send-on-every-return", loc(hb),
                          "the helper the destructor hands the slot to can return without sending the value of a writable slot", "every path of %s sends" % hb.name)
                sends = [hc]
        at, why = at_most_once(b, [c.bb for c in sends])
        ctx.check(bool(sends) and at, "R13.1", key + "#send-once", loc(b), "the closed slot value is not sent exactly once (%d send sites; %s)" % (len(sends), why))
        # every normal Return passes the send (the other arm is unreachable!())
        closed_t = []
        for c in b.calls():
            if c.is_in("tokio::sync::oneshot", "Sender::is_closed"):
                for sw, tg, oth in switch_on_call_result(b, c):
                    closed_t.append(oth)     # receiver already gone: nothing to send to
        ctx.check(b.must_pass([c.bb for c in sends] + closed_t), "R13.1", key + "#send-on-every-return", loc(b), "the destructor can return without sending the slot value")
        for s in sends if via_helper is None else []:
            o = pr.operand(s.args[1])
            ctx.check(any(("call", c.bb) in o for c in closes), "R13.1", key + "#sends-closed-value", loc(b, s.bb), "the value sent to the parent is not CloseValue::close(value)")
        # the mode field is untouched before the send
        adt = F.adts.get((b.impl.get("self_head") or {}).get("adt"))
        mode_fields = [f["name"] for v in adt["variants"] for f in v["fields"] if "OnParentDrop" in f["ty"] or "FlushGuard" in f["ty"]] if adt else []
        ctx.check(bool(mode_fields), "R13.1", key + "#mode-field", loc(b), "cannot find the field holding the parent-drop mode")
        touched = []
        for i in b.live_blocks():
            if any(i in b.reachable_after(s.bb) for s in sends) and not any(s.bb in b.reachable_after(i) for s in sends):
                continue
            for st in b.stmts(i):
                if st["k"] != "assign":
                    continue
                pls = [st["lhs"]]
                rv = st["rv"]
                if rv["k"] in ("ref",) and rv.get("mut"):
                    pls.append(rv["place"])
                if rv["k"] == "use" and "move" in rv["op"]:
                    pls.append(rv["op"]["move"])
                for p in pls:
                    if any(e[0] == "f" and e[2] in mode_fields for e in p.get("p", [])):
                        touched.append(i)
        pre = [i for i in touched if any(s.bb in b.reachable(i) for s in sends)]
        if via_helper is not None and pre:
            # the mode (and the flush guard in it) handed to the sending helper as an argument: it must outlive the send there
            hc, hb = via_helper
            mode_args = [ai for ai, a in enumerate(hc.args) if op_local(a) is not None and ("OnParentDrop" in b.local_ty(op_local(a)) or "FlushGuard" in b.local_ty(op_local(a)))]
            if mode_args:
                hs = [x.bb for x in hb.calls() if is_send(x)]
                early = []
                for ai in mode_args:
                    pl = ai + 1
                    for i in hb.live_blocks():
                        t = hb.term(i)
                        dropped = (t["k"] == "drop" and t["place"]["l"] == pl) or (t["k"] == "call" and (t.get("callee") or {}).get("def") == "core::mem::drop" and
                                                                                  any(any(x[0] == "arg" and x[1] == pl for x in Prov(hb).operand(a)) for a in t["args"]))
                        if dropped and any(sb_ in hb.reachable_after(i) for sb_ in hs):
                            early.append(i)
                if not early:
                    pre = []
        ctx.check(not pre, "R13.1", key + "#mode-untouched-before-send", loc(b, pre[0] if pre else None),
                  "the field holding the flush guard is written / moved out before the value is sent: the parent entry can be flushed before the slot value arrives")
    # ------------------------------------------------------------------ R13.2
    closes = [b for b in F.all_bodies(MQ) if b.name == "close" and b.impl and (b.impl.get("trait") or "").endswith("CloseValue") and "slot::" in b.path]
    ctx.floor("R13.2", "slot close implementations", len(closes), 2)
    waits = lambda c: c.is_trait_method("Future", "poll") or c.is_trait_method("IntoFuture", "into_future") or c.name in ("blocking_recv", "recv", "block_on", "wait_for_value", "wait_for_data") or c.is_in("std::thread", "park", "sleep")
    for b in closes:
        w = reaches_call(F, b, waits, depth=4)
        ctx.check(not w, "R13.2", fnkey(b) + "#never-waits", loc(b), "closing a slot can wait for the guard (%s): the parent entry's flush would block" % (w[0][1].def_ if w else ""))
    slot_close = [b for b in closes if "slot::Slot<" in b.path]
    for b in slot_close:
        tr = reaches_call(F, b, lambda c: c.name == "try_recv" and "oneshot" in c.def_, depth=3)
        ctx.check(bool(tr), "R13.2", fnkey(b) + "#uses-try_recv", loc(b), "the slot value is not obtained with the non-blocking try_recv")
    # ------------------------------------------------------------------ R13.3
    opens = [b for b in F.all_bodies(MQ) if b.name == "open" and b.path.startswith(SLOT)]
    ctx.floor("R13.3", "open implementations", len(opens), 2)
    for b in opens:
        pr = Prov(b, adapter_pred=lambda t: (t.get("callee") or {}).get("name") in ("as_mut", "expect", "unwrap", "branch"))
        key = fnkey(b)
        mode_p = [i for i in range(1, b.arg_count + 1) if "OnParentDrop" in b.locals[i]["ty"]]
        ctx.check(len(mode_p) == 1, "R13.3", key + "#has-mode-parameter", loc(b), "open has no mode parameter")
        if not mode_p:
            continue
        mp = mode_p[0]
        if "LazySlot" in b.path:
            # is_some() => return None, dominating Slot::new; mode forwarded to Slot::open
            iss = [c for c in b.calls() if c.name == "is_some"]
            news = [c for c in b.calls() if c.name.startswith("new") and "Slot" in c.def_]
            inner = [c for c in b.calls() if c.name == "open" and "Slot" in c.def_]
            ok = False
            for c in iss:
                for sw, tg, oth in switch_on_call_result(b, c):
                    true_t = oth
                    reach = b.reachable(true_t)
                    ok = ok or (not any(n.bb in reach for n in news) and all(dominates(b, c.bb, n.bb) for n in news))
            # the same test written as a match on the stored slot: the occupied side creates nothing
            for i_ in b.live_blocks():
                t_ = b.term(i_)
                if t_["k"] != "switch":
                    continue
                for s_ in b.stmts(i_):
                    if s_["k"] == "assign" and s_["rv"]["k"] == "discr" and s_["rv"]["place"]["l"] == 1 and any(e_[0] == "f" for e_ in s_["rv"]["place"].get("p", [])):
                        vm = {n_: d_ for d_, n_ in s_["rv"].get("variants", [])}
                        tg_ = {v_: tb_ for v_, tb_ in t_["targets"]}
                        some_t = tg_.get(vm.get("Some"), t_["otherwise"])
                        if "Some" in vm:
                            ok = ok or (not any(n.bb in b.reachable(some_t) for n in news) and all(dominates(b, i_, n.bb) for n in news))
            ctx.check(ok and bool(news), "R13.3", key + "#single-open", loc(b), "a lazily created slot can be opened (re-created) although one already exists")
            def _mode_reaches_guard(hb, pidx, depth=2):
                """parameter pidx of hb ends up in a field of type OnParentDrop (the guard's mode), directly or through one more private fn"""
                hpr = Prov(hb)
                for i_ in hb.live_blocks():
                    for s_ in hb.stmts(i_):
                        if s_["k"] != "assign":
                            continue
                        if s_["rv"]["k"] == "agg" and s_["rv"].get("fields"):
                            a_ = F.adts.get(s_["rv"].get("adt") or "")
                            ftys = {f_["name"]: f_["ty"] for v_ in (a_ or {}).get("variants", []) for f_ in v_["fields"]}
                            for fn_, op_ in zip(s_["rv"]["fields"], s_["rv"]["ops"]):
                                if "OnParentDrop" in ftys.get(fn_, "") and any(x[0] == "arg" and x[1] == pidx for x in hpr.operand(op_)):
                                    return True
                        if any(e[0] == "f" and len(e) > 4 and "OnParentDrop" in e[4] for e in s_["lhs"].get("p", [])) and s_["rv"]["k"] == "use" and \
                                any(x[0] == "arg" and x[1] == pidx for x in hpr.operand(s_["rv"]["op"])):
                            return True
                if depth > 0:
                    for c_ in hb.calls():
                        for ai_, a_ in enumerate(c_.args):
                            if any(x[0] == "arg" and x[1] == pidx and not x[2] for x in hpr.operand(a_)):
                                for h2 in local_callee_bodies(F, c_):
                                    if h2.crate == MQ and h2.kind != "Closure" and len(c_.args) == h2.arg_count and _mode_reaches_guard(h2, ai_ + 1, depth - 1):
                                        return True
                return False
            # ... or the slot is created already opened: the creating call receives the mode and puts it into the guard
            created_open = [c for c in news for ai_, a_ in enumerate(c.args) if any(x[0] == "arg" and x[1] == mp for x in pr.operand(a_))
                            and any(len(c.args) == hb.arg_count and _mode_reaches_guard(hb, ai_ + 1) for hb in local_callee_bodies(F, c) if hb.crate == MQ)]
            ctx.check((len(inner) == 1 and any(x[0] == "arg" and x[1] == mp for x in pr.operand(inner[0].args[-1]))) or (not inner and len(created_open) == 1), "R13.3", key + "#mode-forwarded", loc(b),
                      "the requested parent-drop mode is not forwarded to Slot::open (the guard silently falls back to discard)")
            continue
        takes = [c for c in b.calls() if c.is_("core::option::Option::<T>::take")]
        ro = pr.local(0)
        # `self.tx.take()` handed out as it is, or re-wrapped (`let g = self.tx.take()?; ...; Some(g)`): every Some built here must
        # wrap what the take produced and nothing made on the spot
        rewrap_ok = True
        for i_ in b.live_blocks():
            for s_ in b.stmts(i_):
                if s_["k"] == "assign" and s_["rv"]["k"] == "agg" and s_["rv"].get("variant") == "Some" and s_["rv"].get("adt", "").endswith("option::Option"):
                    po = set().union(*[pr.operand(o_) for o_ in s_["rv"]["ops"]]) if s_["rv"]["ops"] else set()
                    if not takes or ("call", takes[0].bb) not in po or any(x[0] == "agg" or (x[0] == "call" and x[1] != takes[0].bb) for x in po):
                        rewrap_ok = False
        ctx.check(len(takes) == 1 and ("call", takes[0].bb) in ro and rewrap_ok, "R13.3", key + "#guard-only-from-take", loc(b),
                  "the slot guard handed out does not come (only) from Option::take of the stored guard: a slot could be opened twice")
        # mode stored into the guard on the Some path
        stored = []
        for i in b.live_blocks():
            for s in b.stmts(i):
                # the guard's field holding the mode, recognised by its type (OnParentDrop), whatever its name
                if s["k"] == "assign" and any(e[0] == "f" and len(e) > 4 and "OnParentDrop" in e[4] for e in s["lhs"].get("p", [])):
                    o = pr.rvalue(s["rv"], (), set(), i)
                    if any(x[0] == "arg" and x[1] == mp for x in o):
                        stored.append(i)
        ctx.check(bool(stored), "R13.3", key + "#mode-stored-in-guard", loc(b), "the requested parent-drop mode is not stored into the guard")
    # ------------------------------------------------------------------ R13.4
    # public types of the crate, found by name wherever their defining module is (a move behind a re-export keeps the public path)
    def mq_adt(name):
        c_ = [a for d, a in F.adts.items() if a["crate"] == MQ and d.endswith("::" + name)]
        return c_[0] if len(c_) == 1 else None
    opd = mq_adt("OnParentDrop")
    fg = mq_adt("FlushGuard")
    ok1 = opd and any(v["name"] == "Wait" and any("FlushGuard" in f["ty"] for f in v["fields"]) for v in opd["variants"])
    from rules.c06 import keepalive_roles
    ok2 = fg and any(f["ty"] in keepalive_roles(F)["guard"] for v in fg["variants"] for f in v["fields"])
    ctx.check(bool(ok1), "R13.4", SLOT + "OnParentDrop#wait-carries-flush-guard", "", "OnParentDrop::Wait no longer owns a FlushGuard")
    ctx.check(bool(ok2), "R13.4", SLOT + "FlushGuard#carries-keep-alive-guard", "", "FlushGuard no longer owns the keep-alive Guard")
    for nm in ("SlotGuard", "FlushGuard", "ForceFlushGuard"):
        cl = [i for i in F.impls_of("core::clone::Clone") if i["crate"] == MQ and (i.get("self_head") or {}).get("adt", "").endswith("::" + nm)]
        ctx.check(not cl, "R13.4", SLOT + nm + "#not-Clone", "", "%s implements Clone" % nm)
    # ------------------------------------------------------------------ R13.5 a received value is stored once per receiver
    slot_adt = mq_adt("Slot")
    data_f = [f["name"] for v in (slot_adt or {}).get("variants", []) for f in v["fields"] if f["ty"].startswith("core::option::Option<<") and "Closed" in f["ty"]]
    # the receiver field, by what it holds: the oneshot receiver itself, or a private wrapper struct around one
    def _holds_receiver(ty):
        if "oneshot::Receiver<" in ty:
            return True
        return any(a["crate"] == MQ and (a["def"] + "<") in ty and any("oneshot::Receiver<" in f_["ty"] for v_ in a["variants"] for f_ in v_["fields"])
                   for a in F.adts.values())
    rx_f = [f["name"] for v in (slot_adt or {}).get("variants", []) for f in v["fields"] if _holds_receiver(f["ty"])]
    ctx.check(len(data_f) == 1 and len(rx_f) == 1, "R13.5", SLOT + "Slot#fields", "", "cannot identify the received-value field / the receiver field of Slot (%s / %s)" % (data_f, rx_f),
              "received value: .%s, receiver: .%s" % (data_f, rx_f))
    n5 = 0
    spent_receiver_possible = []      # bodies that can store a received value while leaving the (then spent) receiver in the slot
    if len(data_f) == 1 and len(rx_f) == 1:
        df, rf = data_f[0], rx_f[0]
        for b in F.all_bodies(MQ):
            if not b.def_.startswith(SLOT):
                continue
            stores = [i for i in b.live_blocks() for st in b.stmts(i) if st["k"] == "assign" and st["lhs"].get("p") and st["lhs"]["p"][-1][0] == "f"
                      and st["lhs"]["p"][-1][2] == df and st["lhs"]["p"][-1][3].endswith("slot::Slot")]
            if not stores:
                continue
            succ = logical_succ(b)
            # accepted idioms that make the store happen at most once per receiver
            consume = set()
            for c in b.calls():
                if (c.is_in("core::option", "Option::take") or c.is_("core::mem::take", "core::mem::replace")) and c.args:
                    pl = single_place(b, c.args[0])
                    if pl is not None and pl.get("p") and pl["p"][-1][0] == "f" and pl["p"][-1][2] == rf and pl["p"][-1][3].endswith("slot::Slot"):
                        consume.add(c.bb)
            none_edges = set()
            for c in b.calls():
                if c.is_in("core::option", "Option::is_none", "Option::is_some") and c.args:
                    pl = single_place(b, c.args[0])
                    if pl is not None and pl.get("p") and pl["p"][-1][0] == "f" and pl["p"][-1][2] == df:
                        for sw, tg, oth in switch_on_call_result(b, c):
                            t_true = tg.get(1, oth if 0 in tg else None)
                            t_false = tg.get(0)
                            tt = t_true if c.name == "is_none" else t_false
                            if tt is not None:
                                none_edges.add((sw, tt))
            for sbb in stores:
                n5 += 1
                # T: reached only through a take of the receiver (then `receiver present` implies `nothing received yet`)
                seen_t, stk_t = {0}, [0]
                while stk_t:
                    x = stk_t.pop()
                    for y in succ(x):
                        if y in seen_t or x in consume:
                            continue
                        seen_t.add(y)
                        stk_t.append(y)
                if sbb in seen_t and 0 not in consume:
                    spent_receiver_possible.append(fnkey(b))
                seen, stk = {0}, [0]
                while stk:
                    x = stk.pop()
                    for y in succ(x):
                        if y in seen or x in consume or (x, y) in none_edges:
                            continue
                        seen.add(y)
                        stk.append(y)
                ctx.check(sbb not in seen or 0 in consume, "R13.5", fnkey(b) + "#value-stored-once-per-receiver", loc(b, sbb),
                          "the slot's received value (.%s) is overwritten from the channel on a path that neither took the receiver (.%s) out of the "
                          "slot nor checked that no value is held yet: waiting a second time would replace a delivered value by the `None` of an "
                          "already consumed channel, and the entry is emitted without it" % (df, rf),
                          "every path to the store consumes the receiver (bb%s) or checks the value is absent" % sorted(consume))
    ctx.floor("R13.5", "stores of a received slot value", n5, 1)
    # ------------------------------------------------------------------ R13.6 at close, a value already held wins over the channel
    # close() may look into the channel only on the branch where no received value is held: a receiver left in place after a completed
    # wait is spent, and asking it again yields None
    n6 = 0
    if len(data_f) == 1:
        df = data_f[0]
        for b in closes:
            if "slot::Slot<" not in ((b.impl or {}).get("self_ty") or "") and not ((b.impl or {}).get("self_ty") or "").endswith("slot::Slot"):
                continue
            pr = Prov(b)
            dom = b.dominators()
            recvs = [c for c in b.calls() if c.name == "try_recv" or any(sb.crate == MQ and any(x.name == "try_recv" for x in sb.calls()) for sb in local_callee_bodies(F, c))]
            none_edges = []
            for i in b.live_blocks():
                t = b.term(i)
                if t["k"] != "switch":
                    continue
                for s_ in b.stmts(i):
                    if s_["k"] == "assign" and s_["rv"]["k"] == "discr":
                        o = pr.place(s_["rv"]["place"])
                        if any(x[0] == "arg" and x[1] == 1 and x[2] and x[2][0] == df for x in o):
                            tg = {v: tb for v, tb in t["targets"]}
                            none_edges.append(t["otherwise"] if 1 in tg else tg.get(0))
            for c in recvs:
                n6 += 1
                ok = any(nt is not None and (nt == c.bb or dominates(b, nt, c.bb, dom)) for nt in none_edges) or not spent_receiver_possible
                ctx.check(ok, "R13.6", fnkey(b) + "#channel-consulted-only-without-held-value", loc(b, c.bb),
                          "closing a slot asks the channel for the value on a path that has not established that no received value is held: after a "
                          "completed wait the receiver is spent, so the value that was delivered in time is reported as absent",
                          "the receive is dominated by the `no value held` branch" if spent_receiver_possible else
                          "a receiver is present only while nothing was received (every store of a received value takes the receiver out)")
    ctx.floor("R13.6", "channel reads in Slot::close", n6, 1)
    # compile-fail witnesses (type-level part of the property), discharged by rustc's type checker
    from mq import witness as _w
    _w.report_cf(ctx, "W13", _w.run_witness(), "C13")
    return EXPL


def single_place(b, op, hops=4):
    """the place a reference operand was taken from (through copies / reborrows)"""
    l = op_local(op)
    while l is not None and hops > 0:
        dd = [d for d in b.defs().get(l, []) if not b.is_cleanup(d[1])]
        if len(dd) != 1 or dd[0][0] != "assign":
            return None
        rv = dd[0][3]["rv"]
        if rv["k"] == "ref":
            pl = rv["place"]
            if pl.get("p") and pl["p"][-1][0] == "f":
                return pl
            if [e[0] for e in pl.get("p", [])] == ["deref"]:
                l = pl["l"]
            else:
                return pl
        elif rv["k"] == "use":
            l = op_local(rv["op"])
        else:
            return None
        hops -= 1
    return None


def logical_succ(b):
    """successor function; for a coroutine body the resume dispatch is replaced by the edges yield(state k) -> resume block of k, so that
    paths describe the life of one future instead of one poll"""
    t0 = b.term(0)
    is_co = t0["k"] == "switch" and t0.get("ty") == "u32" and any(st["k"] == "assign" and st["rv"]["k"] == "discr" for st in b.stmts(0)) and b.kind == "Closure"
    if not is_co:
        return b.succ
    resume = {v: tb for v, tb in t0["targets"]}
    yields = {}
    for i in b.live_blocks():
        if b.term(i)["k"] != "return":
            continue
        for st in b.stmts(i):
            if st["k"] == "setdiscr":
                try:
                    k = int(st["variant"])
                except ValueError:
                    continue
                if k >= 3 and k in resume:
                    yields[i] = resume[k]

    def succ(x):
        if x == 0:
            return [resume[0]] if 0 in resume else b.succ(0)
        if x in yields:
            return [yields[x]]
        return b.succ(x)
    return succ

"""C07 — #[metrics] naming: the type-level machinery only (NameStyle table, const-string concatenation)."""
import re
from mq.util import *
from mq.prov import Prov
from mq import witness

EXPL = ("R07.1 the four NameStyle implementations are read as definitions generic in PREFIX: each selects the GAT parameter that "
        "matches its own style (ID/PASCAL/SNAKE/KEBAB, taken from the trait declaration), threads PREFIX in front "
        "(Concatenated<PREFIX, X>), switches styles without losing the prefix, and appends prefixes in order "
        "(S<Concatenated<PREFIX, P>>): 24 associated-type obligations that hold for every prefix chain. R07.3 the concatenation "
        "table: in the MIR of Concatenated::MAYBE_VAL every switch arm k evaluates ConcatenatedLen<S,T,k> with the same k, arms are "
        "contiguous from 0 to M, HAVE_VAL's bound equals M, LEN = S::LEN + T::LEN, extend is S then T, const_str_value reads MAYBE_VAL "
        "only under HAVE_VAL. W07 for every total length 0..=100 (several splits), beyond the threshold and for nested chains the "
        "compiler's constant evaluator confirms MAYBE_VAL / HAVE_VAL / LEN against literal expectations. Not decided (and not papered "
        "over): the proc macro's string-level naming functions (metric_name, prefix inflection, override precedence) over all type "
        "shapes: deciding them needs running the macro on a corpus, which is a test, not static analysis.")
CORE = "metrique_core"
STYLE_PARAM = {"Identity": "ID", "PascalCase": "PASCAL", "SnakeCase": "SNAKE", "KebabCase": "KEBAB"}


def norm(t):
    return re.sub(r"\s+", "", t)


def run(ctx):
    F = ctx.facts("dbg")
    # ------------------------------------------------------------------ R07.1
    tr = [t for d, t in F.traits.items() if d.endswith("namestyle::NameStyle")]
    ctx.floor("R07.1", "NameStyle trait", len(tr), 1)
    gat = {}
    if tr:
        for it in tr[0]["items"]:
            gat[it["name"]] = it.get("own_generics", [])
        ctx.check(gat.get("Inflect") == gat.get("InflectAffix") and len(gat.get("Inflect", [])) == 4, "R07.1", "NameStyle#gat-parameters", "",
                  "Inflect / InflectAffix no longer take the four pre-inflected names (%s / %s)" % (gat.get("Inflect"), gat.get("InflectAffix")))
        ctx.check(sorted(p.upper() for p in gat.get("Inflect", [])) == sorted(STYLE_PARAM.values()), "R07.1", "NameStyle#gat-parameter-names", "",
                  "GAT parameter names %s do not identify the four styles" % gat.get("Inflect"))
    impls = [i for i in F.impls_of("NameStyle") if i["crate"] == CORE and i["span"]["file"].endswith("namestyle.rs")]
    ctx.floor("R07.1", "NameStyle implementations", len(impls), 4)
    NS = "metrique_core::namestyle::"
    CC = "metrique_core::concat::Concatenated"
    nob = 0
    for imp in impls:
        st = imp["self_ty"]
        m = re.match(r"metrique_core::namestyle::(\w+)<(\w+)>$", st)
        if not m:
            ctx.bad("R07.1", st + "#shape", "", "unexpected implementor shape %s" % st)
            continue
        style, pre = m.group(1), m.group(2)
        if style not in STYLE_PARAM:
            continue
        items = {it["name"]: it for it in imp["items"] if it["kind"] == "type"}
        # the GAT parameter of this style, by position in the impl's own parameter list (names may be chosen freely per impl)
        own = items.get("Inflect", {}).get("own_generics", [])
        pos = [p.upper() for p in gat.get("Inflect", [])].index(STYLE_PARAM[style]) if gat.get("Inflect") else None
        mine = own[pos] if pos is not None and pos < len(own) else None
        ownA = items.get("InflectAffix", {}).get("own_generics", [])
        mineA = ownA[pos] if pos is not None and pos < len(ownA) else None
        p_app = (items.get("AppendPrefix", {}).get("own_generics") or ["?"])[0]
        expect = {
            "KebabCase": NS + "KebabCase<%s>" % pre,
            "PascalCase": NS + "PascalCase<%s>" % pre,
            "SnakeCase": NS + "SnakeCase<%s>" % pre,
            "AppendPrefix": NS + "%s<%s<%s, %s>>" % (style, CC, pre, p_app),
            "Inflect": "%s<%s, %s>" % (CC, pre, mine),
            "InflectAffix": "%s" % mineA,
        }
        for name, want in expect.items():
            nob += 1
            got = items.get(name, {}).get("ty")
            ctx.check(got is not None and norm(got) == norm(want), "R07.1", "%s::%s" % (NS + style, name), "%s:%s" % (imp["span"]["file"], imp["span"]["line"]),
                      "associated type %s of name style %s is `%s`, expected `%s`: names would be inflected in the wrong style / lose or reorder their prefix" % (name, style, got, want),
                      "= %s" % want)
    ctx.floor("R07.1", "associated-type obligations", nob, 24)
    # ------------------------------------------------------------------ R07.3
    mv = [b for b in F.all_bodies(CORE) if b.kind == "AssocConst" and b.name == "MAYBE_VAL" and ((b.impl or {}).get("self_ty") or "").startswith("metrique_core::concat::Concatenated<")]
    ctx.floor("R07.3", "Concatenated::MAYBE_VAL", len(mv), 1)
    M = None
    for b in mv:
        sw = [i for i in b.live_blocks() if b.term(i)["k"] == "switch" and len(b.term(i)["targets"]) > 10]
        ctx.check(len(sw) == 1, "R07.3", fnkey(b) + "#length-switch", loc(b), "expected one switch over the total length")
        if len(sw) != 1:
            continue
        t = b.term(sw[0])
        # the switch operand is S::MAYBE_VAL.len() + T::MAYBE_VAL.len()
        o = Prov(b).operand(t["discr"])
        lens = [x for x in o if x[0] == "call" and b.term(x[1])["callee"]["name"] == "len"]
        ctx.check(len(lens) == 2 and ("op", "AddWithOverflow") in o or ("op", "Add") in o, "R07.3", fnkey(b) + "#switch-on-total-length", loc(b), "the table is not indexed by len(S) + len(T)")
        vals = sorted(v for v, _ in t["targets"])
        M = vals[-1] if vals else None
        ctx.check(vals == list(range(0, (M or 0) + 1)), "R07.3", fnkey(b) + "#arms-contiguous", loc(b), "table arms are not contiguous from 0: %s" % [v for v in range(0, (M or 0) + 1) if v not in vals][:5])
        bad = []
        for v, tb in t["targets"]:
            k = None
            for s in b.stmts(tb):
                if s["k"] == "assign" and s["lhs"]["l"] == 0 and s["rv"]["k"] == "use":
                    c = op_const(s["rv"]["op"]) or {}
                    a = (c.get("uneval_args") or [""])[0]
                    mm = re.search(r"ConcatenatedLen<\s*S\s*,\s*T\s*,\s*(\d+)\s*>", a)
                    if c.get("uneval", "").endswith("MAYBE_VAL") and mm:
                        k = int(mm.group(1))
            if k != v:
                bad.append((v, k))
        ctx.check(not bad, "R07.3", fnkey(b) + "#arm-k-uses-length-k", loc(b),
                  "table arm(s) %s evaluate the concatenation buffer of a different length: names of exactly that length come out as NUL bytes / empty" % bad[:4],
                  "%d arms, arm k -> ConcatenatedLen<S,T,k>" % len(vals))
        # otherwise arm = ""
        ob = t["otherwise"]
        oc = [op_const(s["rv"]["op"]) for s in b.stmts(ob) if s["k"] == "assign" and s["lhs"]["l"] == 0 and s["rv"]["k"] == "use"]
        ctx.check(any((c or {}).get("str") == "" for c in oc), "R07.3", fnkey(b) + "#fallback-empty", loc(b), "the out-of-table arm is not the empty string")
    hv = [b for b in F.all_bodies(CORE) if b.kind == "AssocConst" and b.name == "HAVE_VAL" and ((b.impl or {}).get("self_ty") or "").startswith("metrique_core::concat::Concatenated<")]
    for b in hv:
        bound = None
        for i in b.live_blocks():
            for s in b.stmts(i):
                if s["k"] == "assign" and s["rv"]["k"] == "binop" and s["rv"]["op"] in ("Le", "Lt"):
                    c = op_const(s["rv"]["b"]) or {}
                    if "int" in c:
                        bound = c["int"] if s["rv"]["op"] == "Le" else c["int"] - 1
        ctx.check(bound is not None and bound == M, "R07.3", fnkey(b) + "#threshold-equals-table-size", loc(b),
                  "HAVE_VAL admits total lengths up to %s but the table has arms up to %s: longer names would silently become empty" % (bound, M))
        o = set()
        for i in b.live_blocks():
            for s in b.stmts(i):
                if s["k"] == "assign":
                    for op in ([s["rv"].get("op")] if s["rv"]["k"] == "use" else [s["rv"].get("a"), s["rv"].get("b")] if s["rv"]["k"] == "binop" else []):
                        c = op_const(op or {}) or {}
                        if c.get("uneval"):
                            o.add((c["uneval"].rsplit("::", 1)[-1], tuple(c.get("uneval_args", []))))
        ctx.check({("HAVE_VAL", ("S",)), ("HAVE_VAL", ("T",)), ("LEN", ("S",)), ("LEN", ("T",))} <= o, "R07.3", fnkey(b) + "#requires-both-parts", loc(b), "HAVE_VAL does not require both parts to have a value and bound their total length: %s" % sorted(o))
    ln = [b for b in F.all_bodies(CORE) if b.kind == "AssocConst" and b.name == "LEN" and ((b.impl or {}).get("self_ty") or "").startswith("metrique_core::concat::Concatenated<")]
    for b in ln:
        txt = str(b.blocks)
        ctx.check("'S'" in txt and "'T'" in txt and "Add" in txt, "R07.3", fnkey(b) + "#len-is-sum", loc(b), "LEN is not S::LEN + T::LEN")
    ex = [b for b in F.all_bodies(CORE) if b.name == "extend" and ((b.impl or {}).get("self_ty") or "").startswith("metrique_core::concat::Concatenated<")]
    for b in ex:
        cs = [c for c in b.calls() if c.name == "extend"]
        order = [c.self_ty for c in sorted(cs, key=lambda c: len(b.dominators().get(c.bb, ())))]
        ctx.check(order == ["S", "T"], "R07.3", fnkey(b) + "#extend-order", loc(b), "heap fallback concatenates in order %s (expected S then T)" % order)
    cv = [b for b in F.all_bodies(CORE) if b.name == "const_str_value"]
    for b in cv:
        dom = b.dominators()
        use_bb = [i for i in b.live_blocks() for s in b.stmts(i) if s["k"] == "assign" and s["rv"]["k"] == "use" and (op_const(s["rv"]["op"]) or {}).get("uneval", "").endswith("MAYBE_VAL")]
        okh = False
        for i in b.live_blocks():
            t = b.term(i)
            if t["k"] == "switch":
                for s in b.stmts(i):
                    if s["k"] == "assign" and s["rv"]["k"] == "use" and (op_const(s["rv"]["op"]) or {}).get("uneval", "").endswith("HAVE_VAL"):
                        true_t = t["otherwise"]
                        okh = bool(use_bb) and all(dominates(b, true_t, u, dom) for u in use_bb)
        ctx.check(okh, "R07.3", fnkey(b) + "#const-value-only-under-have-val", loc(b), "const_str_value reads MAYBE_VAL without HAVE_VAL being true")
    # ------------------------------------------------------------------ W07
    res = witness.run_witness()
    witness.report_group(ctx, "W07", res, "concat", "concatenation obligations (every total length 0..=100, beyond threshold, nested)")
    return EXPL

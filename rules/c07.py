"""C07 — #[metrics] naming: the type-level machinery only (NameStyle table, const-string concatenation)."""
import re
from mq.util import *
from mq.prov import Prov
from mq.facts import strip_generics
from mq import witness

EXPL = ("R07.1 the four NameStyle implementations are read as definitions generic in PREFIX: each selects the GAT parameter that "
        "matches its own style (ID/PASCAL/SNAKE/KEBAB, taken from the trait declaration), threads PREFIX in front "
        "(Concatenated<PREFIX, X>), switches styles without losing the prefix, and appends prefixes in order "
        "(S<Concatenated<PREFIX, P>>): 24 associated-type obligations that hold for every prefix chain. R07.3 the concatenation "
        "table: in the MIR of Concatenated::MAYBE_VAL every switch arm k evaluates ConcatenatedLen<S,T,k> with the same k, arms are "
        "contiguous from 0 to M, HAVE_VAL's bound equals M, LEN = S::LEN + T::LEN, extend is S then T, const_str_value reads MAYBE_VAL "
        "only under HAVE_VAL. W07 for every total length 0..=100 (several splits), beyond the threshold and for nested chains the "
        "compiler's constant evaluator confirms MAYBE_VAL / HAVE_VAL / LEN against literal expectations. R07.5 every per-style name closure of the macro is style-uniform (no branch on the style it is "
        "asked for); R07.2 (on the proc macro's own "
        "MIR) the generator pairs each style's identifier with the name computed for the same style and interpolates the four "
        "identifiers in the order of the trait's GAT parameters; R07.6 the macro's name functions return an un-prefixed name only on paths selected by the item itself (explicit / exact name), never by the container attributes; R07.4 the macro's style table: each NameStyle arm calls the matching "
        "inflector function, snake/kebab prefixes get their separator, an explicit `name` wins over inflection. Not decided (and not "
        "papered over): the string results of Inflector and the composition of prefixes over all type shapes - deciding them needs "
        "running the macro on a corpus, which is a test, not static analysis.")
CORE = "metrique_core"
STYLE_PARAM = {"Identity": "ID", "PascalCase": "PASCAL", "SnakeCase": "SNAKE", "KebabCase": "KEBAB"}


def norm(t):
    return re.sub(r"\s+", "", t)


def run(ctx):
    F = ctx.facts("dbg")
    # ------------------------------------------------------------------ R07.1
    tr = [t for d, t in F.traits.items() if d.endswith("namestyle::NameStyle")]
    ctx.floor("R07.1", "NameStyle trait", len(tr), 1)
    gat = {}
    if tr:
        for it in tr[0]["items"]:
            gat[it["name"]] = it.get("own_generics", [])
        ctx.check(gat.get("Inflect") == gat.get("InflectAffix") and len(gat.get("Inflect", [])) == 4, "R07.1", "NameStyle#gat-parameters", "",
                  "Inflect / InflectAffix no longer take the four pre-inflected names (%s / %s)" % (gat.get("Inflect"), gat.get("InflectAffix")))
        ctx.check(sorted(p.upper() for p in gat.get("Inflect", [])) == sorted(STYLE_PARAM.values()), "R07.1", "NameStyle#gat-parameter-names", "",
                  "GAT parameter names %s do not identify the four styles" % gat.get("Inflect"))
    impls = [i for i in F.impls_of("NameStyle") if i["crate"] == CORE and i["span"]["file"].endswith("namestyle.rs")]
    ctx.floor("R07.1", "NameStyle implementations", len(impls), 4)
    NS = "metrique_core::namestyle::"
    CC = "metrique_core::concat::Concatenated"
    nob = 0
    for imp in impls:
        st = imp["self_ty"]
        m = re.match(r"metrique_core::namestyle::(\w+)<(\w+)>$", st)
        if not m:
            ctx.bad("R07.1", st + "#shape", "", "unexpected implementor shape %s" % st)
            continue
        style, pre = m.group(1), m.group(2)
        if style not in STYLE_PARAM:
            continue
        items = {it["name"]: it for it in imp["items"] if it["kind"] == "type"}
        # the GAT parameter of this style, by position in the impl's own parameter list (names may be chosen freely per impl)
        own = items.get("Inflect", {}).get("own_generics", [])
        pos = [p.upper() for p in gat.get("Inflect", [])].index(STYLE_PARAM[style]) if gat.get("Inflect") else None
        mine = own[pos] if pos is not None and pos < len(own) else None
        ownA = items.get("InflectAffix", {}).get("own_generics", [])
        mineA = ownA[pos] if pos is not None and pos < len(ownA) else None
        p_app = (items.get("AppendPrefix", {}).get("own_generics") or ["?"])[0]
        expect = {
            "KebabCase": NS + "KebabCase<%s>" % pre,
            "PascalCase": NS + "PascalCase<%s>" % pre,
            "SnakeCase": NS + "SnakeCase<%s>" % pre,
            "AppendPrefix": NS + "%s<%s<%s, %s>>" % (style, CC, pre, p_app),
            "Inflect": "%s<%s, %s>" % (CC, pre, mine),
            "InflectAffix": "%s" % mineA,
        }
        for name, want in expect.items():
            nob += 1
            got = items.get(name, {}).get("ty")
            ctx.check(got is not None and norm(got) == norm(want), "R07.1", "%s::%s" % (NS + style, name), "%s:%s" % (imp["span"]["file"], imp["span"]["line"]),
                      "associated type %s of name style %s is `%s`, expected `%s`: names would be inflected in the wrong style / lose or reorder their prefix" % (name, style, got, want),
                      "= %s" % want)
    ctx.floor("R07.1", "associated-type obligations", nob, 24)
    # ------------------------------------------------------------------ R07.3
    mv = [b for b in F.all_bodies(CORE) if b.kind == "AssocConst" and b.name == "MAYBE_VAL" and ((b.impl or {}).get("self_ty") or "").startswith("metrique_core::concat::Concatenated<")]
    ctx.floor("R07.3", "Concatenated::MAYBE_VAL", len(mv), 1)
    M = None
    for b in mv:
        sw = [i for i in b.live_blocks() if b.term(i)["k"] == "switch" and len(b.term(i)["targets"]) > 10]
        ctx.check(len(sw) == 1, "R07.3", fnkey(b) + "#length-switch", loc(b), "expected one switch over the total length")
        if len(sw) != 1:
            continue
        t = b.term(sw[0])
        # the switch operand is S::MAYBE_VAL.len() + T::MAYBE_VAL.len()
        o = Prov(b).operand(t["discr"])
        lens = [x for x in o if x[0] == "call" and b.term(x[1])["callee"]["name"] == "len"]
        ctx.check(len(lens) == 2 and ("op", "AddWithOverflow") in o or ("op", "Add") in o, "R07.3", fnkey(b) + "#switch-on-total-length", loc(b), "the table is not indexed by len(S) + len(T)")
        vals = sorted(v for v, _ in t["targets"])
        M = vals[-1] if vals else None
        ctx.check(vals == list(range(0, (M or 0) + 1)), "R07.3", fnkey(b) + "#arms-contiguous", loc(b), "table arms are not contiguous from 0: %s" % [v for v in range(0, (M or 0) + 1) if v not in vals][:5])
        bad = []
        for v, tb in t["targets"]:
            k = None
            for s in b.stmts(tb):
                if s["k"] == "assign" and s["lhs"]["l"] == 0 and s["rv"]["k"] == "use":
                    c = op_const(s["rv"]["op"]) or {}
                    a = (c.get("uneval_args") or [""])[0]
                    mm = re.search(r"ConcatenatedLen<\s*S\s*,\s*T\s*,\s*(\d+)\s*>", a)
                    if c.get("uneval", "").endswith("MAYBE_VAL") and mm:
                        k = int(mm.group(1))
            if k != v:
                bad.append((v, k))
        ctx.check(not bad, "R07.3", fnkey(b) + "#arm-k-uses-length-k", loc(b),
                  "table arm(s) %s evaluate the concatenation buffer of a different length: names of exactly that length come out as NUL bytes / empty" % bad[:4],
                  "%d arms, arm k -> ConcatenatedLen<S,T,k>" % len(vals))
        # otherwise arm = ""
        ob = t["otherwise"]
        oc = [op_const(s["rv"]["op"]) for s in b.stmts(ob) if s["k"] == "assign" and s["lhs"]["l"] == 0 and s["rv"]["k"] == "use"]
        ctx.check(any((c or {}).get("str") == "" for c in oc), "R07.3", fnkey(b) + "#fallback-empty", loc(b), "the out-of-table arm is not the empty string")
    hv = [b for b in F.all_bodies(CORE) if b.kind == "AssocConst" and b.name == "HAVE_VAL" and ((b.impl or {}).get("self_ty") or "").startswith("metrique_core::concat::Concatenated<")]
    for b in hv:
        bound = None
        for i in b.live_blocks():
            for s in b.stmts(i):
                if s["k"] == "assign" and s["rv"]["k"] == "binop" and s["rv"]["op"] in ("Le", "Lt"):
                    c = op_const(s["rv"]["b"]) or {}
                    if "int" in c:
                        bound = c["int"] if s["rv"]["op"] == "Le" else c["int"] - 1
        ctx.check(bound is not None and bound == M, "R07.3", fnkey(b) + "#threshold-equals-table-size", loc(b),
                  "HAVE_VAL admits total lengths up to %s but the table has arms up to %s: longer names would silently become empty" % (bound, M))
        o = set()
        for i in b.live_blocks():
            for s in b.stmts(i):
                if s["k"] == "assign":
                    for op in ([s["rv"].get("op")] if s["rv"]["k"] == "use" else [s["rv"].get("a"), s["rv"].get("b")] if s["rv"]["k"] == "binop" else []):
                        c = op_const(op or {}) or {}
                        if c.get("uneval"):
                            o.add((c["uneval"].rsplit("::", 1)[-1], tuple(c.get("uneval_args", []))))
        ctx.check({("HAVE_VAL", ("S",)), ("HAVE_VAL", ("T",)), ("LEN", ("S",)), ("LEN", ("T",))} <= o, "R07.3", fnkey(b) + "#requires-both-parts", loc(b), "HAVE_VAL does not require both parts to have a value and bound their total length: %s" % sorted(o))
    ln = [b for b in F.all_bodies(CORE) if b.kind == "AssocConst" and b.name == "LEN" and ((b.impl or {}).get("self_ty") or "").startswith("metrique_core::concat::Concatenated<")]
    for b in ln:
        txt = str(b.blocks)
        ctx.check("'S'" in txt and "'T'" in txt and "Add" in txt, "R07.3", fnkey(b) + "#len-is-sum", loc(b), "LEN is not S::LEN + T::LEN")
    ex = [b for b in F.all_bodies(CORE) if b.name == "extend" and ((b.impl or {}).get("self_ty") or "").startswith("metrique_core::concat::Concatenated<")]
    for b in ex:
        cs = [c for c in b.calls() if c.name == "extend"]
        order = [c.self_ty for c in sorted(cs, key=lambda c: len(b.dominators().get(c.bb, ())))]
        ctx.check(order == ["S", "T"], "R07.3", fnkey(b) + "#extend-order", loc(b), "heap fallback concatenates in order %s (expected S then T)" % order)
    cv = [b for b in F.all_bodies(CORE) if b.name == "const_str_value"]
    for b in cv:
        dom = b.dominators()
        use_bb = [i for i in b.live_blocks() for s in b.stmts(i) if s["k"] == "assign" and s["rv"]["k"] == "use" and (op_const(s["rv"]["op"]) or {}).get("uneval", "").endswith("MAYBE_VAL")]
        okh = False
        for i in b.live_blocks():
            t = b.term(i)
            if t["k"] == "switch":
                for s in b.stmts(i):
                    if s["k"] == "assign" and s["rv"]["k"] == "use" and (op_const(s["rv"]["op"]) or {}).get("uneval", "").endswith("HAVE_VAL"):
                        true_t = t["otherwise"]
                        okh = bool(use_bb) and all(dominates(b, true_t, u, dom) for u in use_bb)
        ctx.check(okh, "R07.3", fnkey(b) + "#const-value-only-under-have-val", loc(b), "const_str_value reads MAYBE_VAL without HAVE_VAL being true")
    # ------------------------------------------------------------------ R07.4 the macro's style table (arm <-> inflector function)
    MAC = "metrique_macro"
    WANT = {"PascalCase": "to_pascal_case", "SnakeCase": "to_snake_case", "KebabCase": "to_kebab_case", "Preserve": "to_string"}
    SEP = {"SnakeCase": 95, "KebabCase": 45}

    def arm_targets(b):
        for i in b.live_blocks():
            t = b.term(i)
            if t["k"] == "switch":
                for s_ in b.stmts(i):
                    if s_["k"] == "assign" and s_["rv"]["k"] == "discr" and s_["rv"]["place"]["l"] == 1 and s_["rv"].get("adt", "").endswith("inflect::NameStyle"):
                        vm = {n: d for d, n in s_["rv"]["variants"]}
                        tg = {v: tb for v, tb in t["targets"]}
                        return i, {n: tg.get(d, t["otherwise"]) for n, d in vm.items()}
        return None, {}

    macro_bodies = {b.name: b for b in F.all_bodies(MAC) if b.path.startswith("metrique_macro::inflect::NameStyle::") and b.kind == "AssocFn"}
    ctx.floor("R07.4", "macro NameStyle helpers (apply / apply_prefix / to_word)", len([n for n in ("apply", "apply_prefix", "to_word") if n in macro_bodies]), 3)
    for fn in ("apply", "apply_prefix"):
        b = macro_bodies.get(fn)
        if b is None:
            continue
        sw, arms = arm_targets(b)
        ctx.check(set(arms) == set(WANT), "R07.4", fnkey(b) + "#arms", loc(b), "NameStyle::%s does not match on the four styles" % fn)
        for style, tb in arms.items():
            others = [x for n, x in arms.items() if n != style]
            region = b.reachable(tb) - set().union(*[b.reachable(o) - b.reachable(tb) for o in others]) if others else b.reachable(tb)
            mine = [c for c in b.calls() if c.bb in b.reachable(tb) and not any(c.bb in b.reachable(o) for o in others) and (c.is_in("inflector", c.name) or c.name == "to_string")]
            names = sorted({c.name for c in mine if c.name.startswith("to_")})
            ctx.check(names == [WANT.get(style)], "R07.4", fnkey(b) + "#%s-arm" % style, loc(b, tb),
                      "style %s is inflected with %s, expected %s: every field name declared in that style would be emitted in another style" % (style, names, WANT.get(style)),
                      "%s -> %s" % (style, WANT.get(style)))
            if fn == "apply_prefix":
                pushes = [c for c in b.calls() if c.name == "push" and c.def_.startswith("alloc::string::String") and c.bb in b.reachable(tb) and not any(c.bb in b.reachable(o) for o in others)]
                got = sorted({(op_const(c.args[1]) or {}).get("int") for c in pushes})
                want = [SEP[style]] if style in SEP else []
                ctx.check(got == want, "R07.4", fnkey(b) + "#%s-separator" % style, loc(b, tb),
                          "prefix separator for style %s is %s, expected %s" % (style, [chr(x) if isinstance(x, int) else x for x in got], [chr(x) for x in want]))
    b = macro_bodies.get("to_word")
    if b is not None:
        sw, arms = arm_targets(b)
        words = {}
        for style, tb in arms.items():
            for s_ in b.stmts(tb):
                if s_["k"] == "assign" and s_["lhs"]["l"] == 0 and s_["rv"]["k"] == "use":
                    words[style] = (op_const(s_["rv"]["op"]) or {}).get("str")
        ctx.check(len(set(words.values())) == 4 and None not in words.values(), "R07.4", fnkey(b) + "#distinct-words", loc(b),
                  "the identifier suffixes of the four styles are not distinct (%s): generated const-string types would collide" % words)
    # the functions that compute a field's emitted name: whatever they are called, they consult the explicit `name = ..` override
    mn = [x for x in F.all_bodies(MAC) if x.kind in ("Fn", "AssocFn") and x.path.startswith("metrique_macro::inflect::") and any(c.name == "name_override" for c in x.calls())]
    ctx.floor("R07.4", "macro name functions", len(mn), 2)
    for b in mn:
        ov = [c for c in b.calls() if c.name == "name_override"]
        ap = [c for c in b.calls() if c.name in ("apply", "apply_prefix", "name") and c.bb not in [o.bb for o in ov]]
        okp = False
        for c in ov:
            for sw_, tg, oth in switch_on_call_result(b, c):
                some_t = tg.get(1)
                if some_t is not None:
                    reach = b.reachable(some_t)
                    okp = not any(x.bb in reach for x in ap if x.name != "name")
        ctx.check(okp, "R07.4", fnkey(b) + "#explicit-name-wins", loc(b), "an explicit `name = ...` override is inflected / prefixed like a derived name")
    # ------------------------------------------------------------------ R07.5 per-style name closures treat every style alike
    # every closure the macro hands out as "name for style s" (a closure taking a NameStyle) computes the name by applying s to inputs
    # that do not depend on s: no branch on the style parameter inside the closure (a special case for one style makes the written name
    # and the sample-group name of the same item diverge for that style)
    nsc = 0
    for pb in F.all_bodies(MAC):
        for c in pb.calls():
            for cb in closure_args(F, c):
                if cb.arg_count < 2 or not cb.locals[2]["ty"].endswith("inflect::NameStyle"):
                    continue
                nsc += 1
                prc = Prov(cb)
                dep = []
                for i in cb.live_blocks():
                    t = cb.term(i)
                    if t["k"] != "switch":
                        continue
                    o = set(prc.operand(t["discr"]))
                    # look through comparison calls (PartialEq::eq / ne / matches!) for the style parameter
                    work, seen_ = list(o), set()
                    hit = False
                    while work:
                        x = work.pop()
                        if x in seen_:
                            continue
                        seen_.add(x)
                        if x[0] == "arg" and x[1] == 2:
                            hit = True
                        if x[0] in ("call", "callf"):
                            tt = cb.term(x[1])
                            if (tt.get("callee") or {}).get("name") in ("eq", "ne", "cmp", "partial_cmp"):
                                for a in tt.get("args", []):
                                    work.extend(prc.operand(a))
                    if hit:
                        dep.append(i)
                ctx.check(not dep, "R07.5", fnkey(cb) + "#style-uniform", loc(cb, dep[0] if dep else None),
                          "a per-style name closure branches on the style it is asked for (bb%s): the name for that one style is computed differently "
                          "from the others, so the same item can be written under one name and sampled/grouped under another" % dep,
                          "no branch on the style parameter")
    ctx.floor("R07.5", "per-style name closures in the macro", nsc, 2)
    # ------------------------------------------------------------------ R07.2 generator <-> trait positional agreement
    # the generator of the per-field Inflect type: the body that builds four ConstStr items through one local helper
    def _const_str_callee(x):
        cnt = {}
        for c in x.calls():
            if c.def_.startswith(MAC) and len(c.args) == 2 and local_callee_bodies(F, c):
                cnt[c.def_] = cnt.get(c.def_, 0) + 1
        four = [d for d, n in cnt.items() if n == 4]
        return four[0] if len(four) == 1 else None
    gen = [x for x in F.all_bodies(MAC) if x.kind in ("Fn", "AssocFn") and _const_str_callee(x) and any(c.name == "push_lt" for c in x.calls())]
    ctx.floor("R07.2", "Inflect type generator", len(gen), 1)
    for b in gen:
        pr = Prov(b)

        def style_of(op):
            """NameStyle constants in the transitive inputs of an operand (through opaque calls such as format!/mk_ident)"""
            st, seen, work = set(), set(), [op]
            while work:
                o_ = work.pop()
                for x in pr.operand(o_):
                    if x[0] == "agg" and isinstance(x[1], str) and x[1].endswith("inflect::NameStyle"):
                        st.add(x[2])
                    elif x[0] in ("call", "via") and x[1] not in seen:
                        seen.add(x[1])
                        t = b.term(x[1])
                        nm = (t.get("callee") or {}).get("name")
                        if nm == "apply":
                            continue          # the sanitised identifier base (always PascalCase) is not a style choice
                        work.extend(t.get("args", []))
            return sorted(st)
        csd = _const_str_callee(b)
        cs = [c for c in b.calls() if c.def_ == csd]
        ctx.check(len(cs) == 4, "R07.2", fnkey(b) + "#four-const-strs", loc(b), "expected four ConstStr definitions, found %d" % len(cs))
        ident_style = {}
        for c in cs:
            si, sv = style_of(c.args[0]), style_of(c.args[1])
            # the ident also carries PascalCase from the sanitised base: remove the style used for `ident_base`
            base_styles = set()
            for x in b.calls():
                if x.name == "apply":
                    base_styles |= set(style_of(x.args[0]))
            si2 = [x for x in si if x not in base_styles] or si
            ok_ = len(sv) == 1 and sv[0] in si
            ctx.check(ok_, "R07.2", fnkey(b) + "#ident-and-value-same-style@%s" % (sv[0] if sv else "?"), loc(b, c.bb),
                      "a ConstStr named for style %s carries the name computed for style %s" % (si2, sv))
            l = op_local(c.args[0])
            if sv:
                from mq.prov import single_def_ref_target
                tgt = single_def_ref_target(b, l) if l is not None else None
                if tgt is not None:
                    ident_style[tgt["l"]] = sv[0]
        # interpolation order between the last push_lt and push_gt
        lts = [c for c in b.calls() if c.name == "push_lt"]
        gts = [c for c in b.calls() if c.name == "push_gt"]
        if lts and gts:
            dom = b.dominators()
            last_lt = max(lts, key=lambda c: len(dom.get(c.bb, ())))
            last_gt = max(gts, key=lambda c: len(dom.get(c.bb, ())))
            toks = [c for c in b.calls() if c.name == "to_tokens" and "Ident" in (c.self_ty or "") and dominates(b, last_lt.bb, c.bb, dom) and dominates(b, c.bb, last_gt.bb, dom)]
            toks.sort(key=lambda c: len(dom.get(c.bb, ())))
            order = []
            from mq.prov import single_def_ref_target
            for c in toks:
                l = op_local(c.args[0])
                tgt = single_def_ref_target(b, l) if l is not None else None
                order.append(ident_style.get(tgt["l"]) if tgt is not None else None)
            want = ["Preserve" if p == "ID" else {"PASCAL": "PascalCase", "SNAKE": "SnakeCase", "KEBAB": "KebabCase"}[p] for p in [x.upper() for x in gat.get("Inflect", [])]] if gat.get("Inflect") else []
            ctx.check(order == want, "R07.2", fnkey(b) + "#interpolation-order-matches-trait", loc(b),
                      "the generated `Inflect<..>` arguments are in order %s but the trait declares %s: a name style would select another style's string" % (order, want),
                      "order %s" % order)
    # ------------------------------------------------------------------ W07
    res = witness.run_witness()
    witness.report_group(ctx, "W07", res, "concat", "concatenation obligations (every total length 0..=100, beyond threshold, nested)")
    # ------------------------------------------------------------------ R07.6 the container's prefix is bypassed only on the item's own say-so
    # the macro's name functions (String result, reading the container attributes' optional prefix) may return a name that never met the
    # prefix - an explicit `name = ".."` / `name_exact` - but whether they do must depend on the item alone: a bypass that is taken because
    # of something in the container attributes (its rename_all style, say) drops the prefix for items that should carry it
    from rules.c12 import controlling_switches
    n6 = 0
    for b in F.all_bodies(MAC):
        if b.kind not in ("Fn", "AssocFn") or not (b.d.get("output") or "").endswith("string::String") or (b.impl and b.impl.get("trait")):
            continue
        roots = {}
        for i in b.live_blocks():
            for s_ in b.stmts(i):
                if s_["k"] != "assign":
                    continue
                pls = []
                rv = s_["rv"]
                if isinstance(rv.get("place"), dict):
                    pls.append(rv["place"])
                for k_ in ("op", "a", "b"):
                    o_ = rv.get(k_)
                    if isinstance(o_, dict) and (o_.get("copy") or o_.get("move")):
                        pls.append(o_.get("copy") or o_.get("move"))
                for pl in pls:
                    for e in pl.get("p", []):
                        if e[0] == "f" and e[2] == "prefix" and len(e) > 4 and "Option<" in e[4] and str(e[3]).startswith(MAC + "::"):
                            roots.setdefault(e[3], set()).add(i)
        if not roots:
            # ... or through a private method of the container attributes that does (`root_attrs.inflect_with_prefix(..)`)
            for c in b.calls():
                for hb in local_callee_bodies(F, c):
                    if hb.crate != MAC or hb.kind == "Closure":
                        continue
                    for i2 in hb.live_blocks():
                        for s2 in hb.stmts(i2):
                            if s2["k"] == "assign":
                                pl2 = s2["rv"].get("place") if isinstance(s2["rv"].get("place"), dict) else None
                                for e in (pl2 or {}).get("p", []):
                                    if e[0] == "f" and e[2] == "prefix" and len(e) > 4 and "Option<" in e[4] and str(e[3]).startswith(MAC + "::"):
                                        roots.setdefault(e[3], set()).add(c.bb)
        if not roots:
            continue
        radt, pblocks = sorted(roots.items())[0]
        rparams = [j for j in range(1, b.arg_count + 1) if radt in b.locals[j]["ty"]]
        if not rparams:
            continue
        n6 += 1
        pr = Prov(b)
        rdefs = [i for i in b.live_blocks() if any(s_["k"] == "assign" and s_["lhs"]["l"] == 0 and not s_["lhs"].get("p") for s_ in b.stmts(i)) or
                 (b.term(i)["k"] == "call" and (b.term(i).get("dest") or {}).get("l") == 0 and not b.term(i)["dest"].get("p"))]
        free = b.reachable(0, avoid=list(pblocks)) - set(pblocks)
        bad = None
        for rb in rdefs:
            if rb not in free:
                continue
            for i, t, yes, no in controlling_switches(b, rb):
                if i not in free:
                    continue
                o = pr.operand(t["discr"])
                dep = [x for x in o if x[0] == "arg" and x[1] in rparams]
                # (a comparison / helper call whose inputs come from the container attributes counts as well)
                for x in o:
                    if x[0] == "call":
                        for a_ in b.term(x[1]).get("args", []):
                            dep += [y for y in pr.operand(a_) if y[0] == "arg" and y[1] in rparams]
                if dep:
                    bad = (rb, i, dep[0])
        ctx.check(bad is None, "R07.6", fnkey(b) + "#prefix-bypassed-only-on-the-items-own-say-so", loc(b, bad[1] if bad else None),
                  "a name is returned without ever consulting the container's prefix on a path chosen by the container attributes themselves (%s): items "
                  "that should carry the prefix lose it whenever that condition holds" % (bad[2],) if bad else "",
                  "the un-prefixed exits depend on the item only")
    ctx.floor("R07.6", "macro name functions that read the container prefix", n6, 2)
    # ------------------------------------------------------------------ R07.8 the name that is written is what the style makes of the base name
    # an item's base name (its identifier) never leaves a name function as it is: it is returned only through the style table
    # (`style.apply(base)`, `prefix.apply(base, style)`); the one un-inflected exit is the item's explicit name. A shortcut that returns
    # the identifier because it "already looks like" the requested style skips the table for exactly the inputs on which the two disagree
    # (`p99_latency` is `p_99_latency` in the table's snake case)
    by_trait = {}
    for b in F.all_bodies(MAC):
        tr_ = (b.impl or {}).get("trait") or ""
        if tr_.startswith(MAC + "::") and b.arg_count == 1:
            by_trait.setdefault(tr_, {}).setdefault(b.name, set()).add(b.d.get("output") or "")
    base_methods = set()
    for tr_, ms in by_trait.items():
        if any(any(o_.startswith("core::option::Option<&") for o_ in outs) for outs in ms.values()):
            base_methods |= {(tr_, m_) for m_, outs in ms.items() if outs == {"alloc::string::String"}}
    ctx.floor("R07.8", "base-name accessors of the macro's item model (by role)", len(base_methods), 1)
    n8 = 0
    for b in F.all_bodies(MAC):
        if b.kind == "Closure" or not (b.d.get("output") or "").endswith("string::String"):
            continue
        bases = [c for c in b.calls() if (c.trait or "", c.name) in base_methods]
        if not bases or (((b.impl or {}).get("trait") or ""), b.name) in base_methods:
            continue
        n8 += 1
        pr8 = Prov(b)
        leaked = [c for c in bases if ("call", c.bb) in pr8.local(0) or ("via", c.bb) in pr8.local(0)]
        ctx.check(not leaked, "R07.8", fnkey(b) + "#base-name-only-through-the-style-table", loc(b, leaked[0].bb if leaked else None),
                  "the item's base name is returned as it is on some path (not through `apply` of the name style / prefix, and not the item's explicit "
                  "name): for identifiers on which the shortcut's idea of the style and the style table disagree the item is written under another name "
                  "than the style prescribes", "every exit is an explicit name or an `apply` result")
    ctx.floor("R07.8", "name functions that read an item's base name", n8, 2)
    # ------------------------------------------------------------------ R07.7 what is generated for one item does not depend on its siblings
    # "exactly one item per field, under that field's inflected name": in the macro's per-item loops no token-valued variable carries a
    # value computed for one item into the code generated for a later one (a namespace / prefix left over from the previous field). An
    # accumulator (new value built from the old one) is not such a carrier
    n_loops, n_vars = loop_carried(ctx, F, MAC, "R07.7",
                                   "a namespace, prefix or name computed for one field is reused for a later field that did not set it: that field (and "
                                   "everything flattened under it) is written under a sibling's name")
    ctx.floor("R07.7", "per-item loops in the macro", n_loops, 10)
    ctx.floor("R07.7", "token-valued variables assigned inside those loops", n_vars, 5)
    return EXPL



TOKENISH = ("TokenStream", "proc_macro2::Ident", "syn::", "alloc::string::String", "Ts2")


def emits_tokens(c):
    return (c.def_ or "").startswith("quote::__private::") or c.is_trait_method("ToTokens", "to_tokens") or c.name in ("quote_into", "to_token_stream")


def loop_carried(ctx, F, crate, rule, why, types=TOKENISH, emits=emits_tokens):
    """report variables of `types` that are assigned inside a loop, not as a function of their own previous value, and read in a later
    iteration on a path that does not assign them first. returns (#loops, #variables examined)"""
    n_loops = n_vars = 0
    okv = {}
    for b in F.all_bodies(crate):
        heads = [c for c in b.calls() if c.is_trait_method("Iterator", "next") and c.bb in b.reachable_after(c.bb)]
        if not heads:
            continue
        defs = b.defs()

        def events(i, v):
            """ordered events on local v in block i: 'r' (read) / 'd' (whole assignment)"""
            ev = []
            for st in b.stmts(i):
                if st["k"] != "assign":
                    continue
                rv = st["rv"]
                ops = rv.get("ops") or [rv.get(k) for k in ("op", "a", "b") if rv.get(k) is not None]
                rd = any((op_place(o) or {}).get("l") == v for o in ops if isinstance(o, dict)) or \
                    (rv["k"] in ("ref", "rawptr", "discr") and rv["place"]["l"] == v)
                if rd:
                    ev.append("r")
                if st["lhs"]["l"] == v and not st["lhs"].get("p"):
                    ev.append("d")
            t = b.term(i)
            if t["k"] == "call":
                if any((op_place(a) or {}).get("l") == v for a in t["args"]):
                    ev.append("r")
                if t.get("dest") and t["dest"]["l"] == v and not t["dest"].get("p"):
                    ev.append("d")
            elif t["k"] == "switch" and (op_place(t["discr"]) or {}).get("l") == v:
                ev.append("r")
            return ev

        def slice_locals(roots):
            seen, work = set(), list(roots)
            while work:
                l = work.pop()
                if l in seen or l is None:
                    continue
                seen.add(l)
                for kind, bb_, j, node in defs.get(l, []):
                    if b.is_cleanup(bb_):
                        continue
                    if kind == "call":
                        work += [(op_place(a) or {}).get("l") for a in node["args"]]
                    elif node["k"] == "assign":
                        rv = node["rv"]
                        ops = rv.get("ops") or [rv.get(k) for k in ("op", "a", "b") if rv.get(k) is not None]
                        work += [(op_place(o) or {}).get("l") for o in ops if isinstance(o, dict)]
                        if rv["k"] in ("ref", "rawptr", "discr"):
                            work.append(rv["place"]["l"])
            return seen

        for h in heads:
            body = {x for x in b.reachable_after(h.bb) if h.bb in b.reachable(x) and not b.is_cleanup(x)}
            # a loop that generates code for its items (attribute-parsing loops collect options across iterations by design)
            if emits is not None and not any(c.bb in body and emits(c) for c in b.calls()):
                continue
            n_loops += 1
            for v in range(b.arg_count + 1, len(b.locals)):
                ty = b.local_ty(v)
                if not b.local_name(v) or not any(k in ty for k in types) or ty.startswith("&"):
                    continue
                in_defs = [(kind, bb_, j, node) for kind, bb_, j, node in defs.get(v, []) if bb_ in body and
                           ((kind == "call" and not node["dest"].get("p")) or (kind == "assign" and node["k"] == "assign" and not node["lhs"].get("p")))]
                if not in_defs:
                    continue
                n_vars += 1
                # an accumulator: every assignment inside the loop is computed from the variable's own previous value
                feeders = []
                for kind, bb_, j, node in in_defs:
                    if kind == "call":
                        feeders.append(slice_locals([(op_place(a) or {}).get("l") for a in node["args"]]))
                    else:
                        rv = node["rv"]
                        ops = rv.get("ops") or [rv.get(k) for k in ("op", "a", "b") if rv.get(k) is not None]
                        feeders.append(slice_locals([(op_place(o) or {}).get("l") for o in ops if isinstance(o, dict)] +
                                                    ([rv["place"]["l"]] if rv["k"] in ("ref", "rawptr", "discr") else [])))
                if all(v in f for f in feeders):
                    continue
                # read in a later iteration before being assigned: walk from the start of an iteration
                seen, work, hit = set(), [h.target], None
                while work and hit is None:
                    x = work.pop()
                    if x in seen or x not in body or x == h.bb:
                        continue
                    seen.add(x)
                    ev = events(x, v)
                    if ev:
                        if ev[0] == "r":
                            hit = x
                        continue
                    work += b.succ(x)
                # ... and it must have been assigned in an earlier iteration: some in-loop assignment reaches the loop head
                if hit is not None and any(h.bb in b.reachable_after(bb_) for _, bb_, _, _ in in_defs):
                    ctx.bad(rule, fnkey(b) + "#no-state-carried-between-items@" + (b.local_name(v) or "_%d" % v), loc(b, hit),
                            "variable `%s` is assigned while one item is handled and read while a later one is, on a path that does not assign it "
                            "again: %s" % (b.local_name(v), why))
                else:
                    okv.setdefault((b.def_, heads.index(h)), []).append(b.local_name(v))
    for (d, k), names in sorted(okv.items()):
        ctx.ok(rule, strip_generics(d) + "#no-state-carried-between-items@loop%d" % k, "", "%d variable(s) assigned before they are read in every iteration: %s" % (len(names), ", ".join(sorted(set(names)))[:160]))
    return n_loops, n_vars

"""C06 — append-on-drop exactly once, at the right moment (structural clauses)."""
from mq.util import *
from mq.prov import Prov
from mq.sim import Sim, Budget

EXPL = ("R06.1 the one emission site: in the destructor of the inner append-on-drop value take < close < append, each exactly once on "
        "every path, append's argument built from close's result; EntrySink::append is called nowhere else in the metrique crate. "
        "R06.2 two owners: the shared UnsafeCell is cloned at exactly one site (into the guard closure), guards are built only by "
        "cloning the guard token, force-flush guards only by Arc::downgrade; the force-flush destructor upgrades, locks, takes and "
        "calls the closure only when it was still present. R06.3 no leak primitive (mem::forget, ManuallyDrop, Box::leak, "
        "Arc::into_raw, increment_strong_count) is called in the crate. R06.4 owner types are not Clone; only the owner implements "
        "DerefMut to the cell. Not decided: drop order across threads (Arc/Mutex semantics).")
MQ = "metrique"
LEAKS = [("core::mem", ("forget",)), ("core::mem::manually_drop", ("ManuallyDrop::new",)), ("alloc::boxed", ("Box::leak", "Box::into_raw")),
         ("alloc::sync", ("Arc::into_raw", "Arc::increment_strong_count", "Weak::into_raw")), ("alloc::rc", ("Rc::into_raw",))]


def keepalive_roles(F):
    """the keep-alive types of the crate by shape (pub(crate) items: their names and module are private detail):
    guard = the struct holding `Arc<Mutex<Option<Box<dyn ..>>>>`, release-all = the struct holding the `Weak` of the same,
    owner = the struct holding both the shared `Arc<UnsafeCell<T>>` and a guard"""
    c_ = getattr(F, "_ka_roles", None)
    if c_ is None:
        guard, relall, owner = set(), set(), set()
        for d, a in F.adts.items():
            if a["crate"] != MQ or len(a["variants"]) != 1:
                continue
            tys = [f["ty"] for f in a["variants"][0]["fields"]]
            def boxed(t, depth=1):
                """the shared release slot: `Mutex<Option<Box<dyn ..>>>`, written out or behind a private newtype / state enum of the crate"""
                if "Mutex<core::option::Option<alloc::boxed::Box<" in t and "dyn " in t:
                    return True
                if depth <= 0:
                    return False
                for d2, a2 in F.adts.items():
                    if a2["crate"] == MQ and (d2 + ">") in t.replace(d2 + "<", d2 + ">"):
                        ftys = [f2["ty"] for v2 in a2["variants"] for f2 in v2["fields"]]
                        # a newtype around the mutex, or (inside `Mutex<..>`) a state enum one of whose variants holds the boxed action
                        if any(boxed(ft, depth - 1) for ft in ftys) or ("Mutex<" + d2 in t and any(ft.startswith("alloc::boxed::Box<dyn ") or ft.startswith("alloc::boxed::Box<(dyn ") for ft in ftys)):
                            return True
                return False
            if len(tys) == 1 and tys[0].startswith("alloc::sync::Arc<") and boxed(tys[0]):
                guard.add(d)
            if len(tys) == 1 and tys[0].startswith("alloc::sync::Weak<") and boxed(tys[0]):
                relall.add(d)
        # a private newtype around the shared cell (`struct SharedValue<T>(Arc<UnsafeCell<T>>)`) is the cell under another name
        cellnt = {d for d, a in F.adts.items() if a["crate"] == MQ and len(a["variants"]) == 1 and len(a["variants"][0]["fields"]) == 1 and
                  a["variants"][0]["fields"][0]["ty"].startswith("alloc::sync::Arc<core::cell::UnsafeCell<")}
        for d, a in F.adts.items():
            if a["crate"] == MQ and len(a["variants"]) == 1:
                tys = [f["ty"] for f in a["variants"][0]["fields"]]
                if any("Arc<core::cell::UnsafeCell<" in t or any(t == n_ or t.startswith(n_ + "<") for n_ in cellnt) for t in tys) and any(t in guard for t in tys):
                    owner.add(d)
        c_ = {"guard": guard, "release_all": relall, "owner": owner, "cell_newtypes": cellnt}
        F._ka_roles = c_
    return c_


def is_take(F, c):
    """moving a value out of its owner and leaving an empty state behind: Option::take, mem::take / mem::replace, or a private
    `fn take(&mut self) -> Self` of a state enum that is exactly such a replace of `*self`"""
    if c.is_("core::option::Option::<T>::take") or c.is_("core::mem::take", "core::mem::replace"):
        return True
    if len(c.args) != 1:
        return False
    for hb in local_callee_bodies(F, c):
        if hb.crate != MQ or hb.kind == "Closure" or hb.arg_count != 1 or not hb.locals[1]["ty"].startswith("&mut "):
            return False
        inner = [x for x in hb.calls() if x.is_("core::mem::take", "core::mem::replace")]
        if len(inner) != 1 or len(hb.calls()) != 1 or not hb.must_pass([inner[0].bb]):
            return False
        if not any(y[0] == "arg" and y[1] == 1 and not y[2] for y in Prov(hb).operand(inner[0].args[0])):
            return False
        return True
    return False


def run(ctx):
    F = ctx.facts("dbg")
    lib = [b for b in F.all_bodies(MQ) if "::test::" not in b.path and "::tests::" not in b.path]
    # ------------------------------------------------------------------ R06.1
    appends = [(b, c) for b in lib for c in b.calls() if c.is_trait_method("EntrySink", "append")]
    is_drop = lambda b: bool(b.impl) and (b.impl.get("trait") or "").endswith("::Drop")
    drops = [b for b, c in appends if is_drop(b)]
    # a private helper that only destructors call, exactly once on each of their paths, is part of the destructor
    for b, c in appends:
        if is_drop(b) or b in drops:
            continue
        callers = F.callers_of(b.path, crates=[MQ])
        if callers and all(is_drop(cs.body) for cs in callers) and \
                all(exactly_once(cs.body, [x.bb for x in callers if x.body is cs.body])[0] for cs in callers):
            drops.append(b)
    ctx.floor("R06.1", "destructors that append to a sink", len(drops), 1)
    for b, c in appends:
        ctx.check(b in drops, "R06.1", fnkey(b) + "#append-only-in-destructor", loc(b, c.bb),
                  "EntrySink::append is called outside the append-on-drop destructor: an entry could be emitted at another moment or twice")
    for b in drops:
        key = fnkey(b)
        pr = Prov(b, adapter_pred=lambda t: (t.get("callee") or {}).get("name") in ("new",) and "RootEntry" in (t.get("callee") or {}).get("def", ""))
        takes = [c for c in b.calls() if is_take(F, c)]
        if not is_drop(b) and not takes:
            # split form: the destructor takes the entry and hands it (by value) to this helper, which closes and appends it
            closes = [c for c in b.calls() if c.is_trait_method("CloseValue", "close")]
            aps = [c for c in b.calls() if c.is_trait_method("EntrySink", "append")]
            ok1, why1 = exactly_once(b, [c.bb for c in closes])
            ok2, why2 = exactly_once(b, [c.bb for c in aps])
            ctx.check(ok1 and ok2, "R06.1", key + "#close-and-append-exactly-once", loc(b), "the helper does not close and append exactly once on every path (%s / %s)" % (why1, why2))
            if closes and aps:
                dom = b.dominators()
                ctx.check(dominates(b, closes[0].bb, aps[0].bb, dom), "R06.1", key + "#take<close<append", loc(b), "order close < append violated")
                ctx.check(("call", closes[0].bb) in pr.operand(aps[0].args[1]), "R06.1", key + "#appends-the-closed-entry", loc(b, aps[0].bb), "the appended value is not the closed entry")
                ctx.check(any(x[0] == "arg" for x in pr.operand(closes[0].args[0])), "R06.1", key + "#closes-the-taken-entry", loc(b, closes[0].bb), "close is not applied to the entry handed in")
            # in each calling destructor: take exactly once, the taken entry is what the helper receives, helper called once when present
            for cs in F.callers_of(b.path, crates=[MQ]):
                d_ = cs.body
                dk = fnkey(d_)
                dtakes = [c for c in d_.calls() if is_take(F, c)]
                okt, whyt = exactly_once(d_, [c.bb for c in dtakes])
                ctx.check(okt, "R06.1", dk + "#take-exactly-once", loc(d_), "take is not executed exactly once on every path of the destructor: %s" % whyt)
                dpr = Prov(d_, adapter_pred=lambda t: (t.get("callee") or {}).get("name") in ("expect", "unwrap"))
                fed = any(any(x[0] in ("call", "via", "callf") and x[1] in [t_.bb for t_ in dtakes] for x in dpr.operand(a)) for a in cs.args)
                ctx.check(fed and bool(dtakes) and all(dominates(d_, t_.bb, cs.bb, d_.dominators()) for t_ in dtakes), "R06.1", dk + "#closes-the-taken-entry", loc(d_, cs.bb),
                          "the entry handed to the close-and-append helper is not the one taken out of the owner")
                th = [c for c in d_.calls() if c.is_in("std::thread", "panicking")]
                ctx.check(not th, "R06.1", dk + "#no-panicking-escape", loc(d_), "destructor consults thread::panicking(): the entry would be lost while unwinding")
            continue
        closes = [c for c in b.calls() if c.is_trait_method("CloseValue", "close")]
        aps = [c for c in b.calls() if c.is_trait_method("EntrySink", "append")]
        ok, why = exactly_once(b, [c.bb for c in takes])
        ctx.check(ok, "R06.1", key + "#take-exactly-once", loc(b), "take is not executed exactly once on every path of the destructor: %s" % why)

        # a take on a private two-state enum (`EntryState::Open(e)` / `Closed`): the taken value is the full or the empty state
        state_takes = {}
        for c_ in takes:
            if c_.is_("core::option::Option::<T>::take") or c_.dest.get("p"):
                continue
            a_ = F.adts.get((b.locals[c_.dest["l"]].get("head") or {}).get("adt") or "")
            if a_ and a_["crate"] == MQ and len(a_["variants"]) == 2:
                full_ = [v_["name"] for v_ in a_["variants"] if v_["fields"]]
                empty_ = [v_["name"] for v_ in a_["variants"] if not v_["fields"]]
                if len(full_) == 1 and len(empty_) == 1:
                    state_takes[c_.bb] = (full_[0], empty_[0])
        class S1(Sim):
            def on_call(self_, t, bb, a, env):
                c = t.get("callee") or {}
                if c.get("def") == "core::option::Option::<T>::take":
                    return [(("some", 0, 0), {"dest": ("v", "Some")}), (("none", 0, 0), {"dest": ("v", "None")})]
                if bb in state_takes:
                    full, empty = state_takes[bb]
                    return [(("some", 0, 0), {"dest": ("v", full)}), (("none", 0, 0), {"dest": ("v", empty)})]
                if isinstance(a, tuple) and c.get("name") == "close" and (c.get("trait") or "").endswith("CloseValue"):
                    return [((a[0], a[1] + 1, a[2]), {})]
                if isinstance(a, tuple) and c.get("name") == "append" and (c.get("trait") or "").endswith("EntrySink"):
                    return [((a[0], a[1], a[2] + 1), {})]
                return None
        try:
            s1 = S1(b).run(0, ("?", 0, 0), {})
            some = [(a[1], a[2]) for _, a, _ in s1.returns if a[0] == "some"]
            none = [(a[1], a[2]) for _, a, _ in s1.returns if a[0] == "none"]
            # the None arm may panic (expect) or fall through doing nothing; the Some arm closes and appends exactly once
            ctx.check(bool(some) and all(x == (1, 1) for x in some) and all(x == (0, 0) for x in none), "R06.1", key + "#close-and-append-exactly-once", loc(b),
                      "when the entry is present the destructor closes/appends it %s time(s); without an entry %s" % (sorted(set(some)), sorted(set(none))))
        except Budget as e:
            ctx.bad("R06.1", key + "#budget", loc(b), str(e))
        if takes and closes and aps:
            dom = b.dominators()
            ctx.check(dominates(b, takes[0].bb, closes[0].bb, dom) and dominates(b, closes[0].bb, aps[0].bb, dom), "R06.1", key + "#take<close<append", loc(b), "order take < close < append violated")
            o = pr.operand(aps[0].args[1])
            ctx.check(("call", closes[0].bb) in o, "R06.1", key + "#appends-the-closed-entry", loc(b, aps[0].bb), "the appended value is not the closed entry")
            o2 = pr.operand(closes[0].args[0])
            ctx.check(any(x == ("call", takes[0].bb) for x in o2) or any(x[0] == "callf" and x[1] == takes[0].bb for x in o2), "R06.1", key + "#closes-the-taken-entry", loc(b, closes[0].bb), "close is not applied to the taken entry")
        # a panic guard must not skip the emission
        th = [c for c in b.calls() if c.is_in("std::thread", "panicking")]
        ctx.check(not th, "R06.1", key + "#no-panicking-escape", loc(b), "destructor consults thread::panicking(): the entry would be lost while unwinding")
    # ------------------------------------------------------------------ R06.2
    cell_clones = [(b, c) for b in lib for c in b.calls() if c.is_trait_method("Clone", "clone") and "Arc<core::cell::UnsafeCell<" in (c.self_ty or "")]
    # (a clone made inside a method of the cell's private newtype - `fn keep_alive(&self) -> Self` - happens where that method is called)
    lifted = []
    for b, c in cell_clones:
        if b.impl and not b.impl.get("trait") and (b.impl.get("self_head") or {}).get("adt") in keepalive_roles(F)["cell_newtypes"]:
            lifted += [(cs.body, cs) for cs in F.callers_of(b.path, crates=[MQ]) if cs.body in lib]
        else:
            lifted.append((b, c))
    cell_clones = lifted
    ctx.check(len(cell_clones) == 1, "R06.2", MQ + "::keep_alive#cell-cloned-once", "", "the shared UnsafeCell Arc is cloned at %d sites (expected 1: into the guard closure): %s" % (
        len(cell_clones), [b.path for b, _ in cell_clones]))
    for b, c in cell_clones:
        # the clone ends up captured by a closure stored in the guard
        cls = list(F.closures_of(b))
        # ... or by a closure of a private constructor helper the clone is handed to (e.g. `Guard::keeping_alive(value.clone())`)
        prb = Prov(b)
        for x in b.calls():
            if x is not c and any(any(o[0] in ("call", "via") and o[1] == c.bb for o in prb.operand(a)) for a in x.args):
                for sb in local_callee_bodies(F, x):
                    if sb.crate == MQ:
                        cls += list(F.closures_of(sb))
        # ... or it is stored in a private struct that is boxed as the guard's type-erased release object (`Box<dyn KeepAlive>`)
        boxed_obj = False
        for i_ in b.live_blocks():
            for s_ in b.stmts(i_):
                if s_["k"] == "assign" and s_["rv"]["k"] == "agg" and s_["rv"].get("agg") == "adt" and (s_["rv"].get("adt") or "").startswith(MQ + "::") and \
                        any(any(o[0] in ("call", "via") and o[1] == c.bb for o in prb.operand(op_)) for op_ in s_["rv"]["ops"]):
                    l_ = s_["lhs"]["l"]
                    boxed_obj = boxed_obj or any(x.name == "new" and "Box" in x.def_ and x.args and op_local(x.args[0]) == l_ for x in b.calls())
        ctx.check((any(any(x.is_("core::mem::drop") for x in cb.calls()) or cb.blocks for cb in cls) and bool(cls)) or boxed_obj, "R06.2", fnkey(b) + "#clone-owned-by-guard-closure", loc(b, c.bb), "the cell clone is not moved into the guard closure")
    KA = keepalive_roles(F)
    guard_adts = [a for a in F.adts.values() if a["def"] in KA["guard"]]
    ctx.floor("R06.2", "guard token type", len(guard_adts), 1)
    for ga in guard_adts:
        builds = []
        for b in lib:
            for i in b.live_blocks():
                for s in b.stmts(i):
                    if s["k"] == "assign" and s["rv"]["k"] == "agg" and s["rv"].get("adt") == ga["def"]:
                        builds.append((b, i, s))
        for b, i, s in builds:
            o = Prov(b).operand(s["rv"]["ops"][0])
            cl = [x for x in o if x[0] in ("call", "via") and (b.term(x[1]).get("callee") or {}).get("name") in ("clone", "new")]
            fresh = any(b.term(x[1])["callee"]["name"] == "new" for x in cl)
            cloned = any(b.term(x[1])["callee"]["name"] == "clone" and "Arc<" in (b.term(x[1])["callee"].get("self_ty") or "") for x in cl)
            ctx.check(fresh or cloned, "R06.2", fnkey(b) + "#guard-from-token", loc(b, i), "a Guard is built from something else than a clone of the guard token / the fresh token")
        ctx.floor("R06.2", "Guard construction sites", len(builds), 2)
        ctx.check(all(i["crate"] != MQ or i["self_head"].get("adt", "") not in KA["guard"] for i in F.impls_of("core::clone::Clone")),
                  "R06.2", ga["def"] + "#not-Clone", "", "Guard implements Clone")
    # DropAll
    da = [b for b in lib if b.impl and (b.impl.get("trait") or "").endswith("::Drop") and (b.impl.get("self_head") or {}).get("adt") in KA["release_all"]]
    ctx.floor("R06.2", "force-flush destructor", len(da), 1)
    for b in da:
        class S(Sim):
            def on_call(self_, t, bb, a, env):
                c = t.get("callee") or {}
                if "callee_op" in t or (c.get("name") in ("call_once",) and "FnOnce" in c.get("def", "")):
                    return [((a[0], a[1] + 1), {})]
                # the release action as a method of a type-erased object (`shared.release()` on a Box<dyn Trait>)
                if (c.get("self_ty") or "").startswith(("dyn ", "(dyn ")) and (c.get("def") or "").startswith(MQ + "::"):
                    return [((a[0], a[1] + 1), {})]
                if c.get("def") == "core::option::Option::<T>::take":
                    return [(("some", a[1]), {"dest": ("v", "Some")}), (("none", a[1]), {"dest": ("v", "None")})]
                return None
        # the take-and-run part may sit in a private helper that is handed the upgraded token (`release_now(&token)`)
        tb, via = b, None
        if not any(c.def_ == "core::option::Option::<T>::take" for c in b.calls()):
            ups_ = [c for c in b.calls() if c.name == "upgrade"]
            prb_ = Prov(b, adapter_pred=lambda t: (t.get("callee") or {}).get("name") in ("deref", "as_ref", "borrow"))
            for x in b.calls():
                if ups_ and any(any(o[0] in ("call", "via") and o[1] == ups_[0].bb for o in prb_.operand(a)) for a in x.args):
                    for hb in local_callee_bodies(F, x):
                        if hb.crate == MQ and any(c.def_ == "core::option::Option::<T>::take" for c in hb.calls()):
                            tb, via = hb, x
        s = S(tb).run(0, ("?", 0), {})
        some = [a[1] for _, a, _ in s.returns if a[0] == "some"]
        other = [a[1] for _, a, _ in s.returns if a[0] != "some"]
        if via is not None and (via.bb in b.reachable_after(via.bb) or len([x for x in b.calls() if x.def_ == via.def_]) != 1):
            some = some + [2]       # the helper itself can run more than once
        ctx.check(some and all(x == 1 for x in some) and all(x == 0 for x in other), "R06.2", fnkey(b) + "#calls-closure-once-when-present", loc(b),
                  "force-flush destructor calls the release closure %s time(s) when present / %s otherwise" % (sorted(set(some)), sorted(set(other))))
        up = [c for c in b.calls() if c.name == "upgrade"]
        lk = [c for c in tb.calls() if c.name == "lock"]
        tk = [c for c in tb.calls() if c.name == "take"]
        dom = b.dominators()
        tdom = tb.dominators()
        order_ok = bool(up and lk and tk) and dominates(tb, lk[0].bb, tk[0].bb, tdom) and (
            dominates(b, up[0].bb, lk[0].bb, dom) if via is None else dominates(b, up[0].bb, via.bb, dom))
        ctx.check(order_ok, "R06.2", fnkey(b) + "#upgrade<lock<take", loc(b), "force-flush destructor does not upgrade, lock, then take")
    dg = [(b, c) for b in lib for c in b.calls() if c.name == "downgrade" and "Arc" in c.def_]
    builds = [(b, i) for b in lib for i in b.live_blocks() for s in b.stmts(i) if s["k"] == "assign" and s["rv"]["k"] == "agg" and (s["rv"].get("adt") or "") in KA["release_all"]]
    for b, i in builds:
        okd = True
        for s_ in b.stmts(i):
            if s_["k"] == "assign" and s_["rv"]["k"] == "agg" and (s_["rv"].get("adt") or "") in KA["release_all"]:
                o = Prov(b).operand(s_["rv"]["ops"][0])
                srcs = {(b.term(x[1]).get("callee") or {}).get("name") for x in o if x[0] == "call"}
                okd = okd and srcs == {"downgrade"}
        ctx.check(okd, "R06.2", fnkey(b) + "#dropall-from-downgrade", loc(b, i),
                  "a force-flush token is built from something else than Arc::downgrade of the guard token (e.g. an empty Weak): dropping it "
                  "releases nothing, so the entry is not appended when the owner and a force-flush guard are gone")
    # ------------------------------------------------------------------ R06.3
    leaks = []
    for b in lib:
        for c in b.calls():
            for pre, names in LEAKS:
                if c.is_in(pre, *names):
                    leaks.append((b, c))
    ctx.check(not leaks, "R06.3", MQ + "#no-leak-primitives", loc(leaks[0][0], leaks[0][1].bb) if leaks else "",
              "leak primitive called in the metrique crate: %s in %s (an entry owned by it would never be appended)" % (leaks[0][1].def_ if leaks else "", leaks[0][0].path if leaks else ""),
              "%d library bodies scanned" % len(lib))
    ctx.floor("R06.3", "library bodies scanned", len(lib), 100)
    # ------------------------------------------------------------------ R06.4
    for nm in sorted(KA["owner"]) + ["AppendAndCloseOnDrop", "AppendAndCloseOnDropInner"]:
        cl = [i for i in F.impls_of("core::clone::Clone") if i["crate"] == MQ and ((i.get("self_head") or {}).get("adt", "").endswith("::" + nm) or (i.get("self_head") or {}).get("adt", "") == nm)]
        nm = nm.split("::", 1)[-1] if nm.startswith(MQ + "::") else nm
        ctx.check(not cl, "R06.4", MQ + "::" + nm + "#not-Clone", "", "%s implements Clone: two owners could append the entry twice" % nm)
    dm = [i for i in F.impls_of("core::ops::deref::DerefMut") if i["crate"] == MQ]
    cell_dm = []
    for i in dm:
        for it in i["items"]:
            b = F.bodies.get((MQ, it.get("uid") or it["def"]))
            if b and (any(c.name == "get" and "UnsafeCell" in c.def_ for c in b.calls()) or
                      any(hb.impl and (hb.impl.get("self_head") or {}).get("adt") in KA["cell_newtypes"] and any(x.name == "get" and "UnsafeCell" in x.def_ for x in hb.calls())
                          for c in b.calls() for hb in local_callee_bodies(F, c))):
                cell_dm.append(i)
    ctx.check(len(cell_dm) == 1 and cell_dm[0]["self_head"]["adt"] in KA["owner"], "R06.4", MQ + "#only-owner-derefs-mut-to-cell", "",
              "mutable access to the shared cell is offered by %s" % [i["self_ty"] for i in cell_dm])
    # ------------------------------------------------------------------ R06.5 the release slot is armed once, where it is created
    # the guards share one `Option<release action>`; a force-flush guard empties it, and from then on the owner alone keeps the entry
    # ("present and future flush guards" no longer delay it). So nothing may put a release action back: the slot becomes `Some` only
    # by being *created* that way (`Mutex::new(Some(..))`); no `get_or_insert*` / `insert` / `replace` / assignment through a
    # `&mut Option<release action>` anywhere in the crate
    # the slot by role: the `Option<Box<dyn ..>>` (closure or release object) that some body of the crate empties with `take()`
    slot_tys = {b.local_ty(op_local(c.args[0])) for b in lib for c in b.calls()
                if c.name == "take" and c.args and op_local(c.args[0]) is not None and
                b.local_ty(op_local(c.args[0])).startswith("&mut core::option::Option<alloc::boxed::Box<dyn ")}
    def _slot_ty(t):
        return t in slot_tys
    rearm, n_takes = [], 0
    for b in lib:
        for c in b.calls():
            a0 = op_local(c.args[0]) if c.args else None
            if a0 is None or not _slot_ty(b.local_ty(a0)):
                continue
            if c.name == "take":
                n_takes += 1
            elif c.name in ("get_or_insert_with", "get_or_insert", "get_or_insert_default", "insert", "replace", "swap", "write"):
                rearm.append((b, c.bb, c.name))
        for i in b.live_blocks():
            for st_ in b.stmts(i):
                if st_["k"] == "assign" and st_["lhs"].get("p") and [e[0] for e in st_["lhs"]["p"]] == ["deref"] and _slot_ty(b.local_ty(st_["lhs"]["l"])):
                    o_ = Prov(b).operand(st_["rv"]["op"]) if st_["rv"]["k"] == "use" else {("agg", st_["rv"].get("adt"), st_["rv"].get("variant"))}
                    if not o_ or any(x[0] != "agg" or x[2] != "None" for x in o_ if x[0] != "via"):
                        rearm.append((b, i, "assignment"))
    ctx.check(not rearm, "R06.5", MQ + "#release-slot-armed-only-at-creation", loc(rearm[0][0], rearm[0][1]) if rearm else "",
              "the guards' release slot is (re)filled after its creation (%s in %s): a flush guard created after a force-flush guard was dropped "
              "re-arms it and keeps the entry alive again - the owner's drop no longer emits the entry" % (
                  rearm[0][2] if rearm else "", rearm[0][0].path if rearm else ""),
              "no store of a release action into an existing slot; %d take site(s) on the slot type" % n_takes)
    ctx.floor("R06.5", "take sites on the release slot (shows the slot type is recognised)", n_takes, 1)
    # compile-fail witnesses (type-level part of the property), discharged by rustc's type checker
    from mq import witness as _w
    _w.report_cf(ctx, "W06", _w.run_witness(), "C06")
    return EXPL

"""C17 — global sinks route each entry to exactly one destination, by fixed precedence.
Analysed on the `global_entry_sink!` instance compiled into metrique-service-metrics (test-util on)."""
from mq.util import *
from mq.sim import Sim, pkey, Budget
from mq.prov import Prov

EXPL = ("Rules over the MIR of the global_entry_sink! expansion in metrique-service-metrics (and the time-source twin): "
        "R17.1 precedence thread-local > runtime > attached as dominance + branch-exclusion; R17.2 the entry is moved into "
        "exactly one append or handed back in Err on every path (path-sensitive linearity with drop flags); R17.3 no lock/"
        "borrow guard is live at any explicit panic; R17.5 each guard destructor performs its restoring action on every path. "
        "R17.3 #nothing-stored-before-rejection: in an installing body that can reject (explicit panic), every store into the shared map / cell that can be followed by the panic is control-dependent on a vacancy test. "
        "Not decided: cross-thread / runtime histories.")

SM = "metrique_service_metrics"
GUARD_ADTS = ("std::sync::poison::rwlock::RwLockWriteGuard", "std::sync::poison::rwlock::RwLockReadGuard",
              "std::sync::poison::mutex::MutexGuard", "core::cell::RefMut", "core::cell::Ref",
              "std::sync::rwlock::RwLockWriteGuard", "std::sync::rwlock::RwLockReadGuard", "std::sync::mutex::MutexGuard")


def precedence(ctx, rule, body, first_pred, second_pred, what):
    """`first` dominates `second`, and on the branch where first yielded Some, `second` is unreachable"""
    key = fnkey(body) + "#" + what
    firsts = [c for c in body.calls() if first_pred(c)]
    seconds = [c for c in body.calls() if second_pred(c)]
    if not firsts or not seconds:
        ctx.bad(rule, key + "-anchor", loc(body), "precedence anchors missing (first=%d, second=%d)" % (len(firsts), len(seconds)))
        return
    dom = body.dominators()
    for s in seconds:
        if not any(dominates(body, f.bb, s.bb, dom) for f in firsts):
            ctx.bad(rule, key, loc(body, s.bb), "the lower-priority lookup is not dominated by the higher-priority lookup")
            return
    # the Some-branch of the first lookup must not reach the second lookup, and must reach Return
    for f in firsts:
        if f.target is None or f.dest.get("p"):
            continue
        dl = f.dest["l"]
        found = False
        for i in body.live_blocks():
            t = body.term(i)
            if t["k"] != "switch":
                continue
            # discriminant of the first lookup's result
            dd = None
            for s in body.stmts(i):
                if s["k"] == "assign" and s["rv"]["k"] == "discr" and s["rv"]["place"]["l"] == dl and not s["rv"]["place"].get("p"):
                    dd = s
            if dd is None:
                continue
            variants = dict((n, d) for d, n in dd["rv"].get("variants", []))
            some = variants.get("Some", variants.get("Ok"))
            tgt = None
            for v, tb in t["targets"]:
                if v == some:
                    tgt = tb
            if tgt is None:
                expl = {v for v, _ in t["targets"]}
                if some not in expl:
                    tgt = t["otherwise"]
            if tgt is None:
                continue
            found = True
            reach = body.reachable(tgt)
            hit = [s for s in seconds if s.bb in reach]
            ctx.check(not hit and any(r in reach for r in body.return_blocks()), rule, key, loc(body, f.bb),
                      "when the higher-priority lookup yields a sink, control can still reach the lower-priority lookup "
                      "(or cannot return): precedence is not fixed", "Some-branch bb%d returns without the lower-priority lookup" % tgt)
        if not found:
            ctx.bad(rule, key + "-no-branch", loc(body, f.bb), "result of the higher-priority lookup is not branched on")


class GuardLive(Sim):
    """automaton state: frozenset of locals currently holding a lock/borrow guard"""

    def is_guard_local(self, l):
        h = self.b.locals[l].get("head", {})
        return h.get("adt") in GUARD_ADTS and not h.get("refs")

    def on_stmt(self, bb, idx, s, a, env):
        if s["k"] != "assign":
            return a
        rv = s["rv"]
        lhs = s["lhs"]
        if rv["k"] == "use" and "move" in rv["op"]:
            src = rv["op"]["move"]
            if not src.get("p") and src["l"] in a:
                a = a - {src["l"]}
                if not lhs.get("p") and self.is_guard_local(lhs["l"]):
                    a = a | {lhs["l"]}
        return a

    def on_call(self, t, bb, a, env):
        for arg in t.get("args", []):
            if "move" in arg and not arg["move"].get("p") and arg["move"]["l"] in a:
                a = a - {arg["move"]["l"]}
        if t.get("target") is None:
            c = t.get("callee", {})
            if a and (c.get("never") or True):
                self.flag("panic with live guard", bb, guards=sorted(a), callee=c.get("def"))
            return [(a, {})]
        d = t["dest"]
        if not d.get("p") and self.is_guard_local(d["l"]):
            a = a | {d["l"]}
        return [(a, {})]

    def on_drop(self, bb, t, a, env):
        p = t["place"]
        if not p.get("p") and p["l"] in a:
            a = a - {p["l"]}
        return a


def attach_handle_rules(ctx, F, rule="R17.5"):
    """AttachHandle::drop calls the stored fn exactly once on the Some path; the fn stored by the macro instance takes the
    (sink, join handle) pair out of the global under the write lock and lets it drop"""
    core = "metrique_writer_core"
    drops = []
    for imp in F.impls_of("core::ops::drop::Drop"):
        if imp["crate"] != core:
            continue
        adt = F.adts.get((imp.get("self_head") or {}).get("adt"))
        if not adt:
            continue
        def _fn_state(ty):
            """Option<fn()> or a private two-state enum { Holding(fn()), Empty }: (full variant, empty variant) or None"""
            if ty.startswith("core::option::Option<fn()"):
                return ("Some", "None")
            a_ = F.adts.get(ty)
            if a_ and a_["crate"] == core and len(a_["variants"]) == 2:
                full_ = [v_["name"] for v_ in a_["variants"] if len(v_["fields"]) == 1 and v_["fields"][0]["ty"].startswith("fn()")]
                empty_ = [v_["name"] for v_ in a_["variants"] if not v_["fields"]]
                if len(full_) == 1 and len(empty_) == 1:
                    return (full_[0], empty_[0])
            return None
        states = [st_ for v in adt["variants"] for f in v["fields"] for st_ in [_fn_state(f["ty"])] if st_]
        if states:
            adt = dict(adt, _fn_state=states[0])
            for it in imp["items"]:
                if it["name"] == "drop":
                    b = F.bodies.get((core, it.get("uid") or it["def"]))
                    if b:
                        drops.append((adt, b))
    ctx.floor(rule, "attach-handle destructors (ADT holding Option<fn()>)", len(drops), 1)
    for adt, b in drops:
        key = fnkey(b)
        full_v, empty_v = adt["_fn_state"]
        takes = [c for c in b.calls() if c.is_("core::option::Option::<T>::take") or c.is_("core::mem::replace", "core::mem::take")]
        take_bbs = {c.bb for c in takes}
        ptr_calls = [i for i in b.live_blocks() if b.term(i)["k"] == "call" and "callee_op" in b.term(i)]
        ctx.check(bool(takes) and bool(ptr_calls), rule, key + "#take-then-call", loc(b),
                  "destructor does not take() the stored fn and call it", "take bb%s, call bb%s" % ([c.bb for c in takes], ptr_calls))
        if takes and ptr_calls:
            # the call happens on every path where take() returned Some: path-sensitive
            class S(Sim):
                def on_call(self_, t, bb, a, env):
                    if "callee_op" in t:
                        return [((a or 0) + 1, {})]
                    c = t.get("callee", {})
                    if bb in take_bbs:
                        return [(a, {"dest": ("v", full_v)}), (("none", a), {"dest": ("v", empty_v)})]
                    return None
            s = S(b).run(0, 0, {})
            some_rets = [a for _, a, _ in s.returns if not (isinstance(a, tuple) and a[0] == "none")]
            none_rets = [a for _, a, _ in s.returns if isinstance(a, tuple) and a[0] == "none"]
            ctx.check(some_rets and all(a == 1 for a in some_rets), rule, key + "#fn-called-exactly-once-when-present", loc(b),
                      "on the path where a detach fn is stored it is called %s times" % sorted(set(some_rets)),
                      "called exactly once on the Some path; %d None path(s)" % len(none_rets))
            ctx.check(all(a[1] == 0 for a in none_rets), rule, key + "#nothing-when-forgotten", loc(b), "fn called although handle was forgotten")
    # the detach closure of every macro instance in library crates
    inst = 0
    for b in F.all_bodies(WS_LIBS):
        if b.name != "attach" or not b.impl or not (b.impl.get("trait") or "").endswith("AttachGlobalEntrySink"):
            continue
        inst += 1
        key = fnkey(b)
        news = [c for c in b.calls() if c.is_("metrique_writer_core::global::AttachHandle::new")]
        if not news:
            ctx.bad(rule, key + "#attach-handle", loc(b), "attach does not build an AttachHandle")
            continue
        for n in news:
            # closure coerced to fn(): find closure aggregate feeding arg0
            cls_ = fn_operand_bodies(F, b, n.args[0])
            cl = cls_[0] if len(cls_) == 1 else None
            if cl is None:
                ctx.bad(rule, key + "#detach-closure", loc(b, n.bb), "cannot resolve the detach fn given to AttachHandle::new")
                continue
            w = [c for c in cl.calls() if c.is_("std::sync::poison::rwlock::RwLock::<T>::write", "std::sync::rwlock::RwLock::<T>::write")]
            tk = [c for c in cl.calls() if c.is_("core::option::Option::<T>::take")]
            dom = cl.dominators()
            ok = bool(w) and bool(tk) and all(any(dominates(cl, x.bb, t.bb, dom) for x in w) for t in tk) and cl.must_pass([t.bb for t in tk])
            # the taken pair is dropped (not forgotten / stored)
            dropped = False
            for t in tk:
                dl = t.dest["l"]
                for i in cl.live_blocks():
                    tt = cl.term(i)
                    if tt["k"] == "drop" and tt["place"]["l"] == dl:
                        dropped = True
            ctx.check(ok and dropped, rule, fnkey(cl) + "#write-lock>take>drop", loc(cl),
                      "detach fn does not take the (sink, join handle) pair out of the global under the write lock and drop it "
                      "(write=%d take=%d dropped=%s)" % (len(w), len(tk), dropped),
                      "write-lock dominates take on every path; taken pair dropped")
        # attach stores the join handle in the global pair: the handle parameter flows into the stored aggregate
        st = F.statics
    ctx.floor(rule, "global_entry_sink! instances in library crates", inst, 1)
    # the global slot holds the sink together with its join handle: as a tuple, or as a private struct with exactly those two fields
    def _pair(ty):
        if "RwLock<core::option::Option<(metrique_writer_core::sink::BoxEntrySink, alloc::boxed::Box<" in ty:
            return True
        for d_, a_ in F.adts.items():
            if a_["crate"] == SM and ("RwLock<core::option::Option<%s>>" % d_) in ty and len(a_["variants"]) == 1:
                tys_ = [f_["ty"] for f_ in a_["variants"][0]["fields"]]
                if len(tys_) == 2 and "metrique_writer_core::sink::BoxEntrySink" in tys_ and any(t_.startswith(("alloc::boxed::Box<dyn ", "alloc::boxed::Box<(dyn ")) for t_ in tys_):
                    return True
        return False
    sinks = [s for s in F.statics if s["crate"] == SM and _pair(s["ty"])]
    ctx.check(len(sinks) >= 1, rule, SM + "::SINK#holds-sink-and-handle", "", "global slot no longer stores (sink, join handle) together",
              "static type: %s" % (sinks[0]["ty"] if sinks else ""))


def run(ctx):
    F = ctx.facts("dbg")
    is_append = lambda c: c.is_trait_method("EntrySink", "append") or c.is_("metrique_writer_core::sink::BoxEntrySink::append_any")
    is_tl = lambda c: c.is_in("std::thread", "LocalKey::with", "LocalKey::try_with")
    # the macro's private helpers by signature (their names are an implementation detail): the test-sink lookup is the parameterless local
    # fn returning Option<BoxEntrySink>; the runtime registry accessor returns the &'static map keyed by runtime id
    BOXSINK = "metrique_writer_core::sink::BoxEntrySink"
    lookup_defs = {b_.def_ for b_ in F.all_bodies(SM) if b_.kind in ("Fn", "AssocFn") and not ((b_.impl or {}).get("trait")) and not (b_.d.get("inputs") or []) and b_.d.get("output") == "core::option::Option<%s>" % BOXSINK}
    rt_defs = {b_.def_ for b_ in F.all_bodies(SM) if b_.kind in ("Fn", "AssocFn") and not (b_.d.get("inputs") or []) and "HashMap<tokio::runtime::id::Id" in (b_.d.get("output") or "")}
    is_rt = lambda c: c.is_("tokio::runtime::Handle::try_current") or (c.name == "try_current" and (c.def_ or "").startswith("tokio::runtime")) or c.def_ in rt_defs
    is_test_lookup = lambda c: c.def_ in lookup_defs
    is_read = lambda c: c.is_("std::sync::poison::rwlock::RwLock::<T>::read", "std::sync::rwlock::RwLock::<T>::read")

    # the lookup may be split into helpers (one per source): a call counts as the thread-local / runtime lookup when its callee is a
    # local function that reaches that source and not the other one; the body judged is every lookup that (through helpers) reaches both
    def _reaches(b_, pred, depth=2):
        return bool(reaches_call(F, b_, pred, depth=depth))
    def _kind(c):
        tl, rt = is_tl(c), is_rt(c)
        for sb in local_callee_bodies(F, c):
            if sb.crate == SM and sb.def_ not in rt_defs:
                tl = tl or _reaches(sb, is_tl)
                rt = rt or _reaches(sb, is_rt)
        return tl, rt
    is_tl2 = lambda c: _kind(c) == (True, False)
    is_rt2 = lambda c: _kind(c) == (False, True)
    gts = [b for b in F.all_bodies(SM) if b.def_ in lookup_defs and _reaches(b, is_tl, 3) and _reaches(b, is_rt, 3)]
    ctx.floor("R17.1", "get_test_sink instances", len(gts), 1)
    for b in gts:
        if not any(is_tl2(c) for c in b.calls()) and any(_kind(c) == (True, True) for c in b.calls()):
            ctx.ok("R17.1", fnkey(b) + "#thread-local>runtime", loc(b), "lookup delegated to a helper that is judged itself")
            continue
        precedence(ctx, "R17.1", b, is_tl2, is_rt2, "thread-local>runtime")
    # R17.4 (library side): the panicking `append` of every global sink is the locked `try_append` plus a panic - never a clone of the
    # sink obtained with try_sink()/sink() and appended to outside the lock
    blanket = [b for b in F.all_bodies(WS_LIBS) if b.name == "append" and b.impl and (b.impl.get("trait") or "").endswith("global::GlobalEntrySink")]
    ctx.floor("R17.4", "GlobalEntrySink::append implementations", len(blanket), 1)
    for b in blanket:
        pr_ = Prov(b)
        ta = [c for c in b.calls() if c.name == "try_append" and any(any(x[0] == "arg" and x[1] == 1 for x in pr_.operand(a)) for a in c.args)]
        direct = [c for c in b.calls() if is_append(c)]
        ok_, why_ = exactly_once(b, [c.bb for c in ta])
        ctx.check(ok_ and not direct, "R17.4", fnkey(b) + "#append-goes-through-try_append", loc(b),
                  "the global sink's `append` does not hand the entry to `try_append` (%s%s): appending to a sink obtained from try_sink()/sink() happens "
                  "outside the global's read lock, so a detach can complete while the append is in flight and the entry lands in a sink that was "
                  "already flushed and removed" % (why_ if not ok_ else "", "; direct append to a sink clone" if direct else ""),
                  "entry -> try_append exactly once, no direct append")
    n = 0
    for b in F.all_bodies(WS_LIBS):
        if b.impl and (b.impl.get("trait") or "").endswith("AttachGlobalEntrySink") and b.name in ("try_sink", "try_append"):
            n += 1
            delegates = [c for c in b.calls() if c.name == "try_sink" and b.name == "try_append"]
            if delegates:
                ctx.ok("R17.1", fnkey(b) + "#test-sink>attached", loc(b), "lookup delegated to try_sink, which is checked itself")
            else:
                # (the read lock may be taken by a private `with_attached_sink(|sink| ..)` helper)
                is_read2 = lambda c: is_read(c) or any(sb.crate == SM and sb.kind != "Closure" and reaches_call(F, sb, is_read, depth=1) for sb in local_callee_bodies(F, c))
                precedence(ctx, "R17.1", b, is_test_lookup, is_read2, "test-sink>attached")
            if b.name == "try_append":
                # R17.4: the append to the ATTACHED sink is serialised with detach: it happens while the read guard is held,
                # so dropping the attach handle (write lock -> take -> drop (sink, join handle)) waits for an append in flight
                # and flushes what the sink had accepted
                reads = [c for c in b.calls() if is_read(c)]
                att = [c for c in b.calls() if is_append(c) and not any(("call", t.bb) in Prov(b).operand(c.args[0]) or ("callf", t.bb) in {x[:2] for x in Prov(b).operand(c.args[0])} for t in b.calls() if is_test_lookup(t))]
                held = False
                if reads:
                    try:
                        sim = GuardLive(b)
                        sites = {}
                        orig = sim.on_call

                        def hook(t, bb, a, env, orig=orig, sites=sites):
                            c = t.get("callee") or {}
                            if c.get("name") in ("append", "append_any"):
                                sites[bb] = bool(a) if bb not in sites else (sites[bb] and bool(a))
                            return orig(t, bb, a, env)
                        sim.on_call = hook
                        sim.run(0, frozenset(), {})
                        attached_sites = [c.bb for c in att]
                        held = bool(attached_sites) and all(sites.get(bb_) for bb_ in attached_sites)
                    except Budget:
                        held = False
                if not reads:
                    # scope helper: takes the read lock and runs the closure it is given while the guard is live; the appends of that
                    # closure are then under the lock
                    for c in b.calls():
                        for hb in local_callee_bodies(F, c):
                            if hb.crate != SM or hb.kind == "Closure" or not any(is_read(x) for x in hb.calls()):
                                continue
                            cls_ = closure_args(F, c)
                            inner_att = [x for cl_ in cls_ for x in cl_.calls() if is_append(x)]
                            if not inner_att:
                                continue
                            try:
                                sim = GuardLive(hb)
                                seen_inv = {}
                                orig = sim.on_call

                                def hook2(t, bb, a, env, orig=orig, seen_inv=seen_inv):
                                    cc = t.get("callee") or {}
                                    if "callee_op" in t or (cc.get("name") in ("call_once", "call_mut", "call") and "ops::function" in cc.get("def", "")):
                                        seen_inv[bb] = bool(a) if bb not in seen_inv else (seen_inv[bb] and bool(a))
                                    return orig(t, bb, a, env)
                                sim.on_call = hook2
                                sim.run(0, frozenset(), {})
                                held = bool(seen_inv) and all(seen_inv.values())
                            except Budget:
                                held = False
                ctx.check(held, "R17.4", fnkey(b) + "#attached-append-under-read-lock", loc(b),
                          "the entry is appended to the attached sink without holding the global's read lock (e.g. through a clone of the sink): dropping the "
                          "attach handle no longer waits for an append in flight, so an entry can be accepted by a sink that was already flushed and "
                          "detached - it is neither written nor handed back")
            if b.name == "try_append":
                def allowed(cs, i):
                    if cs is None:
                        return False
                    return is_append(cs)
                lin = check_linear(ctx, "R17.2", b, 1, allowed, what="entry")
                if lin is not None:
                    # handed back only inside Err
                    for l, w in lin.wrapped_in.items():
                        if l == 0 or True:
                            ctx.check(w[1] in ("Err",) or w[0] not in ("core::result::Result",), "R17.2", fnkey(b) + "#handed-back-in-Err", loc(b),
                                      "entry wrapped in %s::%s" % w, "entry handed back as %s::%s" % w)
                    # at most one append per path
                    ok, why = at_most_once(b, list(lin.consumers.keys()))
                    ctx.check(ok, "R17.2", fnkey(b) + "#one-destination", loc(b), why)
    ctx.floor("R17.1", "try_sink/try_append bodies of global sinks", n, 2)
    # GlobalEntrySink::append panics only on Err
    for b in F.find("metrique_writer_core::global::<impl metrique_writer_core::global::GlobalEntrySink for Q>::append"):
        tr = [c for c in b.calls() if c.name == "try_append"]
        ctx.check(len(tr) == 1, "R17.2", fnkey(b) + "#forwards-to-try_append", loc(b), "append does not forward to try_append exactly once")
        if tr:
            check_linear(ctx, "R17.2", b, 1, lambda cs, i: cs is not None and cs.name == "try_append", what="entry")

    # R17.3 no guard live at a panic
    nb = 0
    for crate in (SM, "metrique_timesource", "metrique_writer_core"):
        for b in F.all_bodies(crate):
            if not any(c.diverges for c in b.calls()):
                continue
            if not any((l.get("head", {}).get("adt") in GUARD_ADTS) for l in b.locals):
                continue
            nb += 1
            try:
                s = GuardLive(b).run(0, frozenset(), {})
            except Budget as e:
                ctx.bad("R17.3", fnkey(b) + "#budget", loc(b), str(e))
                continue
            if s.violations:
                v = s.violations[0]
                ctx.bad("R17.3", fnkey(b) + "#guard-live-at-panic", loc(b, v["bb"]),
                        "a lock/borrow guard (local(s) %s) is still held when `%s` panics: unwinding poisons / leaves the global "
                        "unusable" % (v["guards"], v["callee"]), path=v["path"])
            else:
                ctx.ok("R17.3", fnkey(b) + "#guard-live-at-panic", loc(b), "%d panic site(s), no guard live at any" % len([c for c in b.calls() if c.diverges]))
    ctx.floor("R17.3", "bodies with both a guard local and an explicit panic", nb, 2)
    # R17.3 #nothing-stored-before-rejection (seed S142): a rejected installation "leaves the global undamaged" only if the rejection is
    # decided before anything is stored: a store into the shared map / cell (HashMap::insert, Option::replace/insert, mem::replace/swap)
    # that can be followed by the body's explicit panic must be control-dependent on a test (vacancy check); `insert(..).is_some()`
    # stores unconditionally and decides afterwards. (Plain reachability store -> panic is path-insensitive and alarms on today's tree.)
    STORES = ("insert", "replace", "swap")
    nrej = 0
    for crate in (SM, "metrique_writer_core"):
        for b in F.all_bodies(crate):
            panics = [c for c in b.calls() if c.diverges and c.name in ("panic_fmt", "panic", "begin_panic", "panic_display", "panic_str")]
            stores = [c for c in b.calls() if c.name in STORES and any(k in (c.def_ or "") for k in ("HashMap", "BTreeMap", "Option", "mem::", "RefCell", "Cell"))]
            if stores:
                nrej += 1      # floor = bodies that store into a shared map / cell at all: the guarded store may live in a helper (A17-3)
            if not panics or not stores:
                continue
            from rules.c12 import controlling_switches, discr_def
            VAC = ("contains_key", "is_some", "is_none", "get", "is_empty", "get_mut")
            unguarded = []
            for s in stores:
                if not any(p_.bb in b.reachable_after(s.bb) for p_ in panics):
                    continue          # the store cannot be followed by the rejection at all
                ok_g = False
                for gi, gt, yes, no in controlling_switches(b, s.bb):
                    rv = discr_def(b, gi, gt)
                    if rv is not None and rv.get("k") == "call" and (rv["term"].get("callee") or {}).get("name") in VAC:
                        ok_g = True
                    elif rv is not None and rv.get("k") == "unop":
                        ok_g = True
                    elif rv is not None and rv.get("k") in ("discriminant", "use"):
                        ok_g = True
                if not ok_g:
                    unguarded.append(s)
            ctx.check(not unguarded, "R17.3", fnkey(b) + "#nothing-stored-before-rejection", loc(b, unguarded[0].bb if unguarded else panics[0].bb),
                      "the installing body stores into the shared map / cell (`%s`) unconditionally and can still reach its explicit panic afterwards: "
                      "the rejection is decided after the overwrite, so a rejected installation has already replaced the sink that was installed "
                      "first" % (unguarded[0].name if unguarded else ""),
                      "%d store(s), %d explicit panic(s); every store that can be followed by the panic is control-dependent on a vacancy test" % (len(stores), len(panics)))
    ctx.floor("R17.3", "bodies storing into a shared map / cell of the sink globals", nrej, 1)

    # R17.5 restore on drop
    attach_handle_rules(ctx, F, "R17.5")
    core = "metrique_writer_core"
    for nm, pred, what in (
            ("ThreadLocalTestSinkGuard", lambda b: [i for i in b.live_blocks() if b.term(i)["k"] == "call" and "callee_op" in b.term(i)], "calls its clear fn"),
            ("TokioRuntimeTestSinkGuard", lambda b: [c.bb for c in b.calls() if c.name == "remove" and "HashMap" in c.def_], "removes its runtime id from the map")):
        for imp in F.impls_of("core::ops::drop::Drop", nm):
            for it in imp["items"]:
                b = F.bodies.get((imp["crate"], it.get("uid") or it["def"]))
                if b is None:
                    continue
                sites = pred(b)
                ok = bool(sites) and b.must_pass(sites)
                ctx.check(ok, "R17.5", fnkey(b) + "#restores", loc(b), "destructor of %s no longer %s on every path" % (nm, what), what)
    # the clear fn installed by set_test_sink resets the thread-local to None
    # (the fn handed to ThreadLocalTestSinkGuard::new - a closure or a named fn - calls the setter, i.e. the local function taking an
    # Option<BoxEntrySink>, with None)
    nclear = 0
    for pb in F.all_bodies(SM):
        for n in pb.calls():
            if not (n.name == "new" and "ThreadLocalTestSinkGuard" in n.def_):
                continue
            for b in fn_operand_bodies(F, pb, n.args[0]):
                nclear += 1
                okc = False
                for c in b.calls():
                    subs = [sb for sb in local_callee_bodies(F, c) if sb.crate == SM and any(
                        "Option<metrique_writer_core::sink::BoxEntrySink>" in sb.locals[i]["ty"] for i in range(1, sb.arg_count + 1))]
                    if subs and c.args:
                        o = Prov(b).operand(c.args[0])
                        okc = okc or any(x[0] == "agg" and x[2] == "None" for x in o)
                # ... or (a dedicated clearing function) stores None into the thread-local cell itself, on every path
                def _stores_none(bd, depth=2):
                    sites = []
                    for i_ in bd.live_blocks():
                        for st_ in bd.stmts(i_):
                            if st_["k"] == "assign" and [e[0] for e in st_["lhs"].get("p", [])] == ["deref"] and \
                                    "Option<metrique_writer_core::sink::BoxEntrySink>" in bd.local_ty(st_["lhs"]["l"]):
                                o_ = Prov(bd).operand(st_["rv"]["op"]) if st_["rv"]["k"] == "use" else {("agg", st_["rv"].get("adt"), st_["rv"].get("variant"))}
                                if o_ and all(x[0] == "agg" and x[2] == "None" for x in o_ if x[0] != "via"):
                                    sites.append(i_)
                                else:
                                    return False          # may store something else
                    if sites:
                        return bd.must_pass(sites)
                    if depth > 0:
                        inner = [c_.bb for c_ in bd.calls() if any(_stores_none(x_, depth - 1) for x_ in list(local_callee_bodies(F, c_)) + list(closure_args(F, c_)) if x_.crate == SM)]
                        return bool(inner) and bd.must_pass(inner)
                    return False
                okc = okc or _stores_none(b)
                ctx.check(okc, "R17.5", fnkey(b) + "#clears-thread-local", loc(b), "thread-local guard's clear fn does not reset the test sink to None")
            # the guard (whose drop clears the slot) exists only once the installation has succeeded: built before it, a rejected second
            # installation unwinds through the new guard and wipes the sink a live, earlier guard still stands for
            def _stores_some(bd, depth=2):
                for i_ in bd.live_blocks():
                    for st_ in bd.stmts(i_):
                        if st_["k"] == "assign" and [e[0] for e in st_["lhs"].get("p", [])] == ["deref"] and \
                                "Option<metrique_writer_core::sink::BoxEntrySink>" in bd.local_ty(st_["lhs"]["l"]):
                            o_ = Prov(bd).operand(st_["rv"]["op"]) if st_["rv"]["k"] == "use" else {("agg", st_["rv"].get("adt"), st_["rv"].get("variant"))}
                            if any((x[0] == "agg" and x[2] == "Some") or x[0] == "arg" for x in o_):
                                return True
                if depth > 0:
                    return any(_stores_some(x_, depth - 1) for c_ in bd.calls() for x_ in list(local_callee_bodies(F, c_)) + list(closure_args(F, c_)) if x_.crate == SM)
                return False
            installs = [c for c in pb.calls() if c is not n and any(hb.crate == SM and hb.kind != "Closure" and _stores_some(hb) for hb in local_callee_bodies(F, c))]
            if installs:
                pdom = pb.dominators()
                ctx.check(all(dominates(pb, c.bb, n.bb, pdom) and c.bb != n.bb for c in installs), "R17.5", fnkey(pb) + "#guard-built-after-install", loc(pb, n.bb),
                          "the thread-local test-sink guard is constructed before the sink is installed: if the installation is rejected (a sink is already "
                          "installed on this thread) the unwinding drops the new guard, which clears the slot of the earlier, still live guard - entries of this "
                          "thread then go to another destination", "install dominates the construction of the guard")
    ctx.floor("R17.5", "clear fns handed to the thread-local test-sink guard", nclear, 1)
    # compile-fail witnesses (type-level part of the property), discharged by rustc's type checker
    from mq import witness as _w
    _w.report_cf(ctx, "W17", _w.run_witness(), "C17")
    return EXPL

#!/bin/bash
rm -rf /verif/.cache/t1/facts; mkdir -p /verif/.cache/t1/facts
find /verif/.cache/t1/target -path '*/.fingerprint/metrique*' -maxdepth 4 -exec rm -rf {} + 2>/dev/null
cd /repo && env LD_LIBRARY_PATH=$(rustc +nightly --print sysroot)/lib CARGO_NET_OFFLINE=true CARGO_TARGET_DIR=/verif/.cache/t1/target MQFACTS_OUT=/verif/.cache/t1/facts RUSTFLAGS="-Zmir-opt-level=0 -Awarnings" RUSTC_WORKSPACE_WRAPPER=/verif/mqfacts/target/release/mqfacts cargo +nightly check --workspace --all-features --offline 2>&1 | tail -${1:-15}
ls -la /verif/.cache/t1/facts

#!/bin/bash
# usage: mkq.sh <base.diff> <name> <prop> <sed-expr-file-or-python> ; creates mutants/patches/<name>.diff from base + python edit script on stdin
set -e
base=$1; name=$2; prop=$3; note=$4
git -C /repo worktree add -q --detach /tmp/wt-x HEAD
cd /tmp/wt-x
[ -n "$base" ] && git apply $base
python3 /tmp/edit.py
git add -N . ; git diff > /verif/mutants/patches/$name.diff
cd /verif
git -C /repo worktree remove --force /tmp/wt-x
python3 - "$name" "$prop" "$note" <<'PY'
import json,sys
p='/verif/mutants/specs.json'; sp=json.load(open(p))
n,pr,note=sys.argv[1:4]
sp=[x for x in sp if x["name"]!=n]
sp.append({"name":n,"prop":pr,"patch":"mutants/patches/%s.diff"%n,"note":note})
json.dump(sp,open(p,'w'),indent=1)
PY
